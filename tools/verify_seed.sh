#!/bin/sh
# usage: tools/verify_seed.sh <seed-dir> ; verifies a seeded change against /repo's HEAD in a scratch worktree:
#   clean tree: demo passes;  with patch: the 81 tests pass AND the demo fails.
d="$(readlink -f "$1")"; id=$(basename "$d"); wt=/tmp/wt/verify_$id
export CARGO_NET_OFFLINE=true CARGO_TARGET_DIR=/tmp/wt/target_verify RUST_BACKTRACE=0
git -C /repo worktree remove --force "$wt" 2>/dev/null
git -C /repo worktree add -q --detach "$wt" HEAD || exit 2
demo=$(ls "$d"/*.rs | head -1)
cp "$demo" "$wt/visitor/tests/seed_demo.rs"
cd "$wt"
cargo test --offline -p swc-vue-jsx-visitor --test seed_demo >/tmp/wt/verify_$id.clean.log 2>&1; clean=$?
if ! git apply "$d/patch.diff" 2>/dev/null; then git apply --3way "$d/patch.diff" 2>/dev/null || { echo "$id: PATCH DOES NOT APPLY"; git -C /repo worktree remove --force "$wt"; exit 3; }; fi
cargo test --offline -p swc-vue-jsx-visitor --test seed_demo >/tmp/wt/verify_$id.seeded.log 2>&1; seeded=$?
cargo test --offline -p swc-vue-jsx-visitor --test fixture >/tmp/wt/verify_$id.suite.log 2>&1; suite=$?
echo "$id: demo on clean tree rc=$clean (want 0); demo on seeded tree rc=$seeded (want !=0); 81-test suite on seeded tree rc=$suite (want 0): $(grep -E '^test result' /tmp/wt/verify_$id.suite.log | head -1)"
cd /; git -C /repo worktree remove --force "$wt"
