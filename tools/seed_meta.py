#!/usr/bin/env python3
"""usage: tools/seed_meta.py <seed-dir> <first-result: caught|missed|weak> [note]   -- stamps meta.json of a verified seed"""
import json, sys, subprocess
d = sys.argv[1].rstrip("/")
m = json.load(open(d + "/meta.json"))
head = subprocess.check_output(["git", "-C", "/repo", "rev-parse", "--short", "HEAD"]).decode().strip()
m["verified"] = {"by": "tools/verify_seed.sh (scratch worktree of /repo HEAD, removed afterwards)", "clean_tree_demo": "passes",
                 "seeded_tree_demo": "fails", "seeded_tree_81_tests": "pass", "repo_head": head}
m["origin"] = "fourth round: independent sub-agent given the property text, a scratch worktree and the summaries of the three earlier seeds (to pick a different mechanism)"
m["first_result"] = sys.argv[2]
if len(sys.argv) > 3:
    m["note"] = sys.argv[3]
json.dump(m, open(d + "/meta.json", "w"), indent=1)
