#!/usr/bin/env python3
"""Seeded, grammar-directed generators of JSX/TSX modules (source text, so the real SWC parser and resolver are
in the loop).  One PRNG state (SplitMix64) per run; every case records the productions it used (histogram goes
into the evidence)."""
import itertools, json, collections


class Rng:
    def __init__(self, seed):
        self.s = seed & 0xFFFFFFFFFFFFFFFF

    def next(self):
        self.s = (self.s + 0x9E3779B97F4A7C15) & 0xFFFFFFFFFFFFFFFF
        z = self.s
        z = ((z ^ (z >> 30)) * 0xBF58476D1CE4E5B9) & 0xFFFFFFFFFFFFFFFF
        z = ((z ^ (z >> 27)) * 0x94D049BB133111EB) & 0xFFFFFFFFFFFFFFFF
        return z ^ (z >> 31)

    def below(self, n):
        return self.next() % n

    def chance(self, p):
        return (self.next() % 10000) < p * 10000

    def pick(self, xs):
        return xs[self.below(len(xs))]

    def wpick(self, pairs):
        tot = sum(w for _, w in pairs)
        r = self.below(tot)
        for x, w in pairs:
            if r < w:
                return x
            r -= w
        return pairs[-1][0]


BOUND_COMPONENTS = ["Comp", "Foo", "Bar"]
BOUND_VALUES = ["val", "obj", "fn1", "cls", "list", "slotsObj"]
UNBOUND_VALUES = ["x", "y", "z", "handler", "data"]
UNBOUND_COMPONENTS = ["Unk", "RouterView"]
HTML_TAGS = ["div", "span", "p", "input", "select", "textarea", "a", "ul", "li", "button", "pre", "code", "script", "style", "template", "slot",
             "option", "label", "table", "td", "h1", "br", "img", "form", "main", "b", "i", "title", "html", "body", "component", "transition"]
SVG_TAGS = ["svg", "circle", "path", "text", "tspan", "foreignObject", "g", "style"]
CUSTOM_TAGS = ["my-el", "x-foo", "custom", "_x-panel", "X-Upper", "my-el.v2".replace(".v2", "-v2")]

PRELUDE = ("import { Comp, Foo } from './comps';\nimport * as NS from './ns';\n"
           "const Bar = {}, val = 1, obj = {}, fn1 = () => 1, cls = 'c', list = [], slotsObj = {};\n")


class Gen:
    """profile: dict of feature weights / switches."""

    def __init__(self, rng, profile=None):
        self.r = rng
        self.p = dict(profile or {})
        self.used = collections.Counter()
        self.depth_limit = self.p.get("depth", 3)

    def u(self, prod):
        self.used[prod] += 1

    # ---------- expressions ----------
    def ident(self):
        if self.r.chance(0.5):
            self.u("expr:bound-ident")
            return self.r.pick(BOUND_VALUES)
        self.u("expr:unbound-ident")
        return self.r.pick(UNBOUND_VALUES)

    def lit(self):
        self.u("expr:literal")
        return self.r.pick(["1", "0", "'s'", "\"d\"", "true", "false", "null", "1.5", "`t`", "10n"])

    def const_expr(self, d=0):
        k = self.r.below(5 if d < 2 else 3)
        self.u("expr:constant")
        if k == 0:
            return self.r.pick(["1", "'s'", "true", "null", "undefined"])
        if k == 1:
            return self.r.pick(["2", "\"t\"", "false"])
        if k == 2:
            return "undefined"
        if k == 3:
            return "[" + ", ".join(self.const_expr(d + 1) for _ in range(self.r.below(3))) + "]"
        return "{" + ", ".join("k%d: %s" % (i, self.const_expr(d + 1)) for i in range(self.r.below(3))) + "}"

    def expr(self, d=0, allow_jsx=True):
        choices = [("ident", 5), ("lit", 3), ("call", 3), ("member", 3), ("arrow", 1), ("object", 2),
                   ("array", 2), ("cond", 1), ("binary", 1), ("template", 1), ("const", 2), ("odd", 2)]
        if allow_jsx and d < self.depth_limit and self.p.get("jsx_in_expr", 1):
            choices.append(("jsx", 2))
        k = self.r.wpick(choices)
        if k == "ident":
            return self.ident()
        if k == "lit":
            return self.lit()
        if k == "const":
            return self.const_expr()
        self.u("expr:" + k)
        if k == "odd":
            # syntactic variety the visitor has no special case for (and wrappers it may or may not look through)
            e = self.expr(d + 1, allow_jsx) if d < 2 else self.ident()
            return self.r.pick(["(%s)" % e, "(0, %s)" % e, "obj?.a", "list[0]", "new Foo(%s)" % e, "tag`t${%s}`" % e, "typeof %s" % e, "!%s" % e,
                                "%s ?? %s" % (self.ident(), e), "[...list, %s]" % e, "{...obj, a: %s}" % e, "{[x]: %s}" % e, "{ m() { return %s; } }" % e,
                                "{ get g() { return 1; } }", "function () { return %s; }" % e, "class {}", "/re/g", "void 0", "this", "-1", "x && %s" % e,
                                "obj.a.b.c", "f()()", "f?.()", "import.meta", "async () => %s" % e, "function* () {}", "`a${%s}b${val}`" % e])
        if k == "call":
            return "%s(%s)" % (self.r.pick(["f", "fn1", "obj.m", "x.y"]), ", ".join(self.expr(d + 1, allow_jsx) for _ in range(self.r.below(2))))
        if k == "member":
            return "%s.%s" % (self.ident(), self.r.pick(["a", "b", "value"]))
        if k == "arrow":
            return "() => (%s)" % self.expr(d + 1, allow_jsx)
        if k == "object":
            n = self.r.below(3)
            return "{" + ", ".join(self.r.pick(["%s: %s" % (self.r.pick(["a", "b", "'c-d'"]), self.expr(d + 1, allow_jsx)), self.ident()]) for _ in range(n)) + "}"
        if k == "array":
            return "[" + ", ".join(self.expr(d + 1, allow_jsx) for _ in range(self.r.below(3))) + "]"
        if k == "cond":
            return "%s ? %s : %s" % (self.ident(), self.expr(d + 1, allow_jsx), self.expr(d + 1, allow_jsx))
        if k == "binary":
            return "%s + %s" % (self.ident(), self.lit())
        if k == "template":
            return "`a${%s}`" % self.ident()
        if k == "jsx":
            return self.element(d + 1)
        return "x"

    # ---------- tags ----------
    def tag(self):
        w = self.p.get("tags", {"html": 5, "svg": 1, "custom": 1, "bound": 4, "unbound": 2, "member": 2,
                                "this": 0, "ns": 0, "Fragment": 0, "_Fragment": 0, "KeepAlive": 1})
        k = self.r.wpick([(a, b) for a, b in w.items() if b > 0])
        self.u("tag:" + k)
        return {
            "html": lambda: self.r.pick(HTML_TAGS), "svg": lambda: self.r.pick(SVG_TAGS),
            "custom": lambda: self.r.pick(CUSTOM_TAGS), "bound": lambda: self.r.pick(BOUND_COMPONENTS),
            "unbound": lambda: self.r.pick(UNBOUND_COMPONENTS), "member": lambda: self.r.pick(["NS.Item", "obj.Comp", "NS.a.B", "NS.div", "Card.title", "Form.input", "Table.td", "Icon.circle", "NS.my-el".replace("-", "_"),
                                                             "obj.select", "NS.a.textarea", "NS.Fragment", "NS.KeepAlive", "NS.Unk", "obj.custom", "NS.zz-top", "NS.x-foo"]),
            "this": lambda: "this.Comp", "ns": lambda: "a:b", "Fragment": lambda: "Fragment",
            "_Fragment": lambda: "_Fragment", "KeepAlive": lambda: "KeepAlive",
        }[k]()

    # ---------- attributes ----------
    def attr_name(self):
        w = self.p.get("attr_names", {"plain": 6, "class": 3, "style": 2, "key": 1, "ref": 1, "onClick": 2,
                                      "on": 2, "ns": 1, "onUpdate": 1, "model-like": 1, "on-obj": 0})
        k = self.r.wpick([(a, b) for a, b in w.items() if b > 0])
        self.u("attrname:" + k)
        return {
            "plain": lambda: self.r.pick(["id", "title", "foo", "data-x", "aria-label", "only", "type", "value"]),
            "class": lambda: "class", "style": lambda: "style", "key": lambda: "key", "ref": lambda: "ref",
            "onClick": lambda: self.r.pick(["onClick", "onclick"]),
            "on": lambda: self.r.pick(["onInput", "onMouseenter", "on-x", "onUpdate:foo"]),
            "ns": lambda: self.r.pick(["xlink:href", "a:b"]), "onUpdate": lambda: "onUpdate:modelValue",
            "model-like": lambda: self.r.pick(["model", "vue", "v"]),
            "on-obj": lambda: self.r.pick(["on", "nativeOn"]),
        }[k]()

    def attr_value(self, d):
        w = self.p.get("attr_values", {"string": 4, "none": 2, "expr": 6, "const": 3, "string-ws": 1, "jsx": 1, "empty": 0})
        k = self.r.wpick([(a, b) for a, b in w.items() if b > 0])
        self.u("attrval:" + k)
        if k == "string":
            return '="%s"' % self.r.pick(["a", "b c", "", "x-y"])
        if k == "string-ws":
            return '="%s"' % self.r.pick([" a ", "a\n   b", "  ", "a\tb", "t ", "a\rb", "\u00a0", "a \u00a0\n b", "\t", "a\r\n  b", "&nbsp;x", "a&#10;b"])
        if k == "none":
            return ""
        if k == "expr":
            return "={%s}" % self.expr(d + 1)
        if k == "const":
            return "={%s}" % self.const_expr()
        if k == "jsx":
            if d < 2 and self.r.chance(0.6):
                return "=" + self.element(d + 2)
            return "=" + self.r.pick(["<b/>", "<></>", "<i v-foo={x}/>", "<Comp v-show={y} id=\"a\"/>", "<>t</>"])
        return "={}"

    def directive(self, d):
        w = self.p.get("directives", {"custom": 3, "show": 2, "html": 1, "text": 1, "model": 3, "models": 1, "slots": 1})
        k = self.r.wpick([(a, b) for a, b in w.items() if b > 0])
        self.u("directive:" + k)
        tgt = self.r.pick(["val", "obj.a", "x", "data.v", "list[0]"])
        if k == "custom":
            name = self.r.pick(["v-foo", "vFoo", "v-my-dir", "vMyDir", "v-foo:arg", "v-foo_a", "v-foo_a_b", "vBar_m", "v-x:y_m", "v-visible", "vValid", "v-view:x_m"])
            form = self.r.below(6)
            v = self.expr(d + 1, False)
            return [name + "={%s}" % v, name + "={[%s]}" % v, name + "={[%s, 'arg']}" % v,
                    name + "={[%s, ['m1', 'm2']]}" % v, name + "={[%s, 'arg', ['m']]}" % v, name + "={[%s, x]}" % v][form]
        if k == "show":
            return "v-show={%s}" % self.expr(d + 1, False)
        if k == "html":
            return self.r.pick(["v-html", "vHtml"]) + "={%s}" % self.expr(d + 1, False)
        if k == "text":
            return self.r.pick(["v-text", "vText"]) + self.r.pick(["={%s}" % self.expr(d + 1, False), '="lit"'])
        if k == "model":
            name = self.r.pick(["v-model", "vModel", "v-model:foo", "v-model_trim", "v-model:foo_lazy"])
            form = self.r.below(6)
            return [name + "={%s}" % tgt, name + "={[%s]}" % tgt, name + "={[%s, 'arg']}" % tgt,
                    name + "={[%s, ['lazy']]}" % tgt, name + "={[%s, 'arg', ['m']]}" % tgt, name + "={[%s, x]}" % tgt][form]
        if k == "models":
            return "v-models={[[%s, 'a'], [%s, ['m']], [%s]]}" % (tgt, self.r.pick(["val", "x"]), "obj.b")
        if k == "slots":
            return self.r.pick(["v-slots={slotsObj}", "v-slots={{ named: () => 1 }}", "v-slots={x}", "vSlots={obj}"])
        return ""

    def attrs(self, d):
        n = self.r.wpick(self.p.get("n_attrs", [(0, 3), (1, 4), (2, 4), (3, 2), (4, 1), (6, 1)]))
        out = []
        for _ in range(n):
            k = self.r.wpick([("plain", self.p.get("w_plain", 8)), ("spread", self.p.get("w_spread", 2)),
                              ("directive", self.p.get("w_directive", 2)), ("repeat", self.p.get("w_repeat", 1))])
            if k == "plain":
                out.append(self.attr_name() + self.attr_value(d))
            elif k == "spread":
                self.u("attr:spread")
                out.append("{...%s}" % self.r.pick(["obj", "x", "f()", "{a: 1}", "{id: val, ...y}", "{[x]: 1}"]))
            elif k == "directive":
                out.append(self.directive(d))
            else:
                self.u("attr:repeat")
                nm = self.r.pick(["class", "style", "onClick", "id"])
                out.append(nm + self.attr_value(d))
                out.append(nm + self.attr_value(d))
        return out

    # ---------- children ----------
    def text(self):
        self.u("child:text")
        return self.r.pick(["hello", " hi ", "a b", "\n  line\n", "  \n  ", "t ", " t", "a\n\n b", "x&nbsp;", "&lt;", "a\tb", "\n  &nbsp;\n", "\u00a0", "\n\u3000\n", "a\rb",
                            "&#32;x", "\u2003\n y", "é", "\n\t\n"])

    def child(self, d):
        w = self.p.get("children", {"text": 4, "expr": 4, "ident": 3, "call": 2, "empty": 1, "comment": 1, "spread": 1,
                                    "element": 4, "fragment": 1, "fn": 1, "objlit": 1, "wrapped": 1, "member": 1})
        k = self.r.wpick([(a, b) for a, b in w.items() if b > 0])
        if k == "text":
            return self.text()
        self.u("child:" + k)
        if k == "expr":
            return "{%s}" % self.expr(d + 1)
        if k == "ident":
            return "{%s}" % self.ident()
        if k == "call":
            return "{%s}" % self.r.pick(["f()", "fn1(x)", "obj.render()"])
        if k == "empty":
            return "{}"
        if k == "comment":
            return "{/* c */}"
        if k == "spread":
            return "{...%s}" % self.r.pick(["list", "x", "f()"])
        if k == "element":
            return self.element(d + 1) if d < self.depth_limit else "<i/>"
        if k == "fragment":
            return "<>%s</>" % ("".join(self.child(d + 1) for _ in range(self.r.below(3))) if d < self.depth_limit else "")
        if k == "fn":
            return "{() => (%s)}" % self.expr(d + 1)
        if k == "objlit":
            return "{{ default: () => 1, foo: fn1 }}"
        if k == "wrapped":
            inner = self.r.pick([self.ident(), "f()", "fn1(x)", "() => 1", "{ default: () => 1 }", "obj.a", "obj.render().b", "slotsObj", "val"])
            return "{%s}" % self.r.pick(["(%s)", "((%s))", "(0, %s)", "(%s)"]) % inner
        if k == "member":
            return "{%s}" % self.r.pick(["obj.a", "obj.render().b", "NS.slots", "list[0]", "obj?.a", "f().g"])
        return ""

    def children(self, d):
        n = self.r.wpick(self.p.get("n_children", [(0, 3), (1, 5), (2, 3), (3, 2), (5, 1)]))
        return [self.child(d) for _ in range(n)]

    def element(self, d=0):
        t = self.tag()
        a = self.attrs(d)
        c = self.children(d)
        self.u("element")
        if not c and self.r.chance(0.6):
            return "<%s%s/>" % (t, "".join(" " + x for x in a))
        return "<%s%s>%s</%s>" % (t, "".join(" " + x for x in a), "".join(c), t)

    # ---------- statements / contexts ----------
    def context(self, jsx, i):
        w = self.p.get("contexts", {"expr-stmt": 4, "const": 4, "fn-body": 2, "arrow-expr": 2, "arrow-block": 1,
                                    "assign": 1, "nested-block": 1, "class-method": 1, "export-default": 1, "loop": 1,
                                    "class-field": 0, "default-param": 0, "destructure": 0, "loop-head": 0, "multi-decl": 0})
        k = self.r.wpick([(a, b) for a, b in w.items() if b > 0])
        self.u("ctx:" + k)
        return {
            "expr-stmt": lambda: "(%s);" % jsx,
            "const": lambda: "const v%d = %s;" % (i, jsx),
            "fn-body": lambda: "function f%d() { const a = 1; return %s; }" % (i, jsx),
            "arrow-expr": lambda: "const r%d = () => %s;" % (i, jsx),
            "arrow-block": lambda: "const r%d = (p) => { return %s; };" % (i, jsx),
            "assign": lambda: "let w%d; w%d = %s;" % (i, i, jsx),
            "nested-block": lambda: "{ if (x) { y = %s; } }" % jsx,
            "class-method": lambda: "class K%d { render() { return %s; } }" % (i, jsx),
            "export-default": lambda: "export default () => %s;" % jsx if not self.p.get("_had_default") and not self.p.__setitem__("_had_default", 1) else "(%s);" % jsx,
            "loop": lambda: "for (const it of list) { out.push(%s); }" % jsx,
            "class-field": lambda: "class K%d { field = %s; }" % (i, jsx),
            "default-param": lambda: "function g%d(a = %s) { return a; }" % (i, jsx),
            # binding patterns (the declarator / parameter is not a plain identifier), JSX in the initializer or in a pattern default
            "destructure": lambda: self.r.pick(["const { da%d = %s } = obj;", "const [db%d] = [%s];", "let { k: [dc%d = %s] = [] } = obj;", "var [, dd%d = 1, ...dr] = f(() => %s);",
                                                "const { de%d, ...dr } = { de: %s };", "const { [x]: df%d = %s } = obj;", "function dg%d({ a = %s }) { return a; }",
                                                "const dh%d = ([a = %s]) => a;"]) % (i, jsx),
            "loop-head": lambda: self.r.pick(["for (const [la%d] of [[%s]]) { out.push(la); }", "for (let { lb%d = %s } of list) { out.push(lb); }",
                                              "for (let lc%d = %s; ;) { break; }", "for (const ld%d in { k: %s }) { out.push(ld); }"]) % (i, jsx),
            "multi-decl": lambda: "const ma%d = 1, { mb = %s } = obj, mc = %s;" % (i, jsx, self.r.pick(["2", "fn1()", "<i/>"])),
        }[k]()

    def module(self):
        self.p.pop("_had_default", None)
        n = self.r.wpick(self.p.get("n_stmts", [(1, 6), (2, 3), (3, 1)]))
        parts = [PRELUDE]
        for i in range(n):
            if self.r.chance(self.p.get("p_distractor", 0.2)):
                self.u("stmt:distractor")
                parts.append(self.r.pick(["val2 = 5;", "function h%d() { return 1; }" % i, "const q%d = () => 2;" % i,
                                          "x = y;", "let t%d = obj.a;" % i]))
            parts.append(self.context(self.element(0), i))
        return "\n".join(parts) + "\n"


def opts_random(r, allow=("transformOn", "optimize", "mergeProps", "enableObjectSlots")):
    o = {}
    for k in allow:
        if r.chance(0.5):
            o[k] = r.chance(0.5)
    return o


def all_bool_opts(keys=("transformOn", "optimize", "mergeProps", "enableObjectSlots")):
    for vals in itertools.product([False, True], repeat=len(keys)):
        yield dict(zip(keys, vals))


# ------------------------------------------------------------------------------------------------------------
# HISTORIES of temporaries: one statement list in which several lowerings need a temporary (`let _slot`) - statements that leave one PENDING for the
# list itself (P) and nested scopes / functions that need temporaries of their own (N), in every order.  `@` is a running number.
# ------------------------------------------------------------------------------------------------------------
TEMP_PENDING = ["const head@ = <Foo>{title@()}</Foo>;", "(<Unk>{obj.render()}</Unk>);", "out.push(<Foo>{g@()}</Foo>, <Bar>{k@()}</Bar>);",
                "let w@; w@ = <Comp a={<Foo>{h@()}</Foo>}>{f()}</Comp>;", "const frag@ = <><Comp>{f()}</Comp>t</>;",
                # a captured COPY (`const _cv = function(){return cv}()`) left pending, not a `let _slot`
                "let cv@ = 1; cv@ = 2; const cap@ = <Comp>{cv@}</Comp>;"]
TEMP_NESTED = ["const rows@ = list.map(item => <Comp>{cell(item)}</Comp>);",                        # concise arrows: callback, plain, scoped-slot function child,
               "const r@ = () => <Foo>{f()}</Foo>;",                                                # v-slots entry, with a temporary in a parameter default, nested,
               "const t@ = <Foo rows={list}>{row => <Comp>{format(row)}</Comp>}</Foo>;",            # async, object property, inside a call argument
               "const u@ = <Foo v-slots={{ cell: (c) => <Comp>{f(c)}</Comp> }}/>;",
               "const d@ = (item, k = <Foo>{g()}</Foo>) => <Comp>{cell(item)}</Comp>;",
               "const n@ = () => () => <Comp>{f()}</Comp>;",
               "const a@ = async (i) => <Comp>{f(i)}</Comp>;",
               "const o@ = { render: (i) => <Comp>{f(i)}</Comp>, m() { return <Foo>{g()}</Foo>; } };",
               "list.forEach(i => out.push(<Comp>{f(i)}</Comp>));",
               "const b@ = (i) => { return <Comp>{f(i)}</Comp>; };",                                # block-bodied arrow, function, block, loop, method (+ default), default only
               "function fn@(i) { return <Comp>{f(i)}</Comp>; }",
               "if (x) { out.push(<Foo>{k()}</Foo>); }",
               "for (const it of list) { out.push(<Foo>{it()}</Foo>); }",
               "class K@ { m(p = <Bar>{g()}</Bar>) { return <Foo>{f(p)}</Foo>; } }",
               "function pd@(p = <Bar>{g()}</Bar>) { return p; }",
               "const id@ = (i) => <Comp>{i}</Comp>;",                                              # a concise arrow that needs no temporary
               # loops WITHOUT braces and class field initialisers: a temporary declared outside them is shared by all iterations / instances
               "for (const it of list) out.push(<Foo>{it()}</Foo>);",
               "let w@ = 0; while (w@++ < 3) out.push(<Foo>{f(w@)}</Foo>);",
               "for (let j = 0; j < 3; j++) out.push(<Foo>{f(j)}</Foo>);",
               "class F@ { v = <Foo>{f()}</Foo>; }"]
TEMP_SCOPES = ["%s", "function scope@() {\n%s\n}", "{\n%s\n}", "const scope@ = () => {\n%s\n};", "class S@ { m() {\n%s\n} }", "for (const e@ of list) {\n%s\n}",
               "export default function () {\n%s\n}"]
TEMP_ARRANGE = ["PN", "NP", "PNP", "PPN", "NPN", "N", "PNNP", "NN"]


def temp_histories(tier, prefix="th"):
    """[{id, src}]: TEMP_PENDING x TEMP_NESTED x TEMP_SCOPES x TEMP_ARRANGE (quick: the slices through the first pending statement in module and
    function scope in full, 1/5 of the rest)"""
    out = []
    n = 0
    for pi, sci, ni, ai in itertools.product(range(len(TEMP_PENDING)), range(len(TEMP_SCOPES)), range(len(TEMP_NESTED)), range(len(TEMP_ARRANGE))):
        n += 1
        if tier == "quick" and not (pi == 0 and sci <= 1) and (pi + sci * 2 + ni * 3 + ai) % 5:
            continue
        if tier == "search" and (pi + sci + ni + ai) % 2:
            continue
        k = [0]
        def inst(t):
            k[0] += 1
            return t.replace("@", str(k[0]))
        ps = [TEMP_PENDING[pi], TEMP_PENDING[(pi + 2) % len(TEMP_PENDING)]]
        ns = [TEMP_NESTED[ni], TEMP_NESTED[(ni * 3 + 5) % len(TEMP_NESTED)]]
        body, np_, nn = [], 0, 0
        for ch in TEMP_ARRANGE[ai]:
            if ch == "P":
                body.append(inst(ps[np_ % 2])); np_ += 1
            else:
                body.append(inst(ns[nn % 2])); nn += 1
        src = PRELUDE + inst(TEMP_SCOPES[sci]).replace("%s", "\n".join(body)) + "\n"
        out.append({"id": "%s%d" % (prefix, n), "src": src})
    return out
