#!/usr/bin/env python3
"""tools/coverage.py [quick|thorough] [Cxx ...]

Measures the REACH of the correspondence: builds the harness (and /repo/visitor, from its current working tree) with
source-based coverage instrumentation (nightly toolchain, -C instrument-coverage, hooks on), pushes every property's
case stream through the REAL visitor, and reports which regions/lines of /repo/visitor/src were never executed by any
stream.  A code change confined to such a line cannot be seen by the differential tie; the report is the measured
version of the "generator quality bounds what it sees" caveat in DESIGN.md section 6.  Writes coverage/REPORT.md and
coverage/visitor_lines.json.  Not a check (no verdict); scratch lives in .cache/cov and is removed afterwards."""
import sys, os, json, subprocess, shutil, glob, collections, time

VERIF = os.path.dirname(os.path.dirname(os.path.abspath(__file__)))
COV = os.path.join(VERIF, ".cache", "cov")
TARGET = os.path.join(VERIF, ".cache", "target-cov")
TOOLBIN = os.path.expanduser("~/.rustup/toolchains/nightly-x86_64-unknown-linux-gnu/lib/rustlib/x86_64-unknown-linux-gnu/bin")
BIN = os.path.join(TARGET, "release", "vjx-harness")


def main():
    args = sys.argv[1:]
    tier = "thorough" if "thorough" in args else "quick"
    pids = [a for a in args if a.startswith("C")]
    shutil.rmtree(COV, ignore_errors=True)
    os.makedirs(COV)
    env = dict(os.environ, CARGO_NET_OFFLINE="true", RUST_BACKTRACE="0", CARGO_TARGET_DIR=TARGET,
               RUSTFLAGS="--cfg vjx_verif -C instrument-coverage",
               LLVM_PROFILE_FILE=os.path.join(COV, "build-%p-%m.profraw"))   # proc-macros / build scripts run instrumented too
    t0 = time.time()
    p = subprocess.run(["cargo", "+nightly", "build", "--release", "--offline", "--quiet"], cwd=os.path.join(VERIF, "harness"),
                       env=env, capture_output=True, text=True)
    if p.returncode != 0:
        print("instrumented build failed:\n" + (p.stdout + p.stderr)[-3000:])
        return 2
    print("instrumented build: %.0fs" % (time.time() - t0))
    for f in glob.glob(os.path.join(COV, "build-*.profraw")):
        os.remove(f)
    os.environ["VJX_HARNESS"] = BIN
    os.environ["LLVM_PROFILE_FILE"] = os.path.join(COV, "p-%p-%m.profraw")
    sys.path.insert(0, os.path.join(VERIF, "tools"))
    import runlib, props
    seed = int(os.environ.get("VERIF_SEED", "20260929"))
    per_prop = {}
    for pid in (pids or sorted(props.PROPS)):
        for f in glob.glob(os.path.join(COV, "*.profraw")):
            os.remove(f)
        unit_cases, run_cases, info = props.PROPS[pid]["cases"](tier, seed)
        if unit_cases:
            runlib.run_harness(unit_cases, mode="unit")
        pairs = info.get("pairs") or []
        extra = []
        for pr in pairs:
            for k in ("a", "b"):
                if isinstance(pr.get(k), dict):
                    extra.append(pr[k])
        if run_cases or extra:
            runlib.run_harness(list(run_cases) + extra, mode="run")
        raws = glob.glob(os.path.join(COV, "*.profraw"))
        prof = os.path.join(COV, pid + ".profdata")
        subprocess.run([os.path.join(TOOLBIN, "llvm-profdata"), "merge", "-sparse", "-o", prof] + raws, check=True)
        per_prop[pid] = (prof, len(unit_cases) + len(run_cases) + len(extra))
        print("%s: %d cases through the instrumented visitor" % (pid, per_prop[pid][1]))
    allprof = os.path.join(COV, "all.profdata")
    subprocess.run([os.path.join(TOOLBIN, "llvm-profdata"), "merge", "-sparse", "-o", allprof] + [v[0] for v in per_prop.values()], check=True)

    def export(prof):
        q = subprocess.run([os.path.join(TOOLBIN, "llvm-cov"), "export", BIN, "-instr-profile=" + prof, "--format=text",
                            "--ignore-filename-regex=(\\.cargo|rustc|/verif/)"], capture_output=True, text=True)
        return json.loads(q.stdout)

    def line_table(data):
        """file -> {line: max count of a code region STARTING on or covering the line} from segments"""
        out = {}
        for f in data["data"][0]["files"]:
            name = f["filename"]
            if "/visitor/src/" not in name:
                continue
            lines = collections.OrderedDict()
            segs = f["segments"]   # [line, col, count, hasCount, isRegionEntry, isGap]
            # walk segments: each segment applies from its position up to the next segment
            for i, s in enumerate(segs):
                line, col, count, has_count, is_entry, is_gap = s[:6]
                if not has_count or is_gap:
                    continue
                end_line = segs[i + 1][0] if i + 1 < len(segs) else line
                end_col = segs[i + 1][1] if i + 1 < len(segs) else col
                last = end_line if end_col > 1 else end_line - 1
                for l in range(line, max(line, last) + 1):
                    lines[l] = max(lines.get(l, 0), count)
            out[name] = (lines, f["summary"])
        return out

    total = line_table(export(allprof))
    by_prop = {pid: line_table(export(prof)) for pid, (prof, _) in per_prop.items()}
    report = ["# Reach of the correspondence: coverage of /repo/visitor/src by the checks' case streams", "",
              "Produced by `tools/coverage.py %s` (instrumented build of the harness + visitor, hooks on; every property's %s-tier" % (tier, tier),
              "stream pushed through the REAL visitor).  A region listed under *never executed* is code that no generated input reaches:",
              "a change confined to it is invisible to the differential tie (the theorems still hold of the model).", ""]
    summary = {}
    out_json = {"tier": tier, "seed": seed, "repo_head": subprocess.check_output(["git", "-C", "/repo", "rev-parse", "--short", "HEAD"]).decode().strip(),
                "cases_per_property": {k: v[1] for k, v in per_prop.items()}, "files": {}}
    report.append("| file | regions covered | lines covered | functions executed |")
    report.append("|---|---|---|---|")
    for name, (lines, summ) in sorted(total.items()):
        short = name.split("/visitor/src/")[1]
        r, l, fn = summ["regions"], summ["lines"], summ["functions"]
        report.append("| %s | %d / %d (%.1f%%) | %d / %d (%.1f%%) | %d / %d |" % (short, r["covered"], r["count"], r["percent"], l["covered"], l["count"], l["percent"], fn["covered"], fn["count"]))
        src = open(name).read().split("\n")
        missed = [l for l, c in lines.items() if c == 0]
        out_json["files"][short] = {"summary": {"regions": r, "lines": l, "functions": fn}, "never_executed_lines": missed,
                                     "lines_hit_by": {}}
        summary[short] = (missed, src)
    report.append("")
    report.append("## Never executed (all streams together)")
    for short, (missed, src) in sorted(summary.items()):
        if not missed:
            continue
        report.append("")
        report.append("### %s" % short)
        report.append("```")
        # group consecutive lines
        grp = []
        for l in missed:
            if grp and l == grp[-1][-1] + 1:
                grp[-1].append(l)
            else:
                grp.append([l])
        for g in grp:
            for l in g:
                if 0 < l <= len(src):
                    report.append("%5d  %s" % (l, src[l - 1]))
            report.append("  ...")
        report.append("```")
    report.append("")
    report.append("## Lines executed by exactly one property's stream (single point of detection)")
    single = collections.Counter()
    for short in summary:
        name = [n for n in total if n.endswith("/visitor/src/" + short)][0]
        for l, c in total[name][0].items():
            if c == 0:
                continue
            hit = [pid for pid, t in by_prop.items() if name in t and t[name][0].get(l, 0) > 0]
            if len(hit) == 1:
                single[(short, hit[0])] += 1
                out_json["files"][short]["lines_hit_by"].setdefault(hit[0], []).append(l)
    for (short, pid), n in sorted(single.items()):
        report.append("- %s: %d lines only reached by %s's stream" % (short, n, pid))
    os.makedirs(os.path.join(VERIF, "coverage"), exist_ok=True)
    open(os.path.join(VERIF, "coverage", "REPORT.md"), "w").write("\n".join(report) + "\n")
    json.dump(out_json, open(os.path.join(VERIF, "coverage", "visitor_lines.json"), "w"), indent=1)
    shutil.rmtree(COV, ignore_errors=True)
    print("wrote coverage/REPORT.md")
    return 0


if __name__ == "__main__":
    sys.exit(main())
