#!/usr/bin/env python3
"""tools/par_seeds.py [-j N] [seed-dir ...]

Parallel regression of the seeded changes: N workers, each with its OWN scratch worktree of /repo (under /tmp/rg-<pid>, removed at
the end), its own copy of the harness crate pointing at that worktree and its own cargo target directory, so that /repo itself is
never touched.  For every seed: apply the patch in the worker's worktree, build the worker's harness, run the property's quick
check against THAT binary (VJX_HARNESS / VJX_SKIP_BUILD; evidence and replays go to the worker's scratch directory), revert.
Prints one line per seed - CAUGHT (a VIOLATION with a failing input), WEAK (only no-failing-input-found), MISSED - and, when run
over all seeds, writes seeded/REGRESSION.txt.  The registered checks never use this path: they rebuild from /repo's working tree."""
import sys, os, subprocess, shutil, glob, re, threading, queue, time

VERIF = os.path.dirname(os.path.dirname(os.path.abspath(__file__)))
ROOT = "/tmp/rg-%d" % os.getpid()      # one scratch root per invocation: concurrent runs do not disturb each other


def sh(cmd, cwd=None, env=None, timeout=None):
    e = dict(os.environ)
    if env:
        e.update(env)
    p = subprocess.run(cmd, cwd=cwd, env=e, capture_output=True, text=True, timeout=timeout)
    return p.returncode, p.stdout + p.stderr


def setup_worker(k):
    wt, hd, td = "%s/w%d" % (ROOT, k), "%s/h%d" % (ROOT, k), "%s/t%d" % (ROOT, k)
    sh(["git", "-C", "/repo", "worktree", "remove", "--force", wt])
    rc, out = sh(["git", "-C", "/repo", "worktree", "add", "-q", "--detach", wt, "HEAD"])
    assert rc == 0, out
    shutil.rmtree(hd, ignore_errors=True)
    shutil.copytree(os.path.join(VERIF, "harness"), hd)
    ct = open(hd + "/Cargo.toml").read().replace('path = "/repo/visitor"', 'path = "%s/visitor"' % wt)
    open(hd + "/Cargo.toml", "w").write(ct)
    cfg = open(hd + "/.cargo/config.toml").read().replace('target-dir = "/verif/.cache/target"', 'target-dir = "%s"' % td)
    open(hd + "/.cargo/config.toml", "w").write(cfg)
    if not os.path.isdir(td):
        shutil.copytree(os.path.join(VERIF, ".cache", "target"), td, symlinks=True)
    return wt, hd, td


def run_seed(k, wt, hd, td, d):
    sid = os.path.basename(d.rstrip("/"))
    clean = sid.startswith("CLEAN-")          # pseudo seed `CLEAN-Cxx`: the property's check against the UNCHANGED HEAD, in the scratch worktree
    prop = sid[6:9] if clean else sid[:3]
    props = [prop]
    if not clean:
        try:
            import json as _json
            props = _json.load(open(os.path.join(d, "meta.json"))).get("checks") or [prop]     # a seed may name the checks that decide it
        except Exception:
            pass
        patch = os.path.abspath(os.path.join(d, "patch.diff"))
        rc, out = sh(["git", "-C", wt, "apply", patch])
        if rc != 0:
            rc, out = sh(["git", "-C", wt, "apply", "--3way", patch])
            conflict = rc != 0 or "<<<<<<<" in sh(["git", "-C", wt, "diff"])[1]
            if conflict:
                # leave the worker's tree clean for the next seed
                sh(["git", "-C", wt, "reset", "-q", "--hard", "HEAD"])
                sh(["git", "-C", wt, "clean", "-fdq"])
                return sid, "PATCH DOES NOT APPLY", ""
    try:
        rc, out = sh(["cargo", "build", "--release", "--offline", "--quiet"], cwd=hd, env={"CARGO_NET_OFFLINE": "true"}, timeout=3000)
        if rc != 0:
            return sid, "BUILD FAILED", out[-300:]
        env = {"VJX_HARNESS": td + "/release/vjx-harness", "VJX_SKIP_BUILD": "1", "VJX_EVIDENCE_DIR": "%s/e%d" % (ROOT, k),
               "VJX_REPLAY_DIR": "%s/r%d" % (ROOT, k)}
        out = ""
        for pr in props:
            rc, o1 = sh([os.path.join(VERIF, "check"), pr], cwd=VERIF, env=env, timeout=7200)
            out += o1
        vio = [l for l in out.splitlines() if l.startswith("VIOLATION")]
        hard = [l for l in vio if "no-failing-input-found" not in l]
        if clean:
            summ = [l for l in out.splitlines() if l.startswith(prop + " ")]
            return sid, ("ALARM ON THE UNCHANGED TREE " + " | ".join(vio)) if vio else "clean", (summ[-1] if summ else out[-200:])
        if hard:
            return sid, "CAUGHT", re.sub(r".*replay=\S*/", "", hard[0])
        if vio:
            return sid, "WEAK (no-failing-input-found)", ""
        if "check machinery error" in out:
            return sid, "MACHINERY ERROR", out[-300:]
        return sid, "MISSED", ""
    finally:
        sh(["git", "-C", wt, "reset", "-q", "--hard", "HEAD"])
        sh(["git", "-C", wt, "clean", "-fdq"])


def main():
    args = sys.argv[1:]
    n = 6
    if "-j" in args:
        i = args.index("-j"); n = int(args[i + 1]); del args[i:i + 2]
    seeds = args or sorted(glob.glob(os.path.join(VERIF, "seeded", "C*")))
    seeds = [s for s in seeds if os.path.isfile(os.path.join(s, "patch.diff")) or os.path.basename(s.rstrip("/")).startswith("CLEAN-")]
    os.makedirs(ROOT, exist_ok=True)
    # the Lean side is built once, up front (the checks only find it up to date afterwards)
    sh(["lake", "build"], cwd=os.path.join(VERIF, "lean", "VueJsx"))
    q = queue.Queue()
    for s in seeds:
        q.put(s)
    results, lock = {}, threading.Lock()

    def worker(k):
        wt, hd, td = setup_worker(k)
        while True:
            try:
                d = q.get_nowait()
            except queue.Empty:
                break
            t0 = time.time()
            try:
                sid, verdict, extra = run_seed(k, wt, hd, td, d)
            except Exception as e:  # noqa
                sid, verdict, extra = os.path.basename(d.rstrip("/")), "RUNNER ERROR", repr(e)[:200]
            with lock:
                results[sid] = (verdict, extra)
                print("%s: %s %s  [%.0fs]" % (sid, verdict, extra, time.time() - t0), flush=True)
        sh(["git", "-C", "/repo", "worktree", "remove", "--force", wt])

    ts = [threading.Thread(target=worker, args=(k,)) for k in range(min(n, len(seeds)))]
    for t in ts:
        t.start()
    for t in ts:
        t.join()
    sh(["git", "-C", "/repo", "worktree", "prune"])
    shutil.rmtree(ROOT, ignore_errors=True)
    head = subprocess.check_output(["git", "-C", "/repo", "rev-parse", "--short", "HEAD"]).decode().strip()
    vhead = subprocess.check_output(["git", "-C", VERIF, "rev-parse", "--short", "HEAD"]).decode().strip()
    if not args:
        with open(os.path.join(VERIF, "seeded", "REGRESSION.txt"), "w") as f:
            for sid in sorted(results):
                f.write("%s: %s %s\n" % (sid, results[sid][0], results[sid][1]))
            f.write("# tools/par_seeds.py on /repo HEAD %s, /verif %s (+ working tree): each seeded change applied in a scratch worktree, the harness "
                    "built against it, the quick check of its property run against that binary\n" % (head, vhead))
    bad = [s for s, v in results.items() if v[0] not in ("CAUGHT", "clean")]
    print("%d seeds, %d CAUGHT, not caught: %s" % (len(results), len(results) - len(bad), sorted(bad)))
    return 0


if __name__ == "__main__":
    sys.exit(main())
