#!/usr/bin/env python3
"""Generators of TSX modules around `defineComponent` (resolveType): call shapes and binding provenance (C20),
prop-map encodings (C16), type-expression grammar (C17), default objects (C18), emits encodings (C19)."""
import itertools, collections


# ------------------------------------------------------------------------------------------------ C20
PROVENANCE = {
    "vue-named": "import { defineComponent } from 'vue';\n",
    "vue-aliased": "import { defineComponent as dc } from 'vue';\nconst defineComponent = dc;\n",
    "vue-namespace": "import * as Vue from 'vue';\nconst defineComponent = Vue.defineComponent;\n",
    "other-module": "import { defineComponent } from './my-vue';\n",
    "local-function": "function defineComponent(a: any, b?: any) { return a; }\n",
    "global": "",
    "vue-named+shadow": "import { defineComponent } from 'vue';\n",
    # Vue's defineComponent imported under ANOTHER local name, next to a different module-level binding that is spelled defineComponent
    "vue-aliased+other-module": "import { defineComponent as vueDefineComponent } from 'vue';\nimport { defineComponent } from './my-components';\n",
    "vue-aliased+local-fn": "import { defineComponent as _dc } from 'vue';\nexport function defineComponent(setup: any, options?: any) { return _dc(setup, { inheritAttrs: false, ...options }); }\n",
    "vue-aliased+default-import": "import defineComponent from './define';\nimport { h, defineComponent as DC } from 'vue';\n",
    "vue-aliased+local-class": "import { defineComponent as mk } from 'vue';\nconst defineComponent = (s: any, o?: any) => mk(s, o);\n",
    "other-module+vue-aliased-later": "import { defineComponent } from './my-components';\nimport { ref, defineComponent as vdc } from 'vue';\n",
    # the same export under spellings of the specifier that keep the local name
    "vue-self-alias": "import { defineComponent as defineComponent } from 'vue';\n",
    "vue-string-name": "import { \"defineComponent\" as defineComponent } from 'vue';\n",
    "vue-other-export-as": "import { h as defineComponent } from 'vue';\n",
}
SETUPS = {
    "typed": "(props: { a: string, b?: number }) => {}",
    "typed-emits": "(props: { a: string }, ctx: SetupContext<{ (e: 'x'): void }>) => {}",
    "untyped": "(props) => {}",
    "fn-expr": "function (props: { a: string }) {}",
    "non-function": "someObject",
    "object": "{ setup() {} }",
}
OPTIONS = ["", ", {}", ", { props: userProps }", ", { emits: ['u'] }", ", { name: 'UserName' }", ", { 'props': userProps }", ", { props }",
           ", { props() { return {} } }", ", { ['name']: 'UserName' }", ", { ...opts }", ", { ...opts, inheritAttrs: false }",
           ", { inheritAttrs: false, ...opts }", ", { ...a, ...b }", ", opts", ", makeOpts()", ", ...rest", ", { props: userProps, emits: [], name: 'N' }",
           ", { get name() { return 'G' } }", ", { name }", ", cond ? a : b",
           # the options expression behind a syntactic wrapper
           ", { name: 'UserName' } as any", ", ({ props: userProps })", ", { emits: ['u'] } as const", ", { name: 'UserName', props: userProps } satisfies object",
           ", ({ ...opts, name: 'N' } as any)", ", opts as any", ", ({ inheritAttrs: false })", ", { props: userProps }!", ", (opts)", ", {} as any"]
DECLS = ["const C = CALL;", "let C = CALL;", "var C = CALL;", "export const C = CALL;", "export default CALL;", "let C; C = CALL;", "CALL;",
         "const { x } = CALL;", "const C = wrap(CALL);", "const C: Component = CALL;"]


def c20_module(prov, setup, options, decl, spread_first=False, member=False):
    head = PROVENANCE[prov]
    if "SetupContext" in SETUPS[setup]:
        head = "import type { SetupContext } from 'vue';\n" + head
    callee = "Vue.defineComponent" if member else "defineComponent"
    if member:
        head = "import * as Vue from 'vue';\n" + head.replace("import * as Vue from 'vue';\n", "")
    first = "...args" if spread_first else SETUPS[setup]
    call = "%s(%s%s)" % (callee, first, options)
    body = decl.replace("CALL", call)
    if prov == "vue-named+shadow":
        body = "function scope(defineComponent: any) {\n  %s\n}\n" % body.replace("export ", "")
    pre = "const userProps = {}, props = {}, name = 'S', opts = {}, a = {}, b = {}, rest = [], args = [], cond = true;\n"
    return head + pre + body + "\n"


def c20_products(tier):
    out = []
    for prov, setup, opt, decl in itertools.product(PROVENANCE, SETUPS, OPTIONS, DECLS):
        key = (len(out) * 7919) % 97
        full = tier == "thorough"
        # always keep the main diagonal: every provenance x options, every options x decls for the vue import
        keep = (setup == "typed" and decl == DECLS[0]) or (prov == "vue-named" and setup in ("typed", "typed-emits")) \
            or (prov == "vue-named" and decl == DECLS[0]) or full or key < 6
        if keep:
            out.append(("p:%s|%s|%d|%d" % (prov, setup, OPTIONS.index(opt), DECLS.index(decl)), c20_module(prov, setup, opt, decl)))
    for opt in OPTIONS:
        out.append(("spread-first|%d" % OPTIONS.index(opt), c20_module("vue-named", "typed", opt, DECLS[0], spread_first=True)))
        out.append(("member|%d" % OPTIONS.index(opt), c20_module("vue-named", "typed", opt, DECLS[0], member=True)))
    return out


# ------------------------------------------------------------------------------------------------ prop maps / encodings (C16)
class Prop:
    def __init__(self, name, kind="prop", optional=False, ty="string"):
        self.name, self.kind, self.optional, self.ty = name, kind, optional, ty

    def key(self):
        n = self.name
        return n if n.replace("_", "a").isalnum() and not n[0].isdigit() and not getattr(self, "quoted", False) else "'%s'" % n

    def sig(self, optional=None):
        opt = self.optional if optional is None else optional
        q = "?" if opt else ""
        if self.kind == "method":
            return "%s%s(): void" % (self.key(), q)
        if self.kind == "getter":
            return "get %s(): %s" % (self.key(), self.ty)
        return "%s%s: %s" % (self.key(), q, self.ty)


NAMES = ["foo", "bar", "baz", "qux", "a-b", "x:y", "camelCase", "v", "title", "on-click"]
SIMPLE_TYPES = ["string", "number", "boolean", "string[]", "() => void", "{ n: number }", "Date", "'a' | 'b'", "any", "null | string"]


class TypeGen:
    def __init__(self, r):
        self.r = r
        self.decls_before = []   # declarations placed before the call
        self.decls_after = []    # ... after it
        self.counter = 0
        self.used = collections.Counter()

    def fresh(self, base):
        self.counter += 1
        return "%s%d" % (base, self.counter)

    def place(self, decl, allow_after=True):
        if allow_after and self.r.chance(0.25):
            self.used["decl:after-call"] += 1
            self.decls_after.append(decl)
        else:
            self.decls_before.append(decl)

    def random_map(self, n=None):
        n = n if n is not None else 1 + self.r.below(4)
        names = list(NAMES)
        out = []
        for _ in range(n):
            nm = names.pop(self.r.below(len(names)))
            p = Prop(nm, self.r.wpick([("prop", 7), ("method", 2), ("getter", 1)]), self.r.chance(0.4), self.r.pick(SIMPLE_TYPES))
            if p.kind == "getter":
                p.optional = False
            p.quoted = self.r.chance(0.15)
            out.append(p)
        return out

    def literal(self, props):
        return "{ " + "; ".join(p.sig() for p in props) + " }"

    def encode(self, props, depth=0, allow_after=True):
        """a type expression denoting exactly the prop map `props`"""
        r = self.r
        choices = [("literal", 4)]
        if depth < 3:
            choices += [("alias", 3), ("interface", 3), ("paren", 1)]
            if len(props) >= 2:
                choices += [("intersection", 3), ("iface-merge", 2), ("iface-extends", 2), ("iface-merge-extends", 2), ("iface-extends-util", 2)]
            # (getters included: under Partial the property a getter signature declares is optional too - the oracle reads the type as written)
            if props and all(p.optional for p in props if p.kind != "getter"):
                choices += [("Partial", 3)]
            if props and all(not p.optional for p in props):
                choices += [("Required", 3)]
            choices += [("Pick", 2), ("Omit", 2), ("indexed", 2), ("exported", 1), ("scoped", 1)]
            if len(props) >= 2:
                choices += [("reuse", 3)]
        k = r.wpick(choices)
        self.used["enc:" + k] += 1
        if k == "reuse":
            return self.encode_reuse(props, depth, allow_after)
        if k == "literal":
            return self.literal(props)
        if k == "paren":
            if r.chance(0.2):
                return "Omit<%s, never>" % self.encode(props, depth + 1, allow_after)      # omit nothing
            return "(%s)" % self.encode(props, depth + 1, allow_after)
        if k in ("alias", "exported"):
            n = self.fresh("A")
            self.place("%stype %s = %s;" % ("export " if k == "exported" else "", n, self.encode(props, depth + 1, allow_after)), allow_after)
            return n
        if k == "interface":
            n = self.fresh("I")
            self.place("interface %s { %s }" % (n, "; ".join(p.sig() for p in props)), allow_after)
            return n
        if k == "iface-merge":
            n = self.fresh("M")
            cut = 1 + r.below(len(props) - 1)
            self.place("interface %s { %s }" % (n, "; ".join(p.sig() for p in props[:cut])), allow_after)
            self.place("interface %s { %s }" % (n, "; ".join(p.sig() for p in props[cut:])), allow_after)
            return n
        if k == "iface-extends":
            n, b = self.fresh("E"), self.fresh("B")
            cut = 1 + r.below(len(props) - 1)
            self.place("interface %s { %s }" % (b, "; ".join(p.sig() for p in props[cut:])), allow_after)
            self.place("interface %s extends %s { %s }" % (n, b, "; ".join(p.sig() for p in props[:cut])), allow_after)
            return n
        if k == "iface-merge-extends":
            # declaration merging: a LATER declaration of the interface brings the `extends` clause (or each brings one)
            n, b = self.fresh("ME"), self.fresh("B")
            cut = 1 + r.below(len(props) - 1)
            own, c2 = props[:cut], r.below(cut + 1)
            sig = lambda ps: "; ".join(p.sig() for p in ps)
            if r.chance(0.3) and len(props) - cut >= 2:
                # two bases, one per declaration
                b2, c3 = self.fresh("B"), cut + 1 + r.below(len(props) - cut - 1)
                self.place("interface %s { %s }" % (b, sig(props[cut:c3])), allow_after)
                self.place("interface %s { %s }" % (b2, sig(props[c3:])), allow_after)
                self.place("interface %s extends %s { %s }" % (n, b, sig(own[:c2])), allow_after)
                self.place("interface %s extends %s { %s }" % (n, b2, sig(own[c2:])), allow_after)
            else:
                self.place("interface %s { %s }" % (b, sig(props[cut:])), allow_after)
                self.place("interface %s { %s }" % (n, sig(own[:c2])), allow_after)
                self.place("interface %s extends %s { %s }" % (n, b, sig(own[c2:])), allow_after)
            return n
        if k == "iface-extends-util":
            # the parent written with type arguments: `extends Pick<B, ..>`, `extends Omit<B, ..>`, `extends Partial<B>`, `extends Required<B>`
            n, b = self.fresh("EU"), self.fresh("B")
            cut = 1 + r.below(len(props) - 1)
            own, base = props[:cut], props[cut:]
            forms = ["Pick", "Omit"]
            if all(p.optional or p.kind == "getter" for p in base):
                forms.append("Partial")
            if all(not p.optional for p in base):
                forms.append("Required")
            f = r.pick(forms)
            if f in ("Pick", "Omit"):
                extra_names = [x for x in NAMES if x not in [p.name for p in props]][:1 + r.below(2)]
                extra = [Prop(x, "prop", r.chance(0.5), "number") for x in extra_names]
                self.place("interface %s { %s }" % (b, "; ".join(p.sig() for p in (base + extra))), allow_after)
                keys = [p.name for p in (base if f == "Pick" else extra)]
                parent = "%s<%s, %s>" % (f, b, " | ".join("'%s'" % x for x in keys) if keys else "never")
            else:
                inner = [Prop(p.name, p.kind, r.chance(0.5) and p.kind != "getter", p.ty) for p in base]
                for a, bb in zip(inner, base):
                    a.quoted = getattr(bb, "quoted", False)
                self.place("interface %s { %s }" % (b, "; ".join(p.sig() for p in inner)), allow_after)
                parent = "%s<%s>" % (f, b)
            self.place("interface %s extends %s { %s }" % (n, parent, "; ".join(p.sig() for p in own)), allow_after)
            return n
        if k == "intersection":
            cut = 1 + r.below(len(props) - 1)
            return "%s & %s" % (self.encode(props[:cut], depth + 1, allow_after), self.encode(props[cut:], depth + 1, allow_after))
        if k == "Partial":
            inner = [Prop(p.name, p.kind, r.chance(0.5), p.ty) for p in props]
            for a, b in zip(inner, props):
                a.quoted = getattr(b, "quoted", False)
            return "Partial<%s>" % self.encode(inner, depth + 1, allow_after)
        if k == "Required":
            inner = [Prop(p.name, p.kind, r.chance(0.5) and p.kind != "getter", p.ty) for p in props]
            for a, b in zip(inner, props):
                a.quoted = getattr(b, "quoted", False)
            return "Required<%s>" % self.encode(inner, depth + 1, allow_after)
        if k in ("Pick", "Omit"):
            extra_names = [n for n in NAMES if n not in [p.name for p in props]][:1 + r.below(2)]
            extra = [Prop(n, "prop", r.chance(0.5), "number") for n in extra_names]
            allp = props + extra
            if r.chance(0.5):
                allp = extra + props
            keys = [p.name for p in (props if k == "Pick" else extra)]
            ku = " | ".join("'%s'" % x for x in keys) if keys else "never"
            if r.chance(0.1):
                ku += " | never"       # `never` adds no key
            if r.chance(0.3) and keys:
                kn = self.fresh("K")
                self.place("type %s = %s;" % (kn, ku), allow_after)
                ku = kn
            return "%s<%s, %s>" % (k, self.encode(allp, depth + 1, allow_after), ku)
        if k == "indexed":
            holder = self.fresh("H")
            inner = self.encode(props, depth + 1, allow_after)
            form = r.below(4)
            if form == 0:
                self.place("type %s = { k: %s, other: string };" % (holder, inner), allow_after)
            elif form == 1:
                self.place("interface %s { k: %s; other: string }" % (holder, inner), allow_after)
            elif form == 3:
                # the indexed member is INHERITED
                base = self.fresh("HB")
                self.place("interface %s { k: %s; other: string }" % (base, inner), allow_after)
                self.place("interface %s extends %s { own: number }" % (holder, base), allow_after)
                if r.chance(0.4):
                    # ... and the indexed object is composed (intersection / utility wrapper / parentheses)
                    return r.pick(["(%s & { zz: 1 })['k']", "Required<%s>['k']", "(%s)['k']", "Pick<%s, 'k'>['k']"]) % holder
            else:
                return "{ k: %s, other: string }['k']" % inner
            if r.chance(0.2):
                return "%s[('k')]" % holder        # a parenthesised index type is the same index
            return "%s['k']" % holder
        if k == "scoped":
            # handled by the caller through `scope` wrapping; fall back to alias
            n = self.fresh("S")
            self.place("type %s = %s;" % (n, self.literal(props)), allow_after)
            return n
        return self.literal(props)


def _keys_union(names):
    return " | ".join("'%s'" % x for x in names) if names else "never"


def _encode_reuse(self, props, depth, allow_after):
    """ONE declaration (an interface with `extends`, an extends chain, sibling interfaces sharing a base, a merged interface, an alias)
    reached SEVERAL times in one annotation, each time through a different view (Pick / Omit, optionally under Partial / Required /
    parentheses / an alias); the views partition the wanted prop map"""
    r = self.r
    extra_names = [n for n in NAMES if n not in [p.name for p in props]][:r.below(3)]
    # split the wanted map into 2 or 3 parts
    nparts = 2 if len(props) < 3 or r.chance(0.6) else 3
    cuts = sorted(set([1 + r.below(len(props) - 1) for _ in range(nparts - 1)]))
    parts = [props[a:b] for a, b in zip([0] + cuts, cuts + [len(props)])]
    wrappers, dprops = [], []
    for part in parts:
        w = "none"
        if all(p.optional or p.kind == "getter" for p in part) and r.chance(0.6):
            w = "Partial"
        elif all(not p.optional for p in part) and r.chance(0.6):
            w = "Required"
        wrappers.append(w)
        for p in part:
            q = Prop(p.name, p.kind, p.optional if w == "none" else (r.chance(0.5) and p.kind != "getter"), p.ty)
            q.quoted = getattr(p, "quoted", False)
            dprops.append(q)
    dprops += [Prop(n, "prop", r.chance(0.5), "number") for n in extra_names]
    if r.chance(0.5):
        dprops = dprops[::-1]
    sig = lambda ps: "; ".join(p.sig() for p in ps)
    form = r.wpick([("iface-extends", 4), ("extends-chain", 2), ("siblings", 3), ("interface", 1), ("alias-literal", 1), ("merged", 1), ("alias-of-extends", 1),
                    ("extends-two", 1)])
    self.used["reuse:" + form] += 1
    cut = r.below(len(dprops) + 1) if len(dprops) > 1 else 0
    names = []
    if form in ("iface-extends", "alias-of-extends"):
        n, b = self.fresh("RE"), self.fresh("RB")
        self.place("interface %s { %s }" % (b, sig(dprops[cut:])), allow_after)
        self.place("interface %s extends %s { %s }" % (n, b, sig(dprops[:cut])), allow_after)
        if form == "alias-of-extends":
            a = self.fresh("RA")
            self.place("type %s = %s;" % (a, n), allow_after)
            n = a
        names = [n]
    elif form == "extends-chain":
        n, m, b = self.fresh("RE"), self.fresh("RM"), self.fresh("RB")
        c2 = r.below(cut + 1)
        self.place("interface %s { %s }" % (b, sig(dprops[cut:])), allow_after)
        self.place("interface %s extends %s { %s }" % (m, b, sig(dprops[c2:cut])), allow_after)
        self.place("interface %s extends %s { %s }" % (n, m, sig(dprops[:c2])), allow_after)
        names = [n] if r.chance(0.5) else [n, n, m] if not dprops[:c2] else [n]
    elif form == "siblings":
        l, rr, b = self.fresh("RL"), self.fresh("RR"), self.fresh("RB")
        self.place("interface %s { %s }" % (b, sig(dprops[cut:])), allow_after)
        self.place("interface %s extends %s { %s }" % (l, b, sig(dprops[:cut])), allow_after)
        self.place("interface %s extends %s { %s }" % (rr, b, sig(dprops[:cut])), allow_after)
        names = [l, rr]
    elif form == "extends-two":
        n, b1, b2 = self.fresh("RE"), self.fresh("RB"), self.fresh("RC")
        c2 = r.below(cut + 1)
        self.place("interface %s { %s }" % (b1, sig(dprops[cut:])), allow_after)
        self.place("interface %s { %s }" % (b2, sig(dprops[c2:cut])), allow_after)
        self.place("interface %s extends %s, %s { %s }" % (n, b1, b2, sig(dprops[:c2])), allow_after)
        names = [n]
    elif form == "interface":
        n = self.fresh("RI")
        self.place("interface %s { %s }" % (n, sig(dprops)), allow_after)
        names = [n]
    elif form == "merged":
        n = self.fresh("RM")
        self.place("interface %s { %s }" % (n, sig(dprops[:cut])), allow_after)
        self.place("interface %s { %s }" % (n, sig(dprops[cut:])), allow_after)
        names = [n]
    else:
        n = self.fresh("RA")
        self.place("type %s = { %s };" % (n, sig(dprops)), allow_after)
        names = [n]
    views = []
    alln = [p.name for p in dprops]
    for i, (part, w) in enumerate(zip(parts, wrappers)):
        nm = names[i % len(names)]
        keys = [p.name for p in part]
        if r.chance(0.5):
            v = "Pick<%s, %s>" % (nm, _keys_union(keys))
        else:
            v = "Omit<%s, %s>" % (nm, _keys_union([x for x in alln if x not in keys]))
        if w != "none":
            v = "%s<%s>" % (w, v)
        k2 = r.below(6)
        if k2 == 0:
            v = "(%s)" % v
        elif k2 == 1:
            a = self.fresh("RV")
            self.place("type %s = %s;" % (a, v), allow_after)
            v = a
        views.append(v)
    if r.chance(0.5):
        views = views[::-1]
    return " & ".join(views)


TypeGen.encode_reuse = _encode_reuse


def wrap_module(tg, call_stmt, imports="import { defineComponent } from 'vue';\nimport type { SetupContext } from 'vue';\n", scope=None):
    before = "\n".join(tg.decls_before)
    after = "\n".join(tg.decls_after)
    if scope not in (None, "namespace"):
        before, after = before.replace("export type", "type").replace("export interface", "interface"), after.replace("export type", "type").replace("export interface", "interface")
    body = before + "\n" + call_stmt + "\n" + after + "\n"
    if scope == "function":
        body = "type A1 = { shadowedOuter: boolean };\nfunction scope() {\n" + body + "}\n"
    elif scope == "block":
        body = "{\n" + body + "}\n"
    elif scope == "arrow":
        body = "const create = () => {\n" + body + "};\n"
    elif scope == "fnexpr":
        body = "const create = function () {\n" + body + "};\n"
    elif scope == "iife":
        body = "(() => {\n" + body + "})();\n(function () { type A1 = { inIife: 1 }; })();\n"
    elif scope == "callback":
        body = "describe('x', () => {\n" + body + "});\n"
    elif scope == "class-method":
        body = "class Host { m() {\n" + body + "} static s = () => { type A1 = { inStatic: 1 }; }; }\n"
    elif scope == "class-expr":
        body = "const K = class { m() {\n" + body + "} };\n"
    elif scope == "object-method":
        body = "const o = { m() {\n" + body + "}, p: () => {\n type A1 = { inProp: 1 };\n} };\n"
    elif scope == "default-param":
        body = "function withDefault(cb = () => {\n" + body + "}) {}\n"
    elif scope == "namespace":
        body = "namespace NS {\n" + body + "}\n"
    return imports + "const userProps = {}, dflt = {}, k = 'foo', fn1 = () => 1;\n" + body


SCOPES = [(None, 8), ("function", 2), ("block", 1), ("arrow", 1), ("fnexpr", 1), ("iife", 1), ("callback", 1), ("class-method", 1), ("class-expr", 1),
          ("object-method", 1), ("default-param", 1), ("namespace", 1)]


# ------------------------------------------------------------------------------------------------ C17 type expressions
ATOMS = ["string", "number", "boolean", "object", "bigint", "symbol", "null", "undefined", "any", "unknown", "void", "never",
         "'lit'", "`tpl`", "1", "1n", "true", "false", "() => void", "new () => Date", "string[]", "Array<number>", "[string, number]",
         "readonly string[]", "{ a: 1 }", "{ (): void }", "{ new (): Date }", "{}", "Date", "Map<string, number>", "Set<string>", "WeakMap<object, string>",
         "WeakSet<object>", "Promise<string>", "RegExp", "Error", "Function", "Object", "Foo", "Record<string, number>", "Partial<{ a: 1 }>",
         "Readonly<{ a: 1 }>", "Uppercase<'a'>", "Parameters<typeof fn1>", "InstanceType<typeof Date>",
         "Lowercase<'A'>", "Capitalize<'a'>", "Uncapitalize<'A'>", "ConstructorParameters<typeof Foo>", "Required<{ a?: 1 }>", "Pick<{ a: 1 }, 'a'>",
         "Omit<{ a: 1; b: 2 }, 'a'>", "OmitThisParameter<() => void>", "Exclude<'a' | 1, 1>", "Extract<'a' | 1, string>", "NonNullable<string | null>",
         "Array<string>[]", "Set<Date>", "(() => void)[]", "[...string[]]", "Function[]", "-1", "false | null"]


class ExprGen:
    def __init__(self, r, tg):
        self.r, self.tg = r, tg

    def expr(self, d=0):
        r = self.r
        ch = [("atom", 6)]
        if d < 3:
            ch += [("union", 4), ("alias", 2), ("paren", 1), ("nonnull", 1), ("exclude", 1), ("extract", 1), ("index-array", 1), ("index-tuple", 1),
                   ("index-prop", 1), ("index-member", 2), ("intersection", 1), ("iface", 2), ("objlit", 2), ("index-unresolvable", 1), ("bool-string", 2)]
        k = r.wpick(ch)
        self.tg.used["ty:" + k] += 1
        if k == "atom":
            return r.pick(ATOMS)
        if k == "union":
            return " | ".join(self.expr(d + 1) for _ in range(2 + r.below(2)))
        if k == "intersection":
            return "%s & %s" % (self.expr(d + 1), self.expr(d + 1))
        if k == "paren":
            return "(%s)" % self.expr(d + 1)
        if k == "alias":
            n = self.tg.fresh("T")
            self.tg.place("type %s = %s;" % (n, self.expr(d + 1)))
            return n
        if k == "iface":
            n = self.tg.fresh("J")
            self.tg.place("interface %s { %s }" % (n, r.pick(["a: 1", "(): void", "new (): Date", "a: 1; (): void", "", "[k: string]: number"])))
            if r.chance(0.4):
                # an interface whose members (all or some) are inherited
                m = self.tg.fresh("J")
                self.tg.place("interface %s extends %s { %s }" % (m, n, r.pick(["", "", "b: 2", "(): void"])))
                return m
            return n
        if k == "objlit":
            return r.pick(["{}", "{ a: 1 }", "{ (): void }", "{ a?: string; b: number }", "{ new (): Date }", "{ [k: string]: number }"])
        if k == "nonnull":
            return "NonNullable<%s>" % self.expr(d + 1)
        if k == "exclude":
            return "Exclude<%s, null>" % self.expr(d + 1)
        if k == "extract":
            return "Extract<%s, %s>" % (self.expr(d + 1), self.expr(d + 1))
        if k == "index-array":
            return "(%s)[]%s" % (self.expr(d + 1), r.pick(["[number]", "[0]"]))
        if k == "index-tuple":
            if r.chance(0.3):
                # a rest element: `[A, ...B[]][1]` is B, `[A, ...B[]][number]` is A | B
                return "[%s, ...(%s)[]]%s" % (self.expr(d + 1), self.expr(d + 1), r.pick(["[0]", "[1]", "[number]"]))
            return "[%s, %s]%s" % (self.expr(d + 1), self.expr(d + 1), r.pick(["[0]", "[1]", "[number]"]))
        if k == "bool-string":
            # Vue's boolean casting depends on the ORDER of Boolean and String in `type`: both orders, with other members and a nullish member in
            # front / between / behind, bare and under NonNullable / Exclude / parentheses / an alias
            ms = r.pick([["boolean", "string"], ["string", "boolean"]]) + r.pick([[], ["number"], ["Date"], ["'lit'"]])
            if r.chance(0.5):
                ms.insert(r.below(len(ms) + 1), r.pick(["null", "undefined", "void"]))
            elif r.chance(0.5):
                ms = [r.pick(["null", "undefined"])] + ms
            u = " | ".join(ms)
            w = r.wpick([("%s", 3), ("NonNullable<%s>", 4), ("Exclude<%s, null>", 1), ("(%s)", 1), ("alias", 1)])
            if w == "alias":
                n = self.tg.fresh("T")
                self.tg.place("type %s = %s;" % (n, u))
                return "NonNullable<%s>" % n
            return w % u
        if k == "index-unresolvable":
            # an indexed access the resolver cannot follow (an imported object type, a `keyof` index): whatever is emitted must not be a check
            # that NO value passes (`type: []`)
            return r.pick(["Ext['k']", "{ p: string, q: number }[keyof { p: string, q: number }]", "Ext[number]", "Ext['a' | 'b']"])
        if k == "index-prop":
            return "{ p: %s, q: number }%s" % (self.expr(d + 1), r.pick(["['p']", "['p' | 'q']", "[string]"]))
        if k == "index-member":
            # members of every kind (property, method, getter, optional method, call signature) selected by key
            members = "onPick(id: number): void; label: string; get g(): %s; opt?(): void; p: %s; 'quoted-m'(): number" % (self.expr(d + 1), self.expr(d + 1))
            idx = r.pick(["['onPick']", "['onPick' | 'label']", "[string]", "['g']", "['opt']", "['p' | 'onPick']", "['quoted-m']", "['label']", "[('label')]", "[('p' | 'label')]"])
            form = r.below(4)
            if form == 0:
                return "{ %s }%s" % (members, idx)
            n = self.tg.fresh("H")
            if form == 3:
                # the members are INHERITED
                b = self.tg.fresh("HB")
                self.tg.place("interface %s { %s }" % (b, members))
                self.tg.place("interface %s extends %s { own: symbol }" % (n, b))
                return n + idx
            self.tg.place(("interface %s { %s }" if form == 1 else "type %s = { %s };") % (n, members))
            # the indexed object may itself be composed: intersection, utility wrapper, parentheses
            return r.wpick([("%s", 5), ("(%s & { zz: 1 })", 1), ("Required<%s>", 1), ("Partial<%s>", 1), ("(%s)", 1), ("Omit<%s, 'zz'>", 1)]) % n + idx
        return "string"


# ------------------------------------------------------------------------------------------------ C18 defaults
DEFAULT_VALUES = ["'hi'", "1", "true", "null", "x", "[1, 2]", "{ a: 1 }", "() => 1", "fn1", "a + b", "`t`", "10n", "/re/", "undefined", "function () { return 1 }"]


# ------------------------------------------------------------------------------------------------ C19 emits
EVENTS = ["foo", "bar", "update:modelValue", "my-event", "x", "change"]


def c16_body(r, i):
    tg = TypeGen(r)
    props = tg.random_map()
    ty = tg.encode(props)
    scope = r.wpick(SCOPES)
    tg.used["scope:%s" % scope] += 1
    if r.chance(0.06):
        # a long (but finite) chain of aliases in front of the type: well below / well above the nesting limit of the resolver
        L = r.pick([5, 20, 40, 50, 90])
        tg.used["alias-chain:%d" % L] += 1
        names = [tg.fresh("Z") for _ in range(L)]
        tg.decls_before.append("type %s = %s;" % (names[0], ty))
        for a_, b_ in zip(names[1:], names):
            tg.decls_before.append("type %s = %s;" % (a_, b_))
        ty = names[-1]
    call = "const C%d = defineComponent((props: %s) => {});" % (i, ty)
    # more calls in the same module: the same type again, or another map encoded with the same declarations in scope
    for j in range(r.wpick([(0, 6), (1, 3), (2, 1)])):
        tg.used["multi-call"] += 1
        ty2 = ty if r.chance(0.4) else tg.encode(tg.random_map(), allow_after=False)
        form = r.wpick([("(props: %s) => {}", 4), ("(props: %s, ctx: SetupContext<{ (e: 'a'): void }>) => {}", 2), ("function (props: %s) {}", 1)])
        call += "\nconst C%d_%d = defineComponent(%s);" % (i, j, form % ty2)
    return tg, call, {"scope": scope}


def c16_case(r, i):
    tg, call, kw = c16_body(r, i)
    return wrap_module(tg, call, **kw), tg.used


UNRESOLVABLE = ["import type { Ext } from './ext';\nconst C = defineComponent((props: Ext) => {});",
                "import { Ext } from './ext';\nconst C = defineComponent((props: Ext & { a: string }) => {});",
                "type K = { a: string };\nconst C = defineComponent((props: keyof K) => {});",
                "type G<T> = { v: T };\nconst C = defineComponent((props: G<string>) => {});",
                "const C = defineComponent((props: Record<string, number>) => {});",
                "const C = defineComponent((props: Readonly<{ a: string }>) => {});",
                "const C = defineComponent((props: string) => {});",
                "const C = defineComponent((props: typeof dflt) => {});",
                "const C = defineComponent((props: NS.Props) => {});",
                "const C = defineComponent((props: Missing) => {});",
                "type A = { a: string };\nconst C = defineComponent((props: Pick<A, keyof A>) => {});",
                "interface I extends Ext2 { a: string }\nimport type { Ext2 } from './e';\nconst C = defineComponent((props: I) => {});",
                "namespace NS { export interface B { b: number } }\ninterface I extends NS.B { a: string }\nconst C = defineComponent((props: I) => {});",
                "interface I { a: string }\ninterface I extends Ext3 { c: number }\nimport type { Ext3 } from './e';\nconst C = defineComponent((props: I) => {});",
                "interface I extends Readonly<{ b: number }> { a: string }\nconst C = defineComponent((props: I) => {});"]


def c17_body(r, i):
    tg = TypeGen(r)
    eg = ExprGen(r, tg)
    n = 1 + r.below(4)
    members = []
    for j in range(n):
        members.append("p%d%s: %s" % (j, "?" if r.chance(0.3) else "", eg.expr()))
    call = "const C%d = defineComponent((props: { %s }) => {});" % (i, "; ".join(members))
    for j in range(r.wpick([(0, 6), (1, 3), (2, 1)])):
        tg.used["multi-call"] += 1
        ms = ["q%d%s: %s" % (k, "?" if r.chance(0.3) else "", r.pick(members).split(": ", 1)[1] if r.chance(0.5) else eg.expr()) for k in range(1 + r.below(3))]
        call += "\nconst C%d_%d = defineComponent((props: { %s }) => {});" % (i, j, "; ".join(ms))
    return tg, call, {"imports": "import { defineComponent } from 'vue';\nimport type { Ext } from './ext';\nclass Foo {}\n"}


def c17_case(r, i):
    tg, call, kw = c17_body(r, i)
    return wrap_module(tg, call, **kw), tg.used


def c18_body(r, i):
    tg = TypeGen(r)
    props = tg.random_map(2 + r.below(3))
    for p in props:
        p.optional = True if p.kind != "getter" else False
        if r.chance(0.3):
            p.ty = r.pick(["() => void", "Function", "(() => void) | string", "string", "number", "Function | number", "(() => void) | null", "any", "(() => void)",
                           "NonNullable<(() => void) | null>", "boolean | (() => boolean)"])
    ty = tg.literal(props) if r.chance(0.7) else tg.encode(props, allow_after=False)
    entries = []
    dyn = r.wpick([("static", 7), ("ident", 1), ("spread", 1), ("computed-ident", 1), ("computed-expr", 1), ("computed-tpl", 1), ("computed-tpl-subst", 1),
                   ("computed-member", 1), ("wrapped", 1)])
    for p in props:
        if r.chance(0.25):
            continue
        key = p.key()
        form = r.wpick([("kv", 6), ("method", 2), ("getter", 1), ("shorthand", 1), ("async", 1), ("computed-lit", 1), ("quoted", 1)])
        val = r.pick(DEFAULT_VALUES)
        if form == "kv":
            entries.append("%s: %s" % (key, val))
        elif form == "quoted":
            entries.append("'%s': %s" % (p.name, val))
        elif form == "computed-lit":
            entries.append("['%s']: %s" % (p.name, val))
        elif form == "method":
            entries.append("%s() { return 1 }" % key)
        elif form == "async":
            entries.append("async %s() { return 1 }" % key)
        elif form == "getter":
            entries.append("get %s() { return x }" % key)
        elif form == "shorthand" and key == p.name and p.name.isidentifier():
            entries.append(p.name)
        else:
            entries.append("%s: %s" % (key, val))
    if r.chance(0.2):
        entries.append("extraKey: 1")
    if dyn == "static":
        d = "{ " + ", ".join(entries) + " }"
    elif dyn == "ident":
        d = "dflt"
    elif dyn == "spread":
        d = "{ " + ", ".join(entries + ["...dflt"]) + " }"
    elif dyn == "computed-ident":
        d = "{ " + ", ".join(entries + ["[k]: 1"]) + " }"
    elif dyn == "computed-tpl":
        d = "{ " + ", ".join(entries + ["[`%s`]: 1" % props[0].name]) + " }"
    elif dyn == "computed-tpl-subst":
        d = "{ " + ", ".join(entries + [r.pick(["[`${k}Size`]: 1", "[`%s${k}`]: 2" % props[0].name, "[`${k}`]() {}", "[`%s${''}`]: 3" % props[-1].name])]) + " }"
    elif dyn == "computed-member":
        d = "{ " + ", ".join(entries + [r.pick(["[obj.k]: 1", "[f()]: 1", "[1 + 1]: 1", "[Symbol.iterator]: 1"])]) + " }"
    elif dyn == "wrapped":
        d = r.pick(["({ %s })", "{ %s } as any", "{ %s } satisfies object", "({ %s } as const)"]) % ", ".join(entries)
    else:
        d = "{ " + ", ".join(entries + ["['fo' + 'o']: 1"]) + " }"
    pre = "const foo = 1, bar = 2, baz = 3, qux = 4, v = 5, title = 't', camelCase = 0, x = 1, a = 1, b = 2, obj = { k: 'foo' }, f = () => 'foo';\n"
    call = pre + "const C%d = defineComponent((props: %s = %s) => {});" % (i, ty, d)
    for j in range(r.wpick([(0, 6), (1, 3), (2, 1)])):
        tg.used["multi-call"] += 1
        d2 = r.pick([d, "{ " + ", ".join(entries[: 1 + r.below(max(1, len(entries)))]) + " }", "{}", "dflt"])
        call += "\nconst C%d_%d = defineComponent((props: %s = %s) => {});" % (i, j, ty, d2)
    return tg, call, {}


def c18_case(r, i):
    tg, call, kw = c18_body(r, i)
    return wrap_module(tg, call, **kw), tg.used


def c19_body(r, i):
    tg = TypeGen(r)
    n = 1 + r.below(3)
    if r.chance(0.08):
        n = 0            # the EMPTY event set is a finite event set too: `emits: []` (a type that resolves to no names is not "no annotation")
    evs = []
    pool = list(EVENTS)
    for _ in range(n):
        evs.append(pool.pop(r.below(len(pool))))

    def enc(names, d=0):
        if not names:
            tg.used["emits:empty-set"] += 1
            k0 = r.below(6) if d < 2 else 0
            if k0 == 0:
                return "{}"
            if k0 == 1:
                nme = tg.fresh("EI"); tg.place("interface %s { }" % nme); return nme
            if k0 == 2:
                nme = tg.fresh("EA"); tg.place("%stype %s = %s;" % (r.pick(["", "export "]), nme, enc([], d + 1))); return nme
            if k0 == 3:
                nme, b = tg.fresh("EE"), tg.fresh("EB"); tg.place("interface %s { }" % b); tg.place("interface %s extends %s { }" % (nme, b)); return nme
            if k0 == 4:
                return "%s & %s" % (enc([], d + 1), enc([], d + 1))
            return "(%s)" % enc([], d + 1)
        k = r.wpick([("fn", 3), ("fn-union-lit", 2), ("union-of-fn", 2), ("callsig-lit", 3), ("iface", 3), ("iface-extends", 2), ("iface-merge-extends", 2), ("props", 2), ("alias", 2),
                     ("lit-alias", 2), ("intersection", 1), ("exported", 1)] if d < 3 else [("callsig-lit", 1)])
        tg.used["emits:" + k] += 1
        lit = " | ".join("'%s'" % x for x in names)
        if r.chance(0.25):
            lit = "(%s)" % lit       # a parenthesised union is the same union
            tg.used["emits:paren-names"] += 1
        if k == "fn-union-lit":
            return "(e: %s, ...args: any[]) => void" % lit
        if k == "fn":
            return " | ".join("((e: '%s') => void)" % x for x in names) if len(names) > 1 else "(e: '%s', v: number) => void" % names[0]
        if k == "union-of-fn":
            return " | ".join("((e: '%s') => void)" % x for x in names)
        if k == "callsig-lit":
            return "{ " + "; ".join("(e: '%s'): void" % x for x in names) + " }"
        if k == "iface":
            nme = tg.fresh("EI")
            tg.place("interface %s { %s }" % (nme, "; ".join("(e: '%s'): void" % x for x in names)))
            return nme
        if k == "iface-extends" and len(names) >= 2:
            nme, b = tg.fresh("EE"), tg.fresh("EB")
            tg.place("interface %s { (e: '%s'): void }" % (b, names[0]))
            tg.place("interface %s extends %s { %s }" % (nme, b, "; ".join("(e: '%s'): void" % x for x in names[1:])))
            return nme
        if k == "iface-merge-extends" and len(names) >= 2:
            # declaration merging: the `extends` clause comes with a later declaration of the interface
            nme, b = tg.fresh("EM"), tg.fresh("EB")
            own = names[1:]
            c = r.below(len(own) + 1)
            tg.place("interface %s { (e: '%s'): void }" % (b, names[0]))
            tg.place("interface %s { %s }" % (nme, "; ".join("(e: '%s'): void" % x for x in own[:c])))
            tg.place("interface %s extends %s { %s }" % (nme, b, "; ".join("(e: '%s'): void" % x for x in own[c:])))
            return nme
        if k == "props":
            return "{ " + "; ".join("%s: [v: number]" % (x if x.isidentifier() else "'%s'" % x) for x in names) + " }"
        if k in ("alias", "exported"):
            nme = tg.fresh("EA")
            tg.place("%stype %s = %s;" % ("export " if k == "exported" else "", nme, enc(names, d + 1)))
            return nme
        if k == "lit-alias":
            nme = tg.fresh("EL")
            tg.place("type %s = %s;" % (nme, lit))
            return "(e: %s) => void" % nme
        if k == "intersection" and len(names) >= 2:
            par = lambda t: "(%s)" % t if "=>" in t and not t.startswith("{") else t
            return "%s & %s" % (par(enc(names[:1], d + 1)), par(enc(names[1:], d + 1)))
        return "{ " + "; ".join("(e: '%s'): void" % x for x in names) + " }"

    ty = enc(evs)
    second = r.wpick([("ctx: SetupContext<%s>" % ty, 6), ("{ emit }: SetupContext<%s>" % ty, 2), ("ctx: { emit: any }", 1), ("ctx", 1)])
    call = "const C%d = defineComponent((props: { a: string }, %s) => {});" % (i, second)
    # more calls in the same module: the same emits type again, another encoding, or interfaces sharing a base through `extends`;
    # with and without typed props
    for j in range(r.wpick([(0, 5), (1, 3), (2, 2)])):
        tg.used["multi-call"] += 1
        k2 = r.wpick([("same", 3), ("other", 3), ("shared-base", 3)])
        if k2 == "same":
            ty2 = ty
        elif k2 == "other":
            ty2 = enc([pool.pop(r.below(len(pool)))] if pool else evs)
        else:
            if not getattr(tg, "shared_base", None):
                tg.shared_base = tg.fresh("SB")
                tg.decls_before.append("interface %s { (e: 'base-ev'): void; (e: 'update:shared'): void }" % tg.shared_base)
            nme = tg.fresh("SX")
            tg.place("interface %s extends %s { (e: 'own%d'): void }" % (nme, tg.shared_base, j))
            ty2 = nme
        first = r.wpick([("props: { a: string }", 2), ("_", 2), ("props", 1), ("props: { b?: number } = {}", 1)])
        call += "\nconst C%d_%d = defineComponent((%s, ctx: SetupContext<%s>) => {});" % (i, j, first, ty2)
    scope = r.wpick(SCOPES)
    tg.used["scope:%s" % scope] += 1
    return tg, call, {"scope": scope}


def c19_case(r, i):
    tg, call, kw = c19_body(r, i)
    return wrap_module(tg, call, **kw), tg.used


# ------------------------------------------------------------------------------------------------ several scopes, SAME declaration names
MULTI_FORMS = ["siblings", "shadow", "nested", "shadow-after", "block-in-fn", "three"]


def scope_text(tg, call):
    strip = lambda t: t.replace("export type", "type").replace("export interface", "interface")
    return strip("\n".join(tg.decls_before)) + "\n" + call + "\n" + strip("\n".join(tg.decls_after)) + "\n"


def multi_scope_case(r, i, bodyfn):
    """two or three independently generated bodies (declarations + defineComponent calls) in DIFFERENT scopes of one module; every body numbers its
    declarations from 1, so the same alias / interface names (A1, I2, EL1, ...) are declared in several scopes with different meanings:
    sibling functions, a function-local declaration shadowing a module-level one (declared before or after), nested functions, blocks"""
    form = r.pick(MULTI_FORMS)
    n = 3 if form == "three" else 2
    used = collections.Counter()
    bodies, imports = [], None
    for j in range(n):
        tg, call, kw = bodyfn(r, i * 10 + j)
        used.update(tg.used)
        imports = kw.get("imports") or imports
        bodies.append(scope_text(tg, call))
    used["multi-scope:" + form] += 1
    wraps = ["function scopeA() {\n%s}\n", "const scopeB = () => {\n%s};\n", "{\n%s}\n", "export function makeC() {\n%s}\n", "class HostD { m() {\n%s} }\n",
             "describe('e', function () {\n%s});\n"]
    w = lambda k: wraps[(i + k) % len(wraps)]
    if form == "siblings":
        body = w(0) % bodies[0] + w(1) % bodies[1]
    elif form == "shadow":
        body = bodies[0] + w(0) % bodies[1]
    elif form == "shadow-after":
        body = w(0) % bodies[1] + bodies[0]
    elif form == "nested":
        body = "function outerN() {\n%s%s}\n" % (bodies[0], w(1).replace("export ", "") % bodies[1])
    elif form == "block-in-fn":
        body = "function outerB() {\n{\n%s}\n%s}\n" % (bodies[0], bodies[1])
    else:
        body = w(0) % bodies[0] + bodies[1] + w(2) % bodies[2]
    imports = imports or "import { defineComponent } from 'vue';\nimport type { SetupContext } from 'vue';\n"
    return imports + "const userProps = {}, dflt = {}, k = 'foo', fn1 = () => 1;\n" + body, used


# deterministic part: ONE name declared in two scopes, as every pair of declaration kinds, in every arrangement of the scopes
def _lit(evs):
    return " | ".join("'%s'" % e for e in evs)


def _sigs(evs):
    return "; ".join("(e: '%s'): void" % e for e in evs)


C19_NAME_KINDS = [
    ("lit-alias/fn", lambda n, e: "type %s = %s;" % (n, _lit(e)), lambda n: "(e: %s) => void" % n),
    ("lit-alias/callsig", lambda n, e: "type %s = %s;" % (n, _lit(e)), lambda n: "{ (e: %s, v: number): void }" % n),
    ("lit-alias/nested", lambda n, e: "type %s = %s;\ntype %sMore = %s | %s;" % (n, _lit(e[1:]), n, n, _lit(e[:1])), lambda n: "(e: %sMore) => void" % n),
    ("lit-alias/iface", lambda n, e: "type %s = %s;\ninterface %sEmits { (e: %s): void }" % (n, _lit(e), n, n), lambda n: "%sEmits" % n),
    ("fn-alias", lambda n, e: "type %s = (e: %s) => void;" % (n, _lit(e)), lambda n: n),
    ("iface", lambda n, e: "interface %s { %s }" % (n, _sigs(e)), lambda n: n),
    ("iface-extends", lambda n, e: "interface %sBase { %s }\ninterface %s extends %sBase { %s }" % (n, _sigs(e[:1]), n, n, _sigs(e[1:])), lambda n: n),
    ("props-syntax", lambda n, e: "type %s = { %s };" % (n, "; ".join("'%s': [v: number]" % x for x in e)), lambda n: n),
]
C19_PAYLOADS = [["open", "close"], ["submit", "update:modelValue", "field-change"]]

C16_NAME_KINDS = [
    ("alias", lambda n, m: "type %s = { %s };" % (n, m), lambda n: n),
    ("interface", lambda n, m: "interface %s { %s }" % (n, m), lambda n: n),
    ("iface-extends", lambda n, m: "interface %sBase { %s }\ninterface %s extends %sBase { %s }" % (n, m.split("; ", 1)[0], n, n, m.split("; ", 1)[1]), lambda n: n),
    ("key-alias/pick", lambda n, m: "type %s = %s;" % (n, _lit([x.split(":")[0].strip("?' ") for x in m.split("; ")])), lambda n: "Pick<{ %s; zz: Date }, %s>" % ("@", n)),
    ("key-alias/omit", lambda n, m: "type %s = 'zz';\ntype %sAll = { %s; zz: Date };" % (n, n, m), lambda n: "Omit<%sAll, %s>" % (n, n)),
    ("holder/indexed", lambda n, m: "type %s = { k: { %s }; other: string };" % (n, m), lambda n: "%s['k']" % n),
    ("partial", lambda n, m: "interface %s { %s }" % (n, m), lambda n: "Partial<%s>" % n),
]
C16_PAYLOADS = ["id: string; label?: string; 'data-kind': number", "size: number; onPick?(): void; id?: boolean; 'a-b': string"]


def same_name_products(kinds, payloads, prop_side):
    """(id, module) for every ordered pair of declaration kinds x arrangement of two scopes; the SAME name is declared in both scopes"""
    out = []
    wraps = ["function scopeA() {\n%s}\n", "const scopeB = () => {\n%s};\n", "{\n%s}\n", "export function makeC() {\n%s}\n"]
    for (k1, d1, u1), (k2, d2, u2) in itertools.product(kinds, repeat=2):
        for fi, form in enumerate(["siblings", "shadow", "shadow-after", "nested", "decl-after-use", "three-uses"]):
            name = "Name"
            def body(decl, use, payload, tag, after=False):
                ty = use(name).replace("@", payload if isinstance(payload, str) else "")
                call = ("const %s = defineComponent((props: %s) => {});" % (tag, ty)) if prop_side else \
                       ("const %s = defineComponent((_, ctx: SetupContext<%s>) => {});" % (tag, ty))
                dd = decl(name, payload)
                return (call + "\n" + dd + "\n") if after else (dd + "\n" + call + "\n")
            b1 = body(d1, u1, payloads[0], "C1")
            b2 = body(d2, u2, payloads[1], "C2", after=(form == "decl-after-use"))
            w1, w2 = wraps[fi % len(wraps)], wraps[(fi + 1) % len(wraps)]
            if form in ("siblings", "decl-after-use"):
                m = w1 % b1 + w2 % b2
            elif form == "shadow":
                m = b1 + w1 % b2
            elif form == "shadow-after":
                m = w1 % b2 + b1
            elif form == "nested":
                m = "function outerN() {\n%s%s}\n" % (b1, w2 % b2)
            else:
                m = w1 % b1 + w2 % b2 + w1.replace("scopeA", "scopeA2").replace("scopeB", "scopeB2").replace("makeC", "makeC2") % b1.replace("C1", "C3")
            out.append(("sn:%s|%s|%s" % (k1, k2, form), "import { defineComponent } from 'vue';\nimport type { SetupContext } from 'vue';\n" + m))
    return out


# C18, deterministic part: SEVERAL calls annotated with ONE named props type, every ordered sequence of default kinds
C18_TYPE_DECLS = [("interface", "interface Props { size?: number; label?: string; onPick?: (id: number) => void; 'a-b'?: boolean }"),
                  ("alias", "type Props = { size?: number; label?: string; onPick?: (id: number) => void; 'a-b'?: boolean };"),
                  ("extends", "interface PBase { size?: number; 'a-b'?: boolean }\ninterface Props extends PBase { label?: string; onPick?: (id: number) => void }"),
                  ("exported-after", "@AFTER@export interface Props { size?: number; label?: string; onPick?: (id: number) => void; 'a-b'?: boolean }")]
C18_DEFAULT_KINDS = [("static", " = { size: 1, label: 'fancy', onPick: noop }"), ("none", ""), ("ident", " = fallback"), ("spread", " = { size: 2, ...fallback }"),
                     ("computed", " = { [k]: 3, label: 'c' }"), ("empty", " = {}"), ("static2", " = { 'a-b': true, label, get size() { return n } }"), ("call", " = makeDefaults()")]


def c18_products(tier):
    out = []
    seqs = list(itertools.product(range(len(C18_DEFAULT_KINDS)), repeat=2)) + \
        [t for i, t in enumerate(itertools.product(range(len(C18_DEFAULT_KINDS)), repeat=3)) if i % (5 if tier == "quick" else 1) == 0]
    pre = "import { defineComponent } from 'vue';\nconst fallback = {}, k = 'size', noop = () => {}, label = 'l', n = 1, makeDefaults = () => ({});\n"
    for si, seq in enumerate(seqs):
        for ti, (tn, decl) in enumerate(C18_TYPE_DECLS):
            if tier == "quick" and (si + ti) % 2 and len(seq) == 3:
                continue
            forms = ["(props: Props%s) => () => null", "function (props: Props%s) {}", "(props: Props%s, ctx) => {}"]
            calls = "\n".join("export const K%d = defineComponent(%s);" % (j, forms[(si + j) % 3] % C18_DEFAULT_KINDS[kx][1]) for j, kx in enumerate(seq))
            if "@AFTER@" in decl:
                body = calls + "\n" + decl.replace("@AFTER@", "")
            else:
                body = decl + "\n" + calls
            if (si + ti) % 4 == 3:
                body = "function scope() {\n" + body.replace("export ", "") + "\n}"
            out.append(("dk:%s|%s" % (tn, "-".join(C18_DEFAULT_KINDS[kx][0] for kx in seq)), pre + body + "\n"))
    return out


# ------------------------------------------------------------------------------------------------ `extends`: what the parent IS and WHERE it is declared
# deterministic part (C16 props side, C19 emits side): an interface whose `extends` parent is every kind of declaration that names an object type
# (interface, alias of a literal / of an interface / of an intersection / of another alias / in parentheses / of a function type, an interface with
# parents of its own, a merged interface, an exported one), declared in every scope relation to the child interface and to the call (same list,
# enclosing list, module level before / after, sibling scope declaring the same name, inner redeclaration), the child used directly, through an
# alias, inside an intersection, with one parent, two parents or through an intermediate interface
def _split2(m):
    parts = m.split("; ")
    return "; ".join(parts[:1]), "; ".join(parts[1:]) or parts[0]


EXT_PARENT_KINDS = [
    ("interface", lambda n, m: "interface %s { %s }" % (n, m)),
    ("alias-literal", lambda n, m: "type %s = { %s };" % (n, m)),
    ("alias-of-interface", lambda n, m: "interface %sI { %s }\ntype %s = %sI;" % (n, m, n, n)),
    ("alias-intersection", lambda n, m: "type %s = { %s } & { %s };" % ((n,) + _split2(m))),
    ("alias-chain", lambda n, m: "type %sZ = { %s };\ntype %sY = %sZ;\ntype %s = %sY;" % (n, m, n, n, n, n)),
    ("interface-chain", lambda n, m: "interface %sRoot { %s }\ninterface %s extends %sRoot { %s }" % ((n, _split2(m)[0], n, n, _split2(m)[1]))),
    ("interface-extends-alias", lambda n, m: "type %sRoot = { %s };\ninterface %s extends %sRoot { %s }" % ((n, _split2(m)[0], n, n, _split2(m)[1]))),
    ("merged", lambda n, m: "interface %s { %s }\ninterface %s { %s }" % ((n, _split2(m)[0], n, _split2(m)[1]))),
    ("exported", lambda n, m: "export interface %s { %s }" % (n, m)),
    ("alias-paren", lambda n, m: "type %s = ({ %s });" % (n, m)),
]
EXT_PROP_PAYLOADS = ["id: string; 'aria-label'?: string; size?: number", "kind: boolean; onPick?(): void; 'a-b': string"]
EXT_EMIT_PAYLOADS = ["(e: 'foo'): void; (e: 'update:model-value'): void", "(e: 'open'): void; (e: 'close', v: number): void; (e: 'field-change'): void"]
EXT_ARRANGE = ["same", "fn-child", "fn-child-parent-after", "nested", "block-call", "shadow-sibling", "shadow-inner", "call-inner", "parent-after-in-fn"]


def extends_products(prop_side, tier):
    out = []
    payloads = EXT_PROP_PAYLOADS if prop_side else EXT_EMIT_PAYLOADS
    own = "own?: Date" if prop_side else "(e: 'own'): void"
    other = "zz?: Date; id?: number" if prop_side else "(e: 'zz'): void"
    second = ("interface QBase { q: number }", "q") if prop_side else ("interface QBase { (e: 'q'): void }", "q")
    kinds = list(EXT_PARENT_KINDS)
    if not prop_side:
        kinds.append(("alias-fn", lambda n, m: "type %s = (e: %s) => void;" % (n, " | ".join("'%s'" % x.split("'")[1] for x in m.split("; ")))))
    uses = ["@", "alias", "@ & { %s }" % ("extra?: number" if prop_side else "(e: 'extra'): void")] + ([] if prop_side else ["@ | ((e: 'alt') => void)"])
    strip = lambda t: t.replace("export ", "")
    n = 0
    for (ki, (kn, kd)), (ai, arr), ci, (ui, use) in itertools.product(enumerate(kinds), enumerate(EXT_ARRANGE), range(3), enumerate(uses)):
        n += 1
        if tier == "quick" and not (ci == 0 and ui == 0) and (ki + ai + ci + ui) % 4:
            continue
        if tier == "search" and (ki + ai + ci + ui) % 2:
            continue
        P = kd("Base", payloads[0])
        P2 = kd("Base", other) if kn != "alias-fn" else "type Base = (e: 'zz') => void;"      # ANOTHER declaration of the same name, for the shadowing arrangements
        if ci == 0:
            C = "interface Child extends Base { %s }" % own
        elif ci == 1:
            C = "%s\ninterface Child extends Base, QBase { %s }" % (second[0], own)
        else:
            C = "interface Mid extends Base { }\ninterface Child extends Mid { %s }" % own
        ty = use.replace("@", "Child") if use != "alias" else "ViaAlias"
        pre = "type ViaAlias = Child;\n" if use == "alias" else ""
        call = lambda tag, t: ("const %s = defineComponent((props: %s) => {});" % (tag, t)) if prop_side else ("const %s = defineComponent((_, ctx: SetupContext<%s>) => {});" % (tag, t))
        U = pre + call("C1", ty)
        if arr == "same":
            m = "\n".join([P, C, U])
        elif arr == "fn-child":
            m = P + "\nexport function make() {\n" + C + "\n" + U + "\nreturn C1;\n}"
        elif arr == "fn-child-parent-after":
            m = "export const make = () => {\n" + C + "\n" + U + "\nreturn C1;\n};\n" + P
        elif arr == "nested":
            m = "function outer() {\n" + strip(P) + "\nconst inner = () => {\n" + C + "\n" + U + "\n};\nreturn inner;\n}"
        elif arr == "block-call":
            m = P + "\nfunction make() {\n" + C + "\n{\n" + U + "\n}\n}"
        elif arr == "shadow-sibling":
            m = P + "\nfunction sibling() {\n" + strip(P2) + "\n" + call("C0", "Base") + "\n}\nfunction make() {\n" + C + "\n" + U + "\n}"
        elif arr == "shadow-inner":
            m = P2 + "\nfunction make() {\n" + strip(P) + "\n" + C + "\n" + U + "\n}\n" + call("C0", "Base")
        elif arr == "call-inner":
            m = P + "\n" + C + "\nclass Host { m() {\n" + U + "\n} }"
        else:
            m = "function make() {\n" + C + "\n" + U + "\n" + strip(P) + "\n}"
        out.append(("ext:%s|%s|%d|%d" % (kn, arr, ci, ui), "import { defineComponent } from 'vue';\nimport type { SetupContext } from 'vue';\n" + m + "\n"))
    return out


# ------------------------------------------------------------------------------------------------ C18: ONE prop declared under SEVERAL spellings
# `label`, `'label'`, `['label']` are one prop for Vue and for the default matcher but separate declarations for the props type (they are merged by
# spelling); they meet when declarations are combined: intersection, union, merged interfaces, extends, an alias in between.  x the spelling of the
# key in the default object x the kind of default x the type of the prop.  (What Vue receives is the LAST entry of the emitted object.)
C18_SPELL_TYPES = [
    ("intersection", lambda a, b: ("", "{ %s } & { %s; 'aria-level'?: number }" % (a, b))),
    ("union", lambda a, b: ("", "{ %s } | { %s; 'aria-level'?: number }" % (a, b))),
    ("merged", lambda a, b: ("interface Props { %s }\ninterface Props { %s; 'aria-level'?: number }\n" % (a, b), "Props")),
    ("extends", lambda a, b: ("interface PBase { %s }\ninterface Props extends PBase { %s; 'aria-level'?: number }\n" % (b, a), "Props")),
    ("aliases", lambda a, b: ("type PA = { %s };\ntype PB = { %s; 'aria-level'?: number };\n" % (a, b), "PA & PB")),
    ("three", lambda a, b: ("", "{ %s } & { %s } & { ['label']?: %s; 'aria-level'?: number }" % (a, b, "@T@"))),
    ("partial", lambda a, b: ("interface PI { %s }\n" % a.replace("?", ""), "Partial<PI> & { %s; 'aria-level'?: number }" % b)),
]
C18_SPELL_DEFAULTS = [("literal", "label: 'untitled'"), ("quoted-key", "'label': 'untitled'"), ("computed-key", "['label']: 'untitled'"), ("factory", "label: makeLabel()"),
                      ("shorthand", "label"), ("getter", "get label() { return makeLabel() }"), ("method", "label() { return 1 }"), ("undefined", "label: undefined"),
                      ("arrow", "label: () => 'x'"), ("twice", "label: 'first', 'label': 'second'")]
C18_SPELL_PROP_TYPES = ["string", "() => void", "boolean", "string | (() => string)"]


def c18_spelling_products(tier):
    out = []
    pre = "import { defineComponent } from 'vue';\nconst label = 'l', makeLabel = () => 'm', noop = () => {};\n"
    n = 0
    for (tn, tf), (dn, dflt), (pi, pty), order in itertools.product(C18_SPELL_TYPES, C18_SPELL_DEFAULTS, enumerate(C18_SPELL_PROP_TYPES), (0, 1)):
        n += 1
        if tier == "quick" and pi and (n % 3):
            continue
        a, b = "label?: %s" % pty, "'label'?: %s" % pty
        if order:
            a, b = b, a
        decls, ty = tf(a, b)
        ty = ty.replace("@T@", pty)
        call = "export const C%d = defineComponent((props: %s = { %s, 'aria-level': 2 }) => () => null);" % (n, ty, dflt)
        body = decls + call
        if n % 5 == 0:
            body = "function scope() {\n" + body.replace("export ", "") + "\n}"
        out.append(("sp:%s|%s|%d|%d" % (tn, dn, pi, order), pre + body + "\n"))
    return out


# ------------------------------------------------------------------------------------------------ C20: SEVERAL calls, nested or in sequence
# which call gets the inferred name (and props / emits) when Vue's defineComponent calls are NESTED in each other's arguments (setup body, options
# object, wrapper call, array, directly) or FOLLOW a declaration whose call cannot take a name (spread / non-function first argument, destructuring,
# conditional, another function) - every call must be augmented for itself only
# (inner calls that are legitimately augmented for themselves - typed props, emits - are in the stream too: Oracle.c20Call takes Vue's defineComponent
# calls nested in the ARGUMENTS of the call it judges out of the comparison, each is judged as its own pair)
C20_INNER = ["() => () => null", "{ setup() {} }", "(p) => {}", "someObject", "() => {}, { inheritAttrs: false }", "function () { return () => null; }",
             "(p: { inner: string }) => () => null", "(p: { a?: number }, c: SetupContext<{ (e: 'i'): void }>) => {}, { inheritAttrs: false }",
             "(p: { z: boolean }) => {}, { props: ['z'] }"]
C20_NEST = ["(props: { id: number }) => { const inner = [defineComponent(@I)]; return () => null; }",
            "(props: { id: number }) => () => h(defineComponent(@I))",
            "(props: { id: number }) => () => null, { components: { Child: defineComponent(@I) } }",
            "wrap(defineComponent(@I))",
            "defineComponent(@I)",
            "(props: { id: number }) => () => null, { ...defineComponent(@I) }",
            "(props: { id: number }, ctx: SetupContext<{ (e: 'x'): void }>) => () => null, { mixins: [defineComponent(@I), defineComponent(() => {})] }",
            "{ components: { Child: defineComponent(@I) }, setup() {} }"]
C20_OUTER_DECL = ["const Page = CALL;", "let Page = CALL;", "export const Page = CALL;", "export default CALL;", "let Page; Page = CALL;", "CALL;", "var Page = CALL, Other = defineComponent(() => () => null);"]
C20_FIRST_STMT = ["const Stub = defineComponent(...args);", "const Stub = defineComponent(someObject, ...rest);", "const Stub = defineComponent(someObject);",
                  "const { x } = defineComponent((props: { a: string }) => {});", "const Stub = other((props: { a: string }) => {});",
                  "const Stub = cond ? defineComponent((props: { a: string }) => {}) : null;", "const Stub = defineComponent((props: { a: string }) => {}, { name: 'Own' });"]
C20_LATER_STMT = ["export default defineComponent((props: { msg: string }) => () => null);", "let Later; Later = defineComponent((props: { msg: string }) => () => null);",
                  "defineComponent((props: { msg: string }) => () => null);", "register(defineComponent((props: { msg: string }) => () => null));",
                  "const Named = defineComponent((props: { msg: string }) => () => null);"]


def c20_nesting_products(tier):
    out = []
    head = ("import { defineComponent, h } from 'vue';\nimport type { SetupContext } from 'vue';\n"
            "const someObject = {}, args = [], rest = [], cond = true, wrap = (x: any) => x, other = (x: any) => x, register = (x: any) => x;\n")
    for (ni, nest), (ii, inner), (di, decl) in itertools.product(enumerate(C20_NEST), enumerate(C20_INNER), enumerate(C20_OUTER_DECL)):
        call = "defineComponent(%s)" % nest.replace("@I", inner)
        out.append(("nest:%d|%d|%d" % (ni, ii, di), head + decl.replace("CALL", call) + "\n"))
    for (fi, first), (li, later) in itertools.product(enumerate(C20_FIRST_STMT), enumerate(C20_LATER_STMT)):
        out.append(("seq:%d|%d" % (fi, li), head + first + "\n" + later + "\n"))
        out.append(("seqfn:%d|%d" % (fi, li), head + "function scope() {\n" + first + "\n" + later.replace("export default ", "return ") + "\n}\n"))
    return out
