#!/usr/bin/env python3
"""Abstraction alpha: SWC's serde JSON of a module  ->  the S-expression syntax of lean/VueJsx/VueJsx/Syntax.lean.

One generic rule (kind = serde `type`; atoms = scalar fields in order; kids = non-scalar fields in order,
None -> (none), list -> (list ...)), plus the exceptions documented in Syntax.lean.  Trusted, kept dumb.
"""
import json, re

SAFE = set(b"abcdefghijklmnopqrstuvwxyzABCDEFGHIJKLMNOPQRSTUVWXYZ0123456789_-.$:@")
DROP = {"type", "span", "raw"}
STMT_LISTS = {("BlockStatement", "stmts"), ("SwitchCase", "consequent")}


def enc(s):
    if isinstance(s, bool):
        s = "true" if s else "false"
    elif isinstance(s, float):
        s = str(int(s)) if s == int(s) and abs(s) < 1e15 else repr(s)
    elif isinstance(s, int):
        s = str(s)
    b = s.encode("utf-8", "replace")
    return "'" + "".join(chr(c) if c in SAFE else "%%%02X" % c for c in b)


class Ctx:
    def __init__(self, unresolved, input_ctxts):
        self.unresolved = unresolved
        self.input_ctxts = input_ctxts

    def bind(self, c):
        if c == self.unresolved:
            return "u"
        if c == 0:
            return "e"
        if c in self.input_ctxts:
            return "b%d" % c
        return "g%d" % c


def collect_ctxts(v, acc):
    if isinstance(v, dict):
        if v.get("type") == "Identifier" and "ctxt" in v:
            acc.add(v["ctxt"])
        for x in v.values():
            collect_ctxts(x, acc)
    elif isinstance(v, list):
        for x in v:
            collect_ctxts(x, acc)
    return acc


def is_span(v):
    return isinstance(v, dict) and set(v.keys()) == {"start", "end"}


def alpha(v, ctx, out, parent_type=None, field=None):
    """appends S-expression text pieces to `out`"""
    if v is None:
        out.append("(none)")
        return
    if isinstance(v, list):
        out.append("(stmts" if (parent_type, field) in STMT_LISTS else "(list")
        for x in v:
            out.append(" ")
            alpha(x, ctx, out)
        out.append(")")
        return
    if not isinstance(v, dict):
        out.append("(scalar " + enc(v) + ")")   # scalars inside lists (e.g. bigint digit vectors)
        return
    t = v.get("type")
    if t is None:
        ks = set(v.keys())
        if ks == {"spread", "expression"}:
            out.append("(spreadArg " if v["spread"] is not None else "(arg ")
            alpha(v["expression"], ctx, out)
            out.append(")")
            return
        # typeless records (e.g. BigInt values): generic, tagged by their key list
        t = "rec:" + ",".join(v.keys())
    if t == "Identifier":
        atoms = [v["value"], ctx.bind(v["ctxt"]) if "ctxt" in v else "n"]
        if v.get("optional"):
            atoms.append("optional")
        out.append("(Identifier " + " ".join(enc(a) for a in atoms))
        if "typeAnnotation" in v:
            out.append(" ")
            alpha(v["typeAnnotation"], ctx, out)
        out.append(")")
        return
    if t == "CallExpression" and parent_type == "OptionalChainingExpression":
        t = "OptCall"
    atoms = []
    kids = []
    if t in ("CallExpression", "BlockStatement"):
        sp = v.get("span") or {}
        atoms.append("syn" if sp.get("start") == 0 and sp.get("end") == 0 else "usr")
    for k, x in v.items():
        if k in DROP or k == "ctxt":
            continue
        if is_span(x):
            continue
        if isinstance(x, (str, bool, int, float)):
            atoms.append(x)
        else:
            kids.append((k, x))
    if not re.fullmatch(r"[A-Za-z0-9_:,]+", t):
        raise ValueError("bad tag %r" % t)
    out.append("(" + t)
    for a in atoms:
        out.append(" " + enc(a))
    for k, x in kids:
        out.append(" ")
        alpha(x, ctx, out, t, k)
    out.append(")")


def alpha_module(mod_json, ctx):
    out = []
    alpha(mod_json, ctx, out)
    return "".join(out)


def case_sexpr(case, rec):
    """One driver input line for a harness record `rec` of the generated case `case`."""
    opts = case.get("opts") or {}
    if isinstance(opts, str):
        opts = json.loads(opts)
    def ob(k, d):
        v = opts.get(k, d)
        return "true" if v else "false"
    pragma = opts.get("pragma")
    o = "(opts %s %s %s %s %s %s %s)" % (
        enc(ob("transformOn", False)), enc(ob("optimize", False)), enc(ob("mergeProps", True)),
        enc(ob("enableObjectSlots", True)), enc(ob("resolveType", False)),
        enc("some" if pragma is not None else "none"), enc(pragma or ""))
    known = "(known" + "".join(" " + enc(x) for x in rec.get("known", [])) + ")"
    pat = "(patmatch" + "".join(" " + enc(x) for x in rec.get("patmatch", [])) + ")"
    comments = "(comments" + "".join(
        " (at" + "".join(" " + enc(t) for t in c["texts"]) + ")" for c in rec.get("comments", [])) + ")"
    ctx = Ctx(rec.get("unresolved_ctxt"), collect_ctxts(rec.get("in"), set()))
    i = alpha_module(rec["in"], ctx)
    if rec.get("panic") is not None or "out" not in rec:
        o_ = "(none)"
        status = "panic"
    else:
        o_ = alpha_module(rec["out"], ctx)
        status = "ok"
    diags = "(diags" + "".join(" " + enc(d) for d in rec.get("diags", [])) + ")"
    return "(case %s %s %s %s %s %s %s %s %s)" % (enc(str(case["id"])), enc(status), o, known, pat, comments, i, o_, diags)


def opts_env_sexpr(case, rec):
    opts = case.get("opts") or {}
    if isinstance(opts, str):
        opts = json.loads(opts)
    def ob(k, d):
        return "true" if opts.get(k, d) else "false"
    pragma = opts.get("pragma")
    o = "(opts %s %s %s %s %s %s %s)" % (
        enc(ob("transformOn", False)), enc(ob("optimize", False)), enc(ob("mergeProps", True)),
        enc(ob("enableObjectSlots", True)), enc(ob("resolveType", False)),
        enc("some" if pragma is not None else "none"), enc(pragma or ""))
    known = "(known" + "".join(" " + enc(x) for x in rec.get("known", [])) + ")"
    pat = "(patmatch" + "".join(" " + enc(x) for x in rec.get("patmatch", [])) + ")"
    comments = "(comments" + "".join(
        " (at" + "".join(" " + enc(t) for t in c["texts"]) + ")" for c in rec.get("comments", [])) + ")"
    return "%s %s %s %s" % (o, known, pat, comments)


def pair_sexpr(pid, mode, case_a, rec_a, rec_b):
    """driver line comparing the implementation's outputs of two related runs"""
    ca = Ctx(rec_a.get("unresolved_ctxt"), collect_ctxts(rec_a.get("in"), set()))
    cb = Ctx(rec_b.get("unresolved_ctxt"), collect_ctxts(rec_b.get("in"), set()))
    return "(pair %s %s %s %s %s)" % (enc(str(pid)), enc(mode), opts_env_sexpr(case_a, rec_a),
                                      alpha_module(rec_a["out"], ca), alpha_module(rec_b["out"], cb))


def self_pair_sexpr(pid, mode, case, rec):
    """driver line comparing a run's OUTPUT with its own INPUT (idempotence: the input is an earlier output)"""
    c = Ctx(rec.get("unresolved_ctxt"), collect_ctxts(rec.get("in"), set()))
    return "(pair %s %s %s %s %s)" % (enc(str(pid)), enc(mode), opts_env_sexpr(case, rec), alpha_module(rec["out"], c), alpha_module(rec["in"], c))


if __name__ == "__main__":
    import sys
    for line in sys.stdin:
        rec = json.loads(line)
        if "in" not in rec:
            continue
        ctx = Ctx(rec.get("unresolved_ctxt"), collect_ctxts(rec.get("in"), set()))
        print(alpha_module(rec["in"], ctx))
        if "out" in rec:
            print(alpha_module(rec["out"], ctx))
