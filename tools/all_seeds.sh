#!/bin/sh
# usage: tools/all_seeds.sh  -- applies every seeded change to /repo in turn, runs the check of its property, reverts;
# prints one line per seed: CAUGHT (a VIOLATION with a failing input), WEAK (only no-failing-input-found) or MISSED
cd /verif
for d in ${SEEDS:-seeded/*/}; do
  id=$(basename "$d"); prop=$(echo "$id" | cut -c1-3)
  patch="$(readlink -f "$d/patch.diff")"
  if ! git -C /repo apply --check "$patch" 2>/dev/null; then
    if git -C /repo apply --3way --check "$patch" 2>/dev/null; then mode="--3way"; else echo "$id: PATCH DOES NOT APPLY"; continue; fi
  else mode=""; fi
  git -C /repo apply $mode "$patch" || { echo "$id: apply failed"; continue; }
  out=$(/verif/check "$prop" 2>&1)
  git -C /repo reset -q --hard HEAD
  if echo "$out" | grep "^VIOLATION" | grep -qv "no-failing-input-found"; then echo "$id: CAUGHT $(echo "$out" | grep '^VIOLATION' | grep -v no-failing | head -1 | sed 's/.*replay=//')"
  elif echo "$out" | grep -q "^VIOLATION"; then echo "$id: WEAK (no-failing-input-found)"
  else echo "$id: MISSED"; fi
done
git -C /repo status --short | head -3
