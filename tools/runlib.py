#!/usr/bin/env python3
"""Shared plumbing: build things, run the harness (real code) and the Lean driver (model + oracles) on cases."""
import json, os, subprocess, sys, time, threading, concurrent.futures as cf

sys.setrecursionlimit(200000)       # deeply nested ASTs (json, alpha are recursive)
threading.stack_size(512 * 1024 * 1024)

VERIF = os.path.dirname(os.path.dirname(os.path.abspath(__file__)))
sys.path.insert(0, os.path.join(VERIF, "tools"))
import alpha  # noqa

HARNESS_DIR = os.path.join(VERIF, "harness")
HARNESS = os.environ.get("VJX_HARNESS") or os.path.join(VERIF, ".cache", "target", "release", "vjx-harness")
LEAN_DIR = os.path.join(VERIF, "lean", "VueJsx")
DRIVER = os.path.join(LEAN_DIR, ".lake", "build", "bin", "vjxmodel")
NPROC = max(1, min(16, os.cpu_count() or 4))


def sh(cmd, cwd=None, env=None, timeout=None):
    e = dict(os.environ)
    if env:
        e.update(env)
    p = subprocess.run(cmd, cwd=cwd, env=e, capture_output=True, text=True, timeout=timeout)
    return p.returncode, p.stdout, p.stderr


def build_harness():
    """Rebuild the harness against /repo's CURRENT working tree (path dependency), hooks on."""
    env = {"CARGO_NET_OFFLINE": "true", "RUST_BACKTRACE": "0"}
    lock = os.path.join(VERIF, ".cache", "cargo.lock")
    os.makedirs(os.path.dirname(lock), exist_ok=True)
    cmd = ["flock", lock, "cargo", "build", "--release", "--offline", "--quiet"]
    rc, out, err = sh(cmd, cwd=HARNESS_DIR, env=env, timeout=3000)
    return rc == 0, (out + err)[-4000:]


def build_lean(targets):
    lock = os.path.join(VERIF, ".cache", "lake.lock")
    os.makedirs(os.path.dirname(lock), exist_ok=True)
    rc, out, err = sh(["flock", lock, "lake", "build"] + targets, cwd=LEAN_DIR, timeout=3000)
    return rc == 0, (out + err)


def _chunks(xs, n):
    k = max(1, (len(xs) + n - 1) // n)
    return [xs[i:i + k] for i in range(0, len(xs), k)]


CASE_TIMEOUT_S = float(os.environ.get("VJX_CASE_TIMEOUT", "5"))   # one case normally takes milliseconds
MAX_TIMEOUTS_PER_CHUNK = 3
# ... and per run: once this many cases have been shown not to return, the property is decided (C08 reports each of them) and
# isolating further ones only costs a minute apiece (a seeded non-returning type resolution kept a quick check busy for half an
# hour); the remaining cases of chunks that died are reported as not run
MAX_TIMEOUTS_PER_RUN = int(os.environ.get("VJX_MAX_TIMEOUTS", "6"))
_timeouts_seen = [0]
_timeouts_lock = threading.Lock()
# address-space limit of every harness process: a transform that stops returning usually also allocates without bound (18 GB in
# a minute for a seeded change of the type resolver) and sixteen of those in parallel would take the machine down before the
# wall-clock limit fires; under the limit the allocation fails, the process aborts and the case is reported as an abort
CASE_MEM_BYTES = int(float(os.environ.get("VJX_CASE_MEM_GB", "3")) * (1 << 30))


def _limit_mem():
    import resource
    resource.setrlimit(resource.RLIMIT_AS, (CASE_MEM_BYTES, CASE_MEM_BYTES))


def _run_harness_chunk(args):
    mode, cases = args
    inp = "\n".join(json.dumps(c) for c in cases) + "\n"
    env = dict(os.environ, RUST_BACKTRACE="0")
    timed_out = False
    try:
        p = subprocess.run([HARNESS, mode], input=inp.encode("utf-8", "replace"), capture_output=True, env=env,
                           timeout=20 + CASE_TIMEOUT_S + 0.02 * len(cases), preexec_fn=_limit_mem)
        out, rc = p.stdout, p.returncode
    except subprocess.TimeoutExpired as e:
        out, rc, timed_out = (e.stdout or b""), None, True
    recs = []
    for line in [l for l in out.decode("utf-8", "replace").split("\n") if l]:
        try:
            recs.append(json.loads(line))
        except Exception:
            recs.append({"bad_line": line[:200]})
    died = timed_out or rc != 0 or len(recs) != len(cases)
    if died:
        # the process aborted (e.g. native stack overflow) or did not return (a loop): isolate the culprit(s) one case at a
        # time, each under a wall-clock limit; after a few timeouts the rest of the chunk is reported as not run
        recs, n_to = [], 0
        for c in cases:
            if n_to >= MAX_TIMEOUTS_PER_CHUNK or _timeouts_seen[0] >= MAX_TIMEOUTS_PER_RUN:
                recs.append({"id": c.get("id"), "not_run": True})
                continue
            try:
                try:
                    q = subprocess.run([HARNESS, mode], input=(json.dumps(c) + "\n").encode("utf-8", "replace"), capture_output=True,
                                       env=env, timeout=CASE_TIMEOUT_S, preexec_fn=_limit_mem)
                except subprocess.TimeoutExpired:
                    # a loaded machine (other checks, builds) can starve one process for seconds: a case counts as "does not return" only
                    # if it also exceeds a limit no scheduling hiccup explains
                    q = subprocess.run([HARNESS, mode], input=(json.dumps(c) + "\n").encode("utf-8", "replace"), capture_output=True,
                                       env=env, timeout=max(60.0, 12 * CASE_TIMEOUT_S), preexec_fn=_limit_mem)
            except subprocess.TimeoutExpired:
                n_to += 1
                with _timeouts_lock:
                    _timeouts_seen[0] += 1
                recs.append({"id": c.get("id"), "abort": True, "timeout": True, "returncode": None,
                             "stderr": "no result within %.0f s, nor within %.0f s when run again alone (the transform does not return on this input)" % (CASE_TIMEOUT_S, max(60.0, 12 * CASE_TIMEOUT_S))})
                continue
            if q.returncode != 0 or not q.stdout.strip():
                recs.append({"id": c.get("id"), "abort": True, "returncode": q.returncode,
                             "stderr": q.stderr.decode("utf-8", "replace")[-300:]})
            else:
                recs.append(json.loads(q.stdout.decode("utf-8", "replace").split("\n")[0]))
    return recs


def run_harness(cases, mode="run", nproc=NPROC):
    """runs the real code on every case; returns records in order"""
    if not cases:
        return []
    chunks = _chunks(cases, nproc * 2)
    with cf.ThreadPoolExecutor(max_workers=nproc) as ex:
        res = list(ex.map(_run_harness_chunk, [(mode, ch) for ch in chunks]))
    return [r for ch in res for r in ch]


def _run_driver_chunk(args):
    mode, lines = args
    p = subprocess.run([DRIVER] + mode, input=("\n".join(lines) + "\n").encode("utf-8", "replace"), capture_output=True)
    return [l for l in p.stdout.decode("utf-8", "replace").split("\n") if l], p.returncode, p.stderr.decode("utf-8", "replace")[-500:]


def run_driver(lines, mode=None, nproc=NPROC):
    """runs the Lean driver on protocol lines; returns the output lines in order"""
    if not lines:
        return []
    mode = mode or []
    chunks = _chunks(lines, nproc * 2)
    with cf.ThreadPoolExecutor(max_workers=nproc) as ex:
        res = list(ex.map(_run_driver_chunk, [(mode, ch) for ch in chunks]))
    out = []
    for (ls, rc, err), ch in zip(res, chunks):
        if rc != 0 or len(ls) != len(ch):
            raise RuntimeError("driver failed: rc=%s err=%s (%d/%d lines)" % (rc, err, len(ls), len(ch)))
        out.extend(ls)
    return out


def _alpha_chunk(pairs):
    # run in a thread so that the big thread stack (see threading.stack_size above) applies in a spawned worker too
    box = []
    t = threading.Thread(target=lambda: box.append(_alpha_chunk_inner(pairs)))
    t.start(); t.join()
    return box[0]


def _alpha_chunk_inner(pairs):
    out = []
    for c, r in pairs:
        if "in" not in r:
            out.append(None)
        else:
            try:
                out.append(alpha.case_sexpr(c, r))
            except Exception as e:  # alpha must be total; report loudly
                out.append("ERR " + repr(e))
    return out


def to_driver_lines(cases, recs, nproc=NPROC):
    pairs = list(zip(cases, recs))
    chunks = _chunks(pairs, nproc * 2)
    # "spawn": never fork a process that has (or had) worker threads - a forked child can inherit a held lock and hang
    import multiprocessing
    with cf.ProcessPoolExecutor(max_workers=nproc, mp_context=multiprocessing.get_context("spawn")) as ex:
        res = list(ex.map(_alpha_chunk, chunks, timeout=7200))
    return [x for ch in res for x in ch]


def parse_driver_line(line):
    f = line.split("\t")
    d = {"id": f[0], "verdict": f[1] if len(f) > 1 else "?"}
    for x in f[2:]:
        if "=" in x:
            k, v = x.split("=", 1)
            d[k] = v
    return d
