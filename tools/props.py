#!/usr/bin/env python3
"""Per-property registry: Lean theorems, case generators, execution and classification."""
import itertools, json, hashlib, collections, os, re
import runlib, gen, fixtures, alpha
from alpha import enc

PROPS = {}


def h(s):
    return hashlib.sha1(s.encode("utf-8", "replace")).hexdigest()[:16]


# ------------------------------------------------------------------------------------------------------------
# execution
# ------------------------------------------------------------------------------------------------------------

def literal_roundtrip_post(rec, c, r, d):
    """supporting execution (SWC's printer is not modelled): every string literal of the tree the visitor produced must print
    as text that reads back as the SAME value (a stale `raw` spelling copied from JSX source text shows here)"""
    if rec["oracle"] == "ok" and r.get("panic") is None and r.get("str_roundtrip"):
        rt = r["str_roundtrip"]
        rec["oracle"] = "FAIL:printed-string-literal-differs:value in the output tree %r, value the printed text denotes %r" % (rt.get("ast"), rt.get("printed"))


def execute(pid, unit_cases, run_cases, pairs=None):
    P = PROPS[pid]
    records = []
    # ---- unit cases: hooked pure helpers of the real crate vs. the model/spec function
    if unit_cases:
        recs = runlib.run_harness(unit_cases, mode="unit")
        lines, idx = [], []
        # regex validity of every string occurring in an options JSON, answered by the real `regex` crate
        cand = sorted(set(x for c in unit_cases if c["fn"] == "options" for x in json_strings(c["arg"])))
        vrecs = runlib.run_harness([{"id": i, "fn": "regex_valid", "arg": x} for i, x in enumerate(cand)], mode="unit")
        valid = [x for x, r in zip(cand, vrecs) if r.get("res") is True]
        for i, (c, r) in enumerate(zip(unit_cases, recs)):
            if c["fn"] == "options" and "res" in r:
                node = json_node(c["arg"])
                if node is None:
                    records.append(dict(id=c["id"], kind="unit", corr="n/a", oracle="skip:not-json", case=c, sig=h(c["arg"]), nontrivial=False, detail=r))
                    continue
                lines.append("(optunit %s %s (valid%s))" % (enc(render_options(r["res"])), node, "".join(" " + enc(x) for x in valid)))
                idx.append(i)
            elif "res" in r and not isinstance(r["res"], dict):
                res = r["res"]
                if isinstance(res, bool):
                    res = "true" if res else "false"
                lines.append("(unit %s %s %s)" % (enc(c["fn"]), enc(c["arg"]), enc(res)))
                idx.append(i)
            elif "res" in r:
                records.append(P["unit_record"](c, r))
            elif r.get("not_run"):
                records.append(dict(id=c["id"], kind="unit", corr="n/a", oracle="skip:not-run-after-timeouts", case=c, sig=h(c["fn"] + c["arg"]), nontrivial=False, detail=r))
            elif r.get("timeout"):
                records.append(dict(id=c["id"], kind="unit", corr="unit-timeout", oracle="FAIL:does-not-terminate:" + str(r.get("stderr")),
                                    case=c, sig=h(c["fn"] + c["arg"]), nontrivial=True, detail=r))
            else:
                records.append(dict(id=c["id"], kind="unit", corr="unit-panic", oracle="FAIL:panic:" + str(r.get("panic") or r.get("stderr")),
                                    case=c, sig=h(c["fn"] + c["arg"]), nontrivial=True, detail=r))
        outs = runlib.run_driver(lines, mode=[pid])
        for i, o in zip(idx, outs):
            c = unit_cases[i]
            d = runlib.parse_driver_line(o)
            corr = d["verdict"]
            oracle = "ok"
            if corr != "ok":
                # for the string-level helpers the model function IS the specification
                oracle = "FAIL:%s:%s" % (P.get("unit_clause", {}).get(c["fn"], "unit:" + c["fn"]), "impl=%s spec=%s" % (d.get("impl"), d.get("model")))
            records.append(dict(id=c["id"], kind="unit", corr=corr, oracle=oracle, case=c, sig=h(c["fn"] + c["arg"]),
                                nontrivial=P.get("unit_nontrivial", lambda c: True)(c), detail=d))
    # ---- whole-pipeline cases
    if run_cases:
        recs = runlib.run_harness(run_cases, mode="run")
        lines = runlib.to_driver_lines(run_cases, recs)
        idx = [i for i, l in enumerate(lines) if l and not l.startswith("ERR")]
        outs = runlib.run_driver([lines[i] for i in idx], mode=[pid])
        dmap = dict(zip(idx, outs))
        for i, (c, r) in enumerate(zip(run_cases, recs)):
            sig = h(c["src"] + json.dumps(c.get("opts"), sort_keys=True))
            if r.get("not_run"):
                records.append(dict(id=c["id"], kind="run", corr="n/a", oracle="skip:not-run-after-timeouts", case=c, sig=sig, nontrivial=False, detail=r))
                continue
            if r.get("abort"):
                what = "does-not-terminate" if r.get("timeout") else "process-abort"
                records.append(dict(id=c["id"], kind="run", corr="impl-timeout" if r.get("timeout") else "impl-abort",
                                    oracle=("FAIL:%s:exit %s %s" % (what, r.get("returncode"), (r.get("stderr") or "")[-120:].replace("\n", " "))) if pid == "C08" else "skip:abort",
                                    case=c, sig=sig, nontrivial=True, detail=r))
                continue
            if "parse_error" in r or "opts_error" in r or "bad_line" in r:
                records.append(dict(id=c["id"], kind="run", corr="n/a", oracle="skip:" + ("parse" if "parse_error" in r else "opts"),
                                    case=c, sig=sig, nontrivial=False, detail={k: r[k] for k in r if k != "id"}))
                continue
            if lines[i] and lines[i].startswith("ERR"):
                records.append(dict(id=c["id"], kind="run", corr="alpha-error", oracle="skip:alpha", case=c, sig=sig,
                                    nontrivial=False, detail=lines[i]))
                continue
            d = runlib.parse_driver_line(dmap[i])
            corr = d["verdict"]
            oracle = d.get("oracle", "ok")
            extra = P.get("post")
            rec = dict(id=c["id"], kind="run", corr=corr, oracle=oracle, case=c, sig=sig,
                       nontrivial=(P["nontrivial"](c, r) if "nontrivial" in P else
                                   (r.get("raw_printed") is not None and "_create" in (r.get("raw_printed") or "")) or bool(r.get("diags")) or bool(r.get("panic"))),
                       detail={k: v for k, v in d.items() if k not in ("id",)},
                       impl={"printed": r.get("printed"), "diags": r.get("diags"), "panic": r.get("panic"), "reparse_ok": r.get("reparse_ok"),
                             "same_twice": r.get("same_twice")})
            if extra:
                extra(rec, c, r, d)
            records.append(rec)
        # ---- pair oracles: two runs of the implementation on related cases
        byid = {c["id"]: (c, r) for c, r in zip(run_cases, recs)}
        plines, pmeta = [], []
        feat_cache = {}
        for pr in (pairs or []):
            (ca, ra), (cb, rb) = byid[pr["a"]], byid[pr["b"]]
            if pr.get("requires_not"):
                if pr["a"] not in feat_cache:
                    feat_cache[pr["a"]] = ast_features(ra.get("in")) if "in" in ra else {"*"}
                fs = feat_cache[pr["a"]]
                if "*" in fs or pr["requires_not"] in fs or (pr["requires_not"] == "pattern-match" and rb.get("patmatch_ident", rb.get("patmatch"))):
                    continue
            if "out" not in ra or "out" not in rb:
                if ("out" in ra) != ("out" in rb) and not ("parse_error" in ra or "parse_error" in rb):
                    records.append(dict(id=pr["id"], kind="pair", corr="n/a", oracle="FAIL:%s:one run produced output, the other did not" % pr["mode"],
                                        case={"a": ca, "b": cb, "mode": pr["mode"]}, sig=h(pr["id"]), nontrivial=True, detail={}))
                continue
            plines.append(alpha.pair_sexpr(pr["id"], pr["mode"], ca, ra, rb))
            pmeta.append((pr, ca, cb, ra, rb))
        for (pr, ca, cb, ra, rb), o in zip(pmeta, runlib.run_driver(plines, mode=[pid])):
            d = runlib.parse_driver_line(o)
            orc = d.get("oracle", "ok")
            if pr["mode"] == "same" and orc.startswith("FAIL") and (ra.get("diags") != rb.get("diags")):
                pass
            records.append(dict(id=pr["id"], kind="pair", corr="n/a", oracle=orc, case={"a": ca, "b": cb, "mode": pr["mode"]},
                                sig=h(ca["src"] + json.dumps(ca.get("opts"), sort_keys=True) + json.dumps(cb.get("opts"), sort_keys=True)),
                                nontrivial="_create" in (ra.get("raw_printed") or ""), detail=d,
                                impl={"printed_a": ra.get("printed"), "printed_b": rb.get("printed")}))
        if "extra" in P:
            P["extra"](run_cases, recs, records)
        # ---- follow-up cases derived from the first phase (e.g. every output fed back as input)
        if "followup" in P:
            fcases = P["followup"](run_cases, recs)
            frecs = runlib.run_harness(fcases, mode="run")
            flines, fmeta = [], []
            for c, r in zip(fcases, frecs):
                if "in" in r and "out" in r:
                    flines.append(alpha.self_pair_sexpr(c["id"], "same", c, r))
                    fmeta.append((c, r))
                elif "parse_error" in r:
                    records.append(dict(id=c["id"], kind="run", corr="n/a",
                                        oracle=("FAIL:output-does-not-reparse:" + str(r["parse_error"])[:80]) if P.get("followup_parse_is_failure") else "skip:parse",
                                        case=c, sig=h(c["src"]), nontrivial=False, detail=r))
            for (c, r), o in zip(fmeta, runlib.run_driver(flines, mode=[pid])):
                d = runlib.parse_driver_line(o)
                orc = d.get("oracle", "ok")
                if orc.startswith("FAIL:same"):
                    orc = orc.replace("FAIL:same", "FAIL:" + P.get("followup_clause", "not-idempotent"), 1)
                records.append(dict(id=c["id"], kind="run", corr="n/a", oracle=orc, case=c, sig=h(c["src"] + json.dumps(c.get("opts"), sort_keys=True)),
                                    nontrivial=True, detail=d, impl={"printed": r.get("printed"), "diags": r.get("diags")}))
    return {"records": records}


def ast_features(m):
    """which option-governed features a module uses (conservative: over-approximates use); from SWC's AST JSON"""
    fs = set()
    def attr_name(a):
        n = a.get("name", {})
        if n.get("type") == "JSXNamespacedName":
            return n["namespace"]["value"] + ":" + n["name"]["value"]
        return n.get("value", "")
    def walk(v):
        if isinstance(v, dict):
            t = v.get("type")
            if t == "JSXOpeningElement":
                names = []
                special = False
                for a in v.get("attributes", []):
                    if a.get("type") == "SpreadElement":
                        fs.add("spread-or-repeat")
                    else:
                        nm = attr_name(a)
                        names.append(nm)
                        if nm in ("on", "nativeOn"):
                            fs.add("on")
                        low = nm.lower()
                        if low.startswith("v-") or (len(nm) > 1 and nm[0] == "v" and nm[1].isupper()):
                            special = True
                if len(names) != len(set(names)) or (special and len(names) >= 2) or "v-models" in names:
                    fs.add("spread-or-repeat")
            if t == "JSXElement":
                kids = [c for c in v.get("children", [])
                        if not (c.get("type") == "JSXText" and c.get("value", "").strip(" \t\r\n") == "")
                        and not (c.get("type") == "JSXExpressionContainer" and c.get("expression", {}).get("type") == "JSXEmptyExpression")]
                if len(kids) <= 1 and any(c.get("type") == "JSXExpressionContainer" and c.get("expression", {}).get("type") in ("Identifier", "CallExpression") for c in v.get("children", [])):
                    fs.add("sole-ident-or-call")
            if t == "CallExpression":
                cal = v.get("callee", {})
                if cal.get("type") == "Identifier" and cal.get("value") == "defineComponent":
                    fs.add("defineComponent")
            for x in v.values():
                walk(x)
        elif isinstance(v, list):
            for x in v:
                walk(x)
    walk(m)
    return fs


def json_strings(text):
    try:
        v = json.loads(text)
    except Exception:
        return []
    out = []
    def walk(x):
        if isinstance(x, str):
            out.append(x)
        elif isinstance(x, list):
            for y in x:
                walk(y)
        elif isinstance(x, dict):
            for y in x.values():
                walk(y)
    walk(v)
    return out


def json_node(text):
    """JSON text -> S-expression of VueJsx.Json (object entries in order, duplicates kept)"""
    try:
        v = json.loads(text, object_pairs_hook=lambda kvs: ("__obj__", kvs))
    except Exception:
        return None
    def conv(x):
        if x is None:
            return "(jnull)"
        if isinstance(x, bool):
            return "(jbool %s)" % enc(x)
        if isinstance(x, (int, float)):
            return "(jnum %s)" % enc(repr(x))
        if isinstance(x, str):
            return "(jstr %s)" % enc(x) if x else "(jstr)"
        if isinstance(x, tuple) and len(x) == 2 and x[0] == "__obj__":
            return "(jobj" + "".join(" (kv %s %s)" % (enc(k), conv(val)) for k, val in x[1]) + ")"
        if isinstance(x, list):
            return "(jarr" + "".join(" " + conv(y) for y in x) + ")"
        raise ValueError(x)
    return conv(v)


def render_options(res):
    """same rendering as Main.lean: renderOptions"""
    if res.get("error"):
        return "error"
    b = lambda x: "true" if x else "false"
    pr = "none" if res["pragma"] is None else "(some %s)" % res["pragma"]
    return "%s %s [%s] %s %s %s %s" % (b(res["transformOn"]), b(res["optimize"]), ", ".join(res["customElementPatterns"]),
                                      b(res["mergeProps"]), b(res["enableObjectSlots"]), pr, b(res["resolveType"]))


def search_failing(pid, corr_breaks, tier, seed, known_here):
    """the correspondence broke but the oracle was silent: widen the search (fresh seed, larger budget,
    the property's enumerators one step deeper) and evaluate the oracle on the implementation's output"""
    P = PROPS[pid]
    unit_cases, run_cases, info = P["cases"]("search", seed + 7919)
    res = execute(pid, unit_cases, run_cases, info.get("pairs"))
    keys = set(k["key"] for k in known_here)
    return [r for r in res["records"] if r["oracle"].startswith("FAIL:") and r["oracle"].split(":", 2)[1] not in keys]


def fixture_cases(filter_fn=None):
    cs = fixtures.cases()
    if filter_fn:
        cs = [c for c in cs if filter_fn(c)]
    return cs


def corpus_cases(pid):
    """minimised past failures / finding witnesses kept under corpus/<pid>/*.json (run first)"""
    d = os.path.join(runlib.VERIF, "corpus", pid)
    out = []
    if os.path.isdir(d):
        for f in sorted(os.listdir(d)):
            if f.endswith(".json"):
                c = json.load(open(os.path.join(d, f)))
                for x in (c if isinstance(c, list) else [c]):
                    out.append(x)
    return out


def budget(tier, quick, thorough, search=None):
    return {"quick": quick, "thorough": thorough, "search": search if search is not None else quick * 5}[tier]


def strings_upto(alphabet, n):
    for k in range(n + 1):
        for t in itertools.product(alphabet, repeat=k):
            yield "".join(t)


# ------------------------------------------------------------------------------------------------------------
# C02
# ------------------------------------------------------------------------------------------------------------
TEXT_ALPHABET = [" ", "\t", "\n", "\r", " ", " ", "a", "b"]


def c02_cases(tier, seed):
    r = gen.Rng(seed)
    n_exh = budget(tier, 5, 7, 6)
    unit = []
    for s in strings_upto(TEXT_ALPHABET, n_exh):
        unit.append({"id": "t%d" % len(unit), "fn": "transform_text", "arg": s})
    n_rand = budget(tier, 3000, 100000)
    alpha2 = TEXT_ALPHABET + ["\r\n", "  ", "c", "&", " ", "　", "é", "\n  "]
    for i in range(n_rand):
        s = "".join(r.pick(alpha2) for _ in range(r.below(24)))
        unit.append({"id": "r%d" % i, "fn": "transform_text", "arg": s})
    # whole pipeline: text in every child position
    run = corpus_cases("C02") + fixture_cases()
    hist = collections.Counter()
    texts = ["foo ", " foo", "a b", "a\n  b", "\n  a\n", " \n ", "  ", "a&nbsp;", "&nbsp;", "a\tb", "a\r\nb", "a\rb", " x\n", "x  \ny"]
    for i, (t1, t2) in enumerate(itertools.product(texts, repeat=2)):
        if tier == "quick" and i % 3:
            continue
        for host in ["div", "Comp", "", "pre", "textarea", "KeepAlive", "my-el", "NS.Item"][:3 if (tier == "quick" and i % 2) else 8]:
            o, c = ("<%s>" % host, "</%s>" % host)
            src = gen.PRELUDE + "const v = %s%s{x}%s<i/>{}%s;\n" % (o, t1, t2, c)
            run.append({"id": "p%d" % len(run), "src": src, "tsx": False, "opts": {"optimize": bool(i % 2)}})
    # whole pipeline, exhaustive: every string over the whitespace alphabet as a JSX text child (what transform_jsx_text and its
    # callers do with it, not only util::transform_text)
    n_pipe = budget(tier, 3, 4, 4)
    pipe_alpha = [" ", "\n", "\r", "\u00a0", "\u2003", "\u3000", "a", "\t"]
    for s_ in strings_upto(pipe_alpha, n_pipe):
        if not s_:
            continue
        for shape in ["<div>%s</div>", "<Comp>{x}%s{y}</Comp>", "<>%s<i/></>", "<pre>%s<code>%s</code></pre>", "<textarea>%s</textarea>", "<script>%s</script>", "<svg><text>%s</text></svg>"]:
            if "%s<code>" in shape:
                shape = shape.replace("%s", "%(s)s") % {"s": s_.replace("%", "%%")}
                run.append({"id": "w%d" % len(run), "src": gen.PRELUDE + "const v = " + shape + ";\n", "tsx": False, "opts": {}})
                continue
            run.append({"id": "w%d" % len(run), "src": gen.PRELUDE + "const v = " + (shape % s_) + ";\n", "tsx": False, "opts": {}})
    n_mod = budget(tier, 1500, 40000)
    for i in range(n_mod):
        g = gen.Gen(r, {"children": {"text": 8, "expr": 3, "ident": 2, "call": 1, "empty": 2, "comment": 1, "spread": 2,
                                     "element": 4, "fragment": 2, "fn": 0, "objlit": 0},
                        "attr_values": {"string": 3, "none": 1, "expr": 3, "const": 1, "string-ws": 4, "jsx": 1, "empty": 0},
                        "w_directive": 0})
        src = g.module()
        hist.update(g.used)
        run.append({"id": "m%d" % i, "src": src, "tsx": False, "opts": gen.opts_random(r)})
    return unit, run, {
        "rule": "unit: ALL strings of length <= %d over {space, tab, LF, CR, NBSP, U+2003, a, b} through the hook verif_hooks::transform_text "
                "+ %d random strings (also CRLF, U+2028, U+3000, entities' targets); pipeline: fixtures + text x text x 8-host products + ALL strings of length <= %d over {space, LF, CR, NBSP, U+2003, U+3000, a, tab} as a text child in 7 positions (incl. under pre, textarea, script, svg text hosts) + %d generated modules; "
                "non-trivial = the implementation produced vnode calls; distinct = distinct (source, options) / distinct string" % (n_exh, n_rand, n_pipe, n_mod),
        "exhaustive": True,
        "exhaustive_part": "strings of length <= %d over the 8-symbol alphabet (unit correspondence of transform_text)" % n_exh,
        "histogram": dict(hist.most_common(40))}


PROPS["C02"] = {
    "theorems": ["C02_text_inline", "C02_text_preserves_nonws", "C02_text_no_break_out", "C02_children_skip_empty_text",
                 "C02_children_skip_empty_expr", "C02_no_children_null", "C02_children_array",
                 "splitLines_glue", "cleanText_glue", "toLines_spec", "C02_text_is_the_jsx_rule", "C02_children_in_order"],
    "extra_modules": ["VueJsx.Props.C02b"],
    "cases": c02_cases,
    "post": literal_roundtrip_post,
    "unit_clause": {"transform_text": "text-cleaning"},
    "projection": "unit: transform_text(s) vs cleanText(s); pipeline: whole output modulo renaming of generated identifiers",
    "explanation": "cleanText (Lean) is the JSX text rule; theorems hold for all strings; the Rust transform_text is compared with it exhaustively on short strings and on random ones; the oracle checks that the multiset of cleaned non-empty JSX texts of the input equals the createTextVNode arguments of the real output",
}


# ------------------------------------------------------------------------------------------------------------
# generic module-level generation
# ------------------------------------------------------------------------------------------------------------

def gen_modules(r, n, profile, opts_fn, prefix="m", tsx=False):
    hist = collections.Counter()
    out = []
    for i in range(n):
        g = gen.Gen(r, dict(profile))
        src = g.module()
        hist.update(g.used)
        out.append({"id": "%s%d" % (prefix, i), "src": src, "tsx": tsx, "opts": opts_fn(r)})
    return out, hist


def std_opts(r):
    o = gen.opts_random(r)
    if r.chance(0.3):
        # patterns that match lower-case custom elements, capitalised names (bound and unbound), underscore names and member properties
        o["customElementPatterns"] = r.pick([["^x-", "custom"], ["^Unk", "^my-"], ["^Comp$", "Item$", "^_x-"], ["^[A-Z]", "^x-"], ["."], ["^NS$", "^Foo$", "div"]])
    if r.chance(0.08):
        o["pragma"] = "h"
    return o


ALL_TAGS = {"html": 5, "svg": 1, "custom": 2, "bound": 4, "unbound": 2, "member": 2, "this": 1, "ns": 0, "Fragment": 1, "_Fragment": 1, "KeepAlive": 1}

# ---- C01 ---------------------------------------------------------------------------------------------------
ATTR_ALPHABET = ['id="a"', 'id={x}', 'flag', 'class="a b"', 'class={cls}', 'style={obj}', 'onClick={fn1}', 'onClick={handler}',
                 'xlink:href="u"', '{...obj}', '{...{id: 1, title: y}}', '{...f()}', 'on={{click: fn1}}', 'title="t "']


def c01_cases(tier, seed):
    r = gen.Rng(seed)
    run = corpus_cases("C01") + fixture_cases()
    k = budget(tier, 2, 3, 3)
    optsets = [{}, {"mergeProps": False}, {"transformOn": True}, {"transformOn": True, "mergeProps": False}, {"optimize": True, "customElementPatterns": ["^my-"]}]
    n_exh = 0
    for n in range(0, k + 1):
        for combo in itertools.product(ATTR_ALPHABET, repeat=n):
            for ti, tag in enumerate(["div", "Comp", "my-el", "Unk", "NS.Item"]):
                if n == 3 and ti > 1:
                    continue
                for oi, o in enumerate(optsets):
                    if n >= 2 and (oi + ti + len(run)) % (3 if tier != "thorough" else 1):
                        continue
                    run.append({"id": "e%d" % len(run), "src": gen.PRELUDE + "const v = <%s %s/>;\n" % (tag, " ".join(combo)), "tsx": False, "opts": o})
                    n_exh += 1
    prof = {"tags": ALL_TAGS, "w_directive": 0, "w_spread": 3, "w_repeat": 2,
            "attr_names": {"plain": 6, "class": 3, "style": 2, "key": 1, "ref": 1, "onClick": 2, "on": 2, "ns": 1, "onUpdate": 1, "model-like": 1, "on-obj": 2},
            "attr_values": {"string": 4, "none": 2, "expr": 6, "const": 3, "string-ws": 2, "jsx": 1, "empty": 0},
            "n_attrs": [(0, 1), (1, 3), (2, 4), (3, 3), (4, 2), (6, 1)]}
    mods, hist = gen_modules(r, budget(tier, 2500, 60000), prof, std_opts)
    run += mods
    return [], run, {"rule": "fixtures + attribute sequences of length <= %d over a 14-symbol attribute alphabet x 5 hosts x 5 option sets (%d cases; length-%d part sampled 1/3 unless thorough) + %d generated modules (all tag forms, static/boolean/expression/namespaced attributes, spreads of ident/object literal/call, repeated class/style/listeners, on/nativeOn, random options incl. customElementPatterns and pragma); non-trivial = vnode calls produced" % (k, n_exh, k, len(mods)),
                     "exhaustive": False, "histogram": dict(hist.most_common(40))}


PROPS["C01"] = {
    "theorems": ["C01_tag_known", "C01_tag_fragment", "C01_tag_pattern", "C01_tag_unresolved", "C01_tag_bound", "C01_tag_member", "C01_tag_member_shape",
                 "C01_valueless_true", "C01_string_value_cleaned", "C01_expr_value", "C01_spread_plain", "C01_spread_merge",
                 "C01_no_attrs", "C01_assemble_merge", "C01_tag_member_hyphen", "C01_tag_member_quiet", "C01_tag_member_object_reported",
                 "C01_plain_attrs_exactly_written", "attrStep_plain_kv", "C01_plain_element_props_object"],
    "extra_modules": ["VueJsx.Props.C01b"],
    "cases": c01_cases,
    "post": literal_roundtrip_post,
    "explanation": "oracle: for every JSX element of the input, the vnode type and the props normal form (Sem.normOps: Vue mergeProps / plain last-wins semantics, class/style/listener concatenation) DENOTED by the written attributes equal those EVALUATED from the real output's createVNode arguments (mergeProps calls, deduplicated literals, _transformOn layers); elements with v-model are judged by C05",
}

# ---- C03 ---------------------------------------------------------------------------------------------------
CHILD_SHAPES = ["", "{val}", "{x}", "{f()}", "{obj.m(1)}", "{() => 1}", "{function () { return 1 }}", "{{ a: fn1 }}", "text", "<i/>", "{x}{y}", "{...list}",
                "{cond ? a : b}", "  \n  ", "{/* c */}", "<></>", "{val} "]
VSLOTS = ["", " v-slots={slotsObj}", " v-slots={{ named: () => 1 }}", " v-slots={x}"]
CTXS = ["const v = %s;", "function f() { return %s; }", "const r = () => %s;", "for (const i of list) { out.push(%s); }", "class K { m(a = 1) { return %s; } }", "let w; w = %s;"]


def c03_cases(tier, seed):
    r = gen.Rng(seed)
    run = corpus_cases("C03") + fixture_cases()
    hosts = ["Comp", "Unk", "NS.Item", "this.C", "KeepAlive", "Fragment", "div"]
    n_exh = 0
    for host, ch, vs, ci in itertools.product(hosts, CHILD_SHAPES, VSLOTS, range(len(CTXS))):
        if tier == "quick" and (n_exh + ci) % 4 and ci > 0:
            n_exh += 1
            continue
        n_exh += 1
        for o in ([{}, {"enableObjectSlots": False}, {"optimize": True}] if ci == 0 else [{"optimize": bool(n_exh % 2)}]):
            run.append({"id": "e%d" % len(run), "src": gen.PRELUDE + CTXS[ci] % ("<%s%s>%s</%s>" % (host, vs, ch, host)) + "\n", "tsx": False, "opts": o})
    # user variables that carry the names of generated temporaries / helpers and were ASSIGNED before the element (the visitor remembers
    # the last assignment target by name when it decides about captured copies)
    for pre, host, ch, vs in itertools.product(["let _slot; _slot = 1;", "var _slot2, _isSlot; _slot2 = _isSlot = 0;", "let _slot; _slot = 1; const u0 = <Foo>{f()}</Foo>;",
                                                "let f2; f2 = fn1;", "let _createVNode; _createVNode = 1;"],
                                               ["Comp", "Unk"], ["{f()}", "{obj.m(1)}", "{val}", "{f()}{x}", "{_slot}"], ["", " v-slots={slotsObj}"]):
        if "_slot}" in ch and "_slot" not in pre:
            continue
        run.append({"id": "e%d" % len(run), "src": gen.PRELUDE + pre + "\nconst v = <%s%s>%s</%s>;\n" % (host, vs, ch, host), "tsx": False,
                    "opts": {"optimize": bool(len(run) % 2)}})
    # SEVERAL call children in one statement list: temporaries pending for the list itself and nested functions / concise arrows / blocks with
    # temporaries of their own, in every order (where a temporary is DECLARED decides what a lazily read slot sees)
    ths = gen.temp_histories(tier)
    for k, c in enumerate(ths):
        run.append({"id": c["id"], "src": c["src"], "tsx": False, "opts": [{}, {"optimize": True}, {"enableObjectSlots": False}, {"optimize": True, "transformOn": True}][k % 4 if k % 7 else 2]})
    prof = {"tags": {"bound": 5, "unbound": 3, "member": 2, "this": 1, "html": 2, "KeepAlive": 1, "Fragment": 1, "_Fragment": 1, "custom": 1},
            "w_directive": 1, "directives": {"slots": 5, "show": 1, "custom": 1},
            "children": {"text": 3, "expr": 3, "ident": 5, "call": 5, "empty": 1, "comment": 1, "spread": 1, "element": 4, "fragment": 1, "fn": 2, "objlit": 2},
            "n_children": [(0, 2), (1, 8), (2, 2), (3, 1)],
            "contexts": {"expr-stmt": 3, "const": 3, "fn-body": 2, "arrow-expr": 3, "arrow-block": 2, "assign": 2, "nested-block": 1, "class-method": 1, "export-default": 1, "loop": 2}}
    mods, hist = gen_modules(r, budget(tier, 2500, 60000), prof, std_opts)
    run += mods
    return [], run, {"rule": "fixtures + product of 7 hosts x 17 child shapes x 4 v-slots forms x 6 syntactic contexts (x option sets; contexts other than the first sampled 1/4 in quick) + %d histories of temporaries (5 statements leaving a temporary pending x 16 nested scopes with call children of their own [concise arrows as callback / scoped-slot child / v-slots entry / with a parameter default / nested / async / object property, block arrows, functions, blocks, loops, methods] x 7 kinds of statement list x 8 orders; python-side clause: a slot temporary is declared inside the innermost function that evaluates its call child) + %d generated modules biased to component hosts with a sole identifier/call/function/object child" % (len(ths), len(mods)),
                     "exhaustive": tier != "quick", "exhaustive_part": "hosts x child shapes x v-slots forms x contexts product", "histogram": dict(hist.most_common(40))}


def _is_fn_like(n):
    """a node with parameters and a body of its own (arrow, function, method, accessor, constructor, static block; the `function` record of a class method)"""
    if n.get("type") == "CatchClause" or "body" not in n:
        return False
    return "params" in n or "param" in n or n.get("type") in ("GetterProperty", "StaticBlock")


def slot_temporary_scopes(out, loops=True):
    """for every temporary assigned inside a generated `_isSlot(t = <call child>)`: (name, is a declaration of that binding located in the body of the
    innermost USER-written function whose body evaluates the assignment?).  Generated functions (`default: () => [...]`) are transparent; parameter
    positions belong to the enclosing function (a default value is evaluated per call of the function, the visitor leaves its temporary to the
    enclosing list: the recorded design property of hoisted temporaries)."""
    assigned, declared = {}, collections.defaultdict(set)
    LOOPS = ("ForStatement", "ForInStatement", "ForOfStatement", "WhileStatement", "DoWhileStatement")
    def walk(n, fn):
        if isinstance(n, list):
            for x in n:
                walk(x, fn)
            return
        if not isinstance(n, dict):
            return
        t = n.get("type")
        if t == "CallExpression" and _dummy_span(n) and (n.get("callee") or {}).get("type") == "Identifier" and str(n["callee"].get("value", "")).startswith("_isSlot"):
            a = (n.get("arguments") or [{}])[0].get("expression") or {}
            left = a.get("left") or {}
            while left.get("type") == "ParenthesisExpression":
                left = left.get("expression") or {}
            if a.get("type") == "AssignmentExpression" and left.get("type") == "Identifier":
                assigned.setdefault((left.get("value"), left.get("ctxt")), []).append(fn)
        if t == "VariableDeclarator" and (n.get("id") or {}).get("type") == "Identifier":
            declared[(n["id"].get("value"), n["id"].get("ctxt"))].add(fn)
        if _is_fn_like(n) and not _dummy_span(n):
            for k, v in n.items():
                walk(v, id(n) if k == "body" else fn)
            return
        if loops and t in LOOPS:
            # the body (and the per-iteration parts) of a loop is a region of its own: one binding per ITERATION is needed
            for k, v in n.items():
                walk(v, fn if k in ("init", "left", "right") else ("loop", id(n)))
            return
        if loops and t == "ClassProperty":
            for k, v in n.items():
                walk(v, ("field", id(n)) if k == "value" else fn)
            return
        for v in n.values():
            walk(v, fn)
    walk(out, 0)
    return [(key[0], all(fn in declared.get(key, ()) for fn in fns),
             sorted({fn[0] for fn in fns if isinstance(fn, tuple) and fn not in declared.get(key, ())}))
            for key, fns in sorted(assigned.items(), key=lambda kv: str(kv[0]))]


def c03_post(rec, c, r, d):
    """python-side clause (binding identity and declaration placement are not in Oracle.slotsJudge's normal form): the wrapped branch of a sole call
    child reads its temporary LAZILY (`default: () => [_slot]`, when the component renders), so the temporary must be a binding of the innermost
    function invocation that evaluated the call - declared inside that function's body, not in a function / module around it, where all invocations
    (list rendering, scoped slot functions) would share one binding and every slot would show the value of the last call"""
    if os.environ.get("VJX_NO_PY_CLAUSES"):
        return
    if rec["oracle"] != "ok" or "out" not in r or r.get("panic") is not None:
        return
    scopes = slot_temporary_scopes(r["out"])
    bad = [name for name, ok, _ in scopes if not ok]
    if bad:
        kinds = sorted({k for _, ok, ks in scopes if not ok for k in ks})
        only_regions = all(ks for _, ok, ks in scopes if not ok) and not [1 for name, ok, _ in slot_temporary_scopes(r["out"], loops=False) if not ok]
        if only_regions:
            # the recorded design-level finding: a loop body without braces / a class field initialiser has no statement list of its own
            rec["oracle"] = ("FAIL:slot-temporary-shared-between-%s:the temporaries %s of call children are declared outside the %s that evaluates the call once per "
                             "iteration / instance (the lazily read default slots then all see the LAST value)") % ("-and-".join(kinds), bad, " / ".join(kinds))
        else:
            rec["oracle"] = "FAIL:slot-temporary-shared-between-invocations:the temporaries %s of call children are declared outside the innermost user-written function that evaluates the call (its lazily read default slot then sees the value of the LAST invocation)" % bad


PROPS["C03"] = {
    "post": c03_post,
    "theorems": ["C03_no_children", "C03_multiple_wrapped", "C03_wrap_shape", "C03_wrap_vslots_literal", "C03_function_child", "C03_function_child_keeps_vslots", "C03_vslots_any_expression",
                 "C03_object_child", "C03_ident_runtime", "C03_ident_disabled", "C03_call_once", "C03_generated_call_wrapped", "C03_helper"],
    "cases": c03_cases,
    "explanation": "oracle: for every component host the slots normal form denoted by the written children (default thunk in order / function child / object child / runtime decision for a sole identifier or call / v-slots entries beside default) equals the one evaluated from the real output's third createVNode argument, temporaries substituted (a call child must be assigned exactly once inside the _isSlot test)",
}

# ---- C04 ---------------------------------------------------------------------------------------------------
DIR_NAMES = ["v-foo", "vFoo", "v-my-dir", "vMyDir", "v-foo:arg", "v-foo_a", "v-foo_a_b", "vFooBar_m", "v-x:y_m_n", "v-show", "vShow", "v-html", "vHtml", "v-text", "vText",
             "v-visible", "vValidate_lazy", "v-viewport:top_once", "v-v", "v-on-x", "vV", "v-slotted", "vTextual", "v-htmlx", "v-model-x"]
DIR_VALUES = ["={x}", "={[x]}", "={[x, 'arg']}", "={[x, ['m1', 'm2']]}", "={[x, 'arg', ['m']]}", "={[x, y]}", "={[x, y, ['m']]}", '="lit"', "={f(1)}", "={obj.a}",
              # string-literal values whose source text is not a JavaScript string literal: backslash, entity, the other quote, a line break
              '="a\\"', '="a&amp;b"', "='q\"q'", '="l1\nl2"', '="&quot;"', '="\\n"']


def c04_cases(tier, seed):
    r = gen.Rng(seed)
    run = corpus_cases("C04") + fixture_cases()
    for name, val, host, nb in itertools.product(DIR_NAMES, DIR_VALUES, ["div", "Comp", "input"], ["", ' id="a"', " {...obj}", " v-show={y} class={cls}"]):
        if tier == "quick" and (len(run) % 2):
            run.append(None)
            continue
        run.append({"id": "e%d" % len(run), "src": gen.PRELUDE + "const v = <%s%s %s%s>t{x}</%s>;\n" % (host, nb, name, val, host), "tsx": False,
                    "opts": {"optimize": bool(len(run) % 3 == 0), "mergeProps": len(run) % 5 != 0}})
    run = [c for c in run if c]
    # directives around an attribute whose value is a bare element / fragment (the attribute fold re-enters the element transform)
    for host, before, val, after in itertools.product(["div", "Comp", "A.B"], ["", "v-foo={x}", "v-show={y} v-bar:arg_m={a}", "v-model={val}"],
                                                      ['<i class="x"/>', "<span v-inner={b}/>", "<></>", "<>t<b v-in={c}/></>", "{<i v-w={x}/>}"], ["", "v-after={c}", "v-show={z}"]):
        run.append({"id": "e%d" % len(run), "src": gen.PRELUDE + "const v = <%s %s icon=%s %s/>;\n" % (host, before, val, after), "tsx": False,
                    "opts": {"optimize": bool(len(run) % 2), "mergeProps": len(run) % 3 != 0}})
    prof = {"tags": ALL_TAGS, "w_directive": 6, "directives": {"custom": 5, "show": 2, "html": 2, "text": 2, "model": 1, "models": 0, "slots": 1}}
    mods, hist = gen_modules(r, budget(tier, 2500, 60000), prof, std_opts)
    run += mods
    return [], run, {"rule": "fixtures + product of 25 directive spellings (incl. names that start with v, -, or with a built-in directive's name) x 10 value shapes x 3 hosts x 4 neighbourhoods (sampled 1/2 in quick) + 180 modules with directives before/after an element- or fragment-valued attribute + %d generated modules rich in directives" % len(mods),
                     "exhaustive": tier != "quick", "exhaustive_part": "spellings x value shapes x hosts x neighbourhoods product", "histogram": dict(hist.most_common(40))}


PROPS["C04"] = {
    "theorems": ["C04_name_first_letter_only", "C04_plain_name_no_argument", "C04_namespaced_argument", "C04_show_is_vShow",
                 "C04_custom_resolved_by_name", "C04_expression_value", "C04_array_argument_keeps_suffix_modifiers", "C04_frame", "C04_html_sets_innerHTML", "C04_text_sets_textContent",
                 "C04_one_binding_per_directive_in_order", "C04_element_bindings", "C04_binding_count",
                 "C04_bindings_depend_on_own_attribute_only", "C04_element_complete_bindings"],
    "extra_modules": ["VueJsx.Props.C04b"],
    "cases": c04_cases,
    "post": literal_roundtrip_post,
    "explanation": "oracle: the runtime directive bindings (definition, value, argument, modifiers) denoted by every v-name/vName attribute equal those evaluated from the second argument of withDirectives in the real output; absent values, empty arrays and holes are outside the quantifier (C07/C08)",
}

# ---- C05 ---------------------------------------------------------------------------------------------------
MODEL_NAMES = ["v-model", "vModel", "v-model:foo", "v-model_trim", "v-model:foo_lazy", "v-model_a_b"]
MODEL_VALUES = ["={[T, 'my_arg']}", "={[T, 'a_b_c', ['m']]}", "={T}", "={[T]}", "={[T, 'arg']}", "={[T, ['lazy']]}", "={[T, 'arg', ['m']]}", "={[T, x]}", "={[T, x, ['m']]}"]
MODEL_HOSTS = ["input", 'input type="checkbox"', 'input type="radio"', 'input type="text"', "input type={t}", 'input type={"checkbox"}', "input type={'radio'}", "input type", "select", "textarea", "div", "Comp", "Unk", "NS.Item"]


C05_COMPUTED = ["v-model={[a1, dyn]}", "v-model={[a1, dyn, ['m']]}", "v-model_trim={[a1, dyn]}", "v-models={[[a1, dyn]]}", "v-models={[[a1, dyn], [b2, 'bar']]}",
                "v-models={[[a1, dyn, ['m']], [b2, dyn2]]}", "v-model={[a1, 'arg']}", "v-model:baz={a1}"]
C05_REPEATS = [("class={cls}", 'class="s"'), ("style={obj}", "style={x}"), ("onClick={fn1}", "onClick={handler}"), ("onUpdate:foo={log}", "v-model:foo={b1}"),
               ("v-model:foo={b1}", "onUpdate:foo={log}"), ("onUpdate:modelValue={log}", "v-models={[[c1]]}"), ("onUpdate:qux={log}", "v-models={[[b1, 'qux', ['m']]]}"),
               ("onInput={fn1}", "title=\"t\" onInput={[handler]}")]
C05_ARRANGE = ["C R1 R2", "R1 C R2", "R1 R2 C", "C id=\"a\" R1 title={y} R2"]


def c05_cases(tier, seed):
    r = gen.Rng(seed)
    run = corpus_cases("C05") + fixture_cases()
    for name, val, host, tgt in itertools.product(MODEL_NAMES, MODEL_VALUES, MODEL_HOSTS, ["val", "obj.a", "list[0]"]):
        if tier == "quick" and tgt != "val" and len(run) % 3:
            run.append(None)
            continue
        tag = host.split(" ")[0]
        run.append({"id": "e%d" % len(run), "src": gen.PRELUDE + "const v = <%s %s%s></%s>;\n" % (host, name, val.replace("T", tgt), tag), "tsx": False,
                    "opts": {"optimize": bool(len(run) % 2), "mergeProps": len(run) % 3 != 0}})
    for host in ["Comp", "input", "div"]:
        for models in ["[[val, 'a'], [x, ['m']], [obj.b]]", "[[val]]", "[[val, 'a', ['m']], [x, y]]", "[]", "[[val, 'my_arg']]", "[[val, 'a_b', ['m']], [x, 'c_']]"]:
            for rest in ["", ' id="a"', " v-model={z}"]:
                run.append({"id": "e%d" % len(run), "src": gen.PRELUDE + "const v = <%s v-models={%s}%s/>;\n" % (host, models, rest), "tsx": False, "opts": {}})
    run = [c for c in run if c]
    # props with a NON-string key (computed v-model argument, with and without modifiers, as v-model and as a v-models entry) before, between
    # and after attributes whose names repeat and are merged (class, style, listeners, a hand-written onUpdate:<name> beside the v-model of
    # that name), on every host kind, mergeProps on and off
    n_seq = 0
    for ci, comp in enumerate(C05_COMPUTED):
        for ri, (r1, r2) in enumerate(C05_REPEATS):
            if "v-models" in comp and "v-models" in r1 + r2:
                continue
            for ai, arr in enumerate(C05_ARRANGE):
                for hi, host in enumerate(["Comp", "Unk", "NS.Item", "KeepAlive", "div", "input"]):
                    for oi, o in enumerate([{}, {"mergeProps": False}, {"optimize": True}, {"optimize": True, "mergeProps": False, "transformOn": True}]):
                        if hi and (ci + ri + ai + hi + oi) % 4:
                            continue
                        n_seq += 1
                        attrs = arr.replace("R1", r1).replace("R2", r2).replace("C", comp)
                        run.append({"id": "seq%d" % n_seq, "src": gen.PRELUDE + "let a1, b1, c1, b2;\nconst v = <%s %s>{x}</%s>;\n" % (host, attrs, host), "tsx": False, "opts": o})
    prof = {"tags": {"html": 6, "bound": 4, "unbound": 2, "member": 1, "custom": 1}, "w_directive": 6,
            "directives": {"model": 8, "models": 3, "show": 1, "custom": 1}}
    mods, hist = gen_modules(r, budget(tier, 2500, 60000), prof, std_opts)
    run += mods
    return [], run, {"rule": "fixtures + product of 6 v-model spellings x 7 value/argument/modifier forms x 14 hosts x 3 targets (targets other than identifier sampled 1/3 in quick) + v-models lists x hosts + %d attribute sequences (8 v-model forms with computed / static arguments x 8 repeated mergeable names incl. a hand-written onUpdate listener beside the v-model of that name x 4 arrangements x 6 hosts x mergeProps/optimize) + %d generated modules rich in v-model(s); cases failing under the recorded computed-argument finding are judged again with that deviation undone" % (n_seq, len(mods)),
                     "exhaustive": tier != "quick", "exhaustive_part": "spellings x forms x hosts x targets product", "histogram": dict(hist.most_common(40))}


def _undo_known_computed_listener_key(node):
    """copy of an output AST in which every computed key `"onUpdate" + e` reads `"onUpdate:" + e` (the recorded finding
    v-model/vmodel-computed-arg, undone)"""
    if isinstance(node, list):
        return [_undo_known_computed_listener_key(x) for x in node]
    if not isinstance(node, dict):
        return node
    out = {k: _undo_known_computed_listener_key(v) for k, v in node.items()}
    if out.get("type") == "Computed":
        e = out.get("expression") or {}
        if e.get("type") == "BinaryExpression" and e.get("operator") == "+" and (e.get("left") or {}).get("type") == "StringLiteral" \
                and e["left"].get("value") == "onUpdate":
            e["left"]["value"] = "onUpdate:"
            e["left"].pop("raw", None)
    return out


def _spread_beside_model(node):
    """does some element carry a spread attribute together with a v-model(s) attribute?  (the output then holds the computed-key props inside a
    mergeProps argument, which Sem.evalOut reads as an object-literal spread while Sem.denote keeps them as a segment: not comparable)"""
    if isinstance(node, list):
        return any(_spread_beside_model(x) for x in node)
    if not isinstance(node, dict):
        return False
    if node.get("type") == "JSXOpeningElement":
        attrs = node.get("attributes", [])
        names = [(a.get("name") or {}).get("value", "") or ((a.get("name") or {}).get("namespace") or {}).get("value", "") for a in attrs if a.get("type") != "SpreadElement"]
        if any(a.get("type") == "SpreadElement" for a in attrs) and any(n.lower().replace("-", "").startswith("vmodel") for n in names):
            return True
    return any(_spread_beside_model(v) for v in node.values())


def c05_extra(run_cases, recs, records):
    """the recorded finding `vmodel-computed-arg` (listener key without the colon) is keyed by an INPUT feature, so it would hide any other
    defect of an element that has a computed v-model argument (and of every element after it in the module: the judge reports the first
    failing element).  Every case failing under that key is judged a second time on the real output with exactly that deviation undone;
    what still fails there is a different failure and gets its own key."""
    byid = {r["id"]: r for r in records}
    sel = []
    for c, r in zip(run_cases, recs):
        rec = byid.get(c["id"])
        if rec is not None and rec["kind"] == "run" and rec["oracle"].startswith("FAIL:v-model/vmodel-computed-arg:") and "out" in r and "in" in r \
                and not _spread_beside_model(r["in"]):
            r2 = dict(r)
            r2["out"] = _undo_known_computed_listener_key(r["out"])
            sel.append((c, r2, rec))
    if not sel:
        return
    lines = runlib.to_driver_lines([c for c, _, _ in sel], [r2 for _, r2, _ in sel])
    outs = runlib.run_driver(lines, mode=["C05"])
    for (c, r2, rec), o in zip(sel, outs):
        d = runlib.parse_driver_line(o)
        orc = d.get("oracle", "ok")
        if orc.startswith("FAIL:v-model/vmodel-computed-arg:"):
            rec["oracle"] = orc.replace("FAIL:v-model/vmodel-computed-arg:", "FAIL:v-model/beyond-the-recorded-computed-arg-key:", 1)
        elif orc.startswith("FAIL:") and not orc.startswith("FAIL:v-model/vmodel-arg-on-element:"):
            rec["oracle"] = orc


PROPS["C05"] = {
    "extra": c05_extra,
    "theorems": ["C05_select", "C05_textarea", "C05_input_checkbox", "C05_input_radio", "C05_input_other_static", "C05_input_no_type",
                 "C05_input_dynamic_type", "C05_listener_assigns_target", "C05_component_default", "C05_component_modifiers",
                 "C05_component_static_arg", "C05_element_binding", "C05_models_sequence", "C05_models_entry_plain", "C05_models_entry_any", "C05_models_entry_underscore", "C05_array_argument_keeps_suffix_modifiers", "C05_unassignable_target_reported", "C05_eval_arguments_not_targets", "C05_spec_assignable_is_the_models"],
    "cases": c05_cases,
    "explanation": "oracle: on every element carrying v-model(s) the denoted props (value prop, modifiers prop, onUpdate listener assigning to the target) and directive bindings (vModelText/Checkbox/Radio/Select/Dynamic by host and type) equal those evaluated from the real output; v-models is expanded to the same-order v-model sequence in the denotation",
}


# ---- C12 ---------------------------------------------------------------------------------------------------
GENERAL_PROFILE = {"tags": ALL_TAGS, "w_directive": 3, "w_spread": 2, "w_repeat": 1,
                   "attr_names": {"plain": 6, "class": 3, "style": 2, "key": 1, "ref": 1, "onClick": 2, "on": 2, "ns": 1, "onUpdate": 1, "model-like": 1, "on-obj": 1},
                   "children": {"text": 4, "expr": 4, "ident": 4, "call": 3, "empty": 1, "comment": 1, "spread": 1, "element": 5, "fragment": 1, "fn": 1, "objlit": 1}}


def paired_option_cases(r, n, profile, flip, base_opts_fn, prefix):
    """each generated module twice: options equal except for `flip` (a dict of overrides for the B run)"""
    run, pairs = [], []
    hist = collections.Counter()
    for i in range(n):
        g = gen.Gen(r, dict(profile))
        src = g.module()
        hist.update(g.used)
        oa = base_opts_fn(r)
        ob = dict(oa)
        ob.update(flip(oa))
        a = {"id": "%s%da" % (prefix, i), "src": src, "tsx": False, "opts": oa}
        b = {"id": "%s%db" % (prefix, i), "src": src, "tsx": False, "opts": ob}
        run += [a, b]
        pairs.append({"id": "%s%d" % (prefix, i), "a": a["id"], "b": b["id"]})
    return run, pairs, hist


def c12_cases(tier, seed):
    r = gen.Rng(seed)
    run, pairs = [], []
    for c in corpus_cases("C12") + fixture_cases(lambda c: not (c["opts"] or {}).get("resolveType")):
        oa = dict(c["opts"] or {}); oa["optimize"] = True
        ob = dict(oa); ob["optimize"] = False
        a = dict(c, id=c["id"] + ":opt", opts=oa); b = dict(c, id=c["id"] + ":noopt", opts=ob)
        run += [a, b]; pairs.append({"id": c["id"], "mode": "c12", "a": a["id"], "b": b["id"]})
    # a sole child behind every syntactic wrapper (parentheses, sequence, TS non-null / as / satisfies / angle-free casts)
    wi = 0
    for host in ["Comp", "div", "NS.Item", "KeepAlive", ""]:
        for wrap in ["(%s)", "((%s))", "%s!", "%s as any", "(%s as any)", "%s satisfies object", "(0, %s)", "%s!!", "<any>%s" if False else "(%s)!"]:
            for inner in ["val", "f()", "() => 1", "{ default: () => 1 }", "obj.a", "slotsObj", "undefined"]:
                for eos in (True, False):
                    wi += 1
                    oc = ("<%s>" % host, "</%s>" % host)
                    src = gen.PRELUDE + "const v = %s{%s}%s;\n" % (oc[0], wrap % inner, oc[1])
                    oa = {"optimize": True, "enableObjectSlots": eos}; ob = dict(oa, optimize=False)
                    a = {"id": "wr%d:opt" % wi, "src": src, "tsx": True, "opts": oa}; b = {"id": "wr%d:noopt" % wi, "src": src, "tsx": True, "opts": ob}
                    run += [a, b]; pairs.append({"id": "wr%d" % wi, "mode": "c12", "a": a["id"], "b": b["id"]})
    def base(rr):
        o = std_opts(rr); o["optimize"] = True; return o
    hist = collections.Counter()
    for k, prof in enumerate([GENERAL_PROFILE, PROPS_PROFILES["C03"], PROPS_PROFILES["C05"], PROPS_PROFILES["C01"]]):
        rr, pp, hh = paired_option_cases(r, budget(tier, 600, 15000), prof, lambda oa: {"optimize": False}, base, "g%d_" % k)
        for p in pp:
            p["mode"] = "c12"
        run += rr; pairs += pp; hist.update(hh)
    return [], run, {"rule": "every fixture, 5 hosts x 9 syntactic wrappers of a sole child (parentheses, sequence, TS non-null, as, satisfies) x 7 inner expressions x enableObjectSlots, and %d generated modules (general, component/slots-heavy, v-model-heavy, attribute-heavy grammars; random settings of the other options incl. pragma and customElementPatterns) are run through the REAL visitor under optimize=true and optimize=false; the oracle erases arguments 4-5 of vnode calls and the trailing `_` entry of slot objects from the optimize=true output and requires equality (modulo renaming of generated identifiers)" % (len(pairs)),
                     "pairs": pairs, "histogram": dict(hist.most_common(40))}


PROPS_PROFILES = {
    "C01": {"tags": ALL_TAGS, "w_directive": 0, "w_spread": 3, "w_repeat": 2,
            "attr_names": {"plain": 6, "class": 3, "style": 2, "key": 1, "ref": 1, "onClick": 2, "on": 2, "ns": 1, "onUpdate": 1, "model-like": 1, "on-obj": 2}},
    "C03": {"tags": {"bound": 5, "unbound": 3, "member": 2, "this": 1, "html": 2, "KeepAlive": 1, "Fragment": 1, "_Fragment": 1, "custom": 1},
            "w_directive": 1, "directives": {"slots": 5, "show": 1, "custom": 1},
            "children": {"text": 3, "expr": 3, "ident": 5, "call": 5, "empty": 1, "comment": 1, "spread": 1, "element": 4, "fragment": 1, "fn": 2, "objlit": 2,
                         "wrapped": 3, "member": 2},
            "n_children": [(0, 2), (1, 8), (2, 2), (3, 1)]},
    "C05": {"tags": {"html": 6, "bound": 4, "unbound": 2, "member": 1, "custom": 1}, "w_directive": 6,
            "directives": {"model": 8, "models": 3, "show": 1, "custom": 1}},
}

PROPS["C12"] = {
    "theorems": ["C12_attrs_blind", "C12_assemble_blind", "C12_wrap_adds_only_hint", "C12_hint_entry", "C12_erase_wrap", "C12_stack_untouched_when_off", "C12_push_pop_balanced",
                 # the whole-module theorem (Props/C12b.lean) and the simulation lemmas it rests on
                 "C12_module_hints_only", "C12_module_same_diagnostics", "C12_element_hints_only", "C12_rel_same_root",
                 "transformModule_rel", "visit_rel", "trElement_rel", "trFragment_rel", "finishChildren_rel", "attrStep_rel", "parseDirective_rel",
                 "dedupeProps_rel", "isConstant_rel", "exprHook_rel", "kindHook_rel", "openingHook_rel", "drainInto_rel", "drainArrow_rel", "finishModule_rel"],
    "extra_modules": ["VueJsx.Props.C12b"],
    "cases": c12_cases,
    "explanation": "pair oracle on the implementation: eraseHints(output under optimize=true) = output under optimize=false, syntactically, hence under every semantics",
}


# ---- C13 ---------------------------------------------------------------------------------------------------
C13_VALUES = ['="s"', "", "={1}", "={[1, 's']}", "={{a: 1}}", "={x}", "={() => 1}", "={[x]}"]
C13_NAMES = ["class", "style", "key", "ref", "onClick", "onInput", "onUpdate:modelValue", "title", "xlink:href", "on"]
# names by what `dedupe_props` / mergeProps do with a repetition: dropped (plain), concatenated (class, style, listeners), and names that merely START with
# `on` (not listeners for Vue: `on` + lower-case letter, `on` itself, `on-x`) or look like the special ones
C13_REPEAT_NAMES = ["title", "id", "class", "style", "onClick", "onUpdate:modelValue", "once", "only", "online", "on", "on-x", "onboarding", "key", "ref", "modelValue",
                    "xlink:href", "data-x", "classes", "styles", "On", "innerHTML"]
C13_SPECIAL = ["{...obj}", "{...{a: x}}", "v-model={[val, x]}", "v-model={val}", "v-foo={x}", "v-show={x}", "v-html={x}", "v-text={x}", "on={{click: fn1}}", "nativeOn={x}"]


def c13_cases(tier, seed):
    r = gen.Rng(seed)
    run = corpus_cases("C13") + fixture_cases()
    alphabet = [n + v for n in C13_NAMES for v in C13_VALUES] + C13_SPECIAL       # 90 symbols
    kmax = budget(tier, 2, 3, 3)
    n_exh = 0
    for host in ["div", "Comp"]:
        for k in range(0, kmax + 1):
            combos = itertools.combinations_with_replacement(range(len(alphabet)), k)
            for ci, combo in enumerate(combos):
                if k == 3 and (ci % (40 if tier != "thorough" else 3)):
                    continue
                if k == 2 and tier == "quick" and ci % 2:
                    continue
                attrs = [alphabet[i] for i in combo]
                if r.chance(0.5):
                    attrs = attrs[::-1]
                o = {"optimize": True}
                if ci % 3 == 1:
                    o["transformOn"] = True
                if ci % 5 == 2:
                    o["mergeProps"] = False
                run.append({"id": "e%d" % len(run), "src": gen.PRELUDE + "const v = <%s %s/>;\n" % (host, " ".join(attrs)), "tsx": False, "opts": o})
                n_exh += 1
    # one name written TWICE in a segment (what happens to the second occurrence - dropped, merged into an array, kept - depends on the name), first / second
    # value constant or dynamic, with something between them and with another source of a positive flag beside them
    rep_vals = [('="s"', "={x}"), ("={x}", '="s"'), ("={[1, 's']}", "={[x]}"), ("", "={() => 1}"), ("={undefined}", "={y}"), ("={x}", "={y}"), ("={{a: 1}}", "={1}"), ('="s"', "={cls}")]
    n_rep = 0
    for ni, name in enumerate(C13_REPEAT_NAMES):
        for vi, (v1, v2) in enumerate(rep_vals):
            for bi, between in enumerate(["", " id={y}", " {...obj}", " on={{click: fn1}}"]):
                for ki, comp in enumerate(["", " title2={z}", " class={cls}", " style={obj} key={k}"]):
                    for hi, host in enumerate(["div", "Comp"]):
                        n_rep += 1
                        if tier == "quick" and bi and (ni + vi + bi + ki + hi) % 4:
                            continue
                        o = {"optimize": True}
                        if (vi + ki) % 4 == 3:
                            o["mergeProps"] = False
                        if bi == 3 or (ni + ki) % 5 == 0:
                            o["transformOn"] = (ni + vi) % 2 == 0
                        attrs = "%s%s%s %s%s%s" % (name, v1, between, name, v2, comp)
                        if hi:
                            attrs = comp.strip() + " " + "%s%s%s %s%s" % (name, v1, between, name, v2)
                        run.append({"id": "rp%d" % n_rep, "src": gen.PRELUDE + "const v = <%s %s/>;\n" % (host, attrs), "tsx": False, "opts": o})
    # nested component trees for slot flags
    leafs = ["{val}", "{x}", "{f()}", "text", "<i/>", "{...list}", "{...y}", "{cls}{x}", ""]
    for d1, d2, d3 in itertools.product(leafs, repeat=3):
        src = gen.PRELUDE + "const v = <Comp>%s<Foo>%s<Bar>%s</Bar></Foo>{<Unk>{obj}</Unk>}</Comp>;\n" % (d1, d2, d3)
        run.append({"id": "n%d" % len(run), "src": src, "tsx": False, "opts": {"optimize": True, "enableObjectSlots": len(run) % 2 == 0}})
    def o13(rr):
        o = std_opts(rr); o["optimize"] = True; return o
    mods, hist = gen_modules(r, budget(tier, 2000, 50000), GENERAL_PROFILE, o13)
    run += mods
    return [], run, {"rule": "fixtures + attribute multisets of size <= %d over a 90-symbol alphabet ({class,style,key,ref,onClick,onInput,onUpdate:modelValue,title,xlink:href,on} x {static,boolean,constant literal/array/object,dynamic expr/arrow/array} + spread, object-literal spread, computed-key v-model, v-model, directive, v-show, v-html, v-text, transformOn on/nativeOn) x element/component (%d cases; size 2 sampled 1/2 in quick, size 3 sampled) + repeated names: 21 names (dropped / concatenated on repetition, real listeners, names that merely start with `on`, look-alikes of class / style / key) written twice x 8 constant-dynamic value pairs x 4 things in between (nothing, attribute, spread, transformOn object) x 4 companions giving a positive flag x element/component [sampled 1/4 in quick beyond nothing-in-between] + 729 nested component trees for slot flags + %d generated modules, all under optimize=true" % (kmax, n_exh, len(mods)),
                     "exhaustive": False, "exhaustive_part": "all multisets of size <= 1 (quick) / <= 2 (thorough)", "histogram": dict(hist.most_common(40))}


def _closed_literal(v, unresolved=None):
    """Oracle.specConst on SWC's JSON: a value that cannot differ between renders (`undefined` only when it is the GLOBAL one: unresolved context)"""
    t = (v or {}).get("type")
    if t in ("StringLiteral", "NumericLiteral", "BooleanLiteral", "NullLiteral", "BigIntLiteral", "RegExpLiteral"):
        return True
    if t == "Identifier":
        return v.get("value") == "undefined" and (unresolved is None or v.get("ctxt") == unresolved)
    if t == "ArrayExpression":
        return all(e is not None and not e.get("spread") and _closed_literal(e.get("expression"), unresolved) for e in v.get("elements", []))
    if t == "ObjectExpression":
        return all(p.get("type") == "KeyValueProperty" and (p.get("key") or {}).get("type") != "Computed" and _closed_literal(p.get("value"), unresolved) for p in v.get("properties", []))
    return False


def uncovered_props(out, unresolved=None):
    """the cover clause of C13 read off the REAL output alone, for every generated vnode call whose props are an object literal with static keys only
    and whose flag lacks FULL_PROPS: [(prop, flag, dynamic-prop list)] for props whose value can change and that neither the flag (CLASS / STYLE on
    elements) nor PROPS + the list covers.  Unlike Oracle.c13Pair it needs no denotation of the input, so it also judges elements that are outside
    the domain of the props denotation (a name written twice: whether the second occurrence is dropped or merged is the implementation's choice)"""
    bad = []
    def walk(n):
        if isinstance(n, list):
            for x in n:
                walk(x)
            return
        if not isinstance(n, dict):
            return
        if n.get("type") == "CallExpression" and _dummy_span(n):
            args = [a.get("expression") or {} for a in n.get("arguments", []) if not a.get("spread")]
            if len(args) >= 4 and len(args) == len(n.get("arguments", [])) and args[3].get("type") == "NumericLiteral" and args[1].get("type") == "ObjectExpression":
                f = int(args[3].get("value") or 0)
                props = args[1].get("properties", [])
                keys = [_key_text(p.get("key")) if p.get("type") == "KeyValueProperty" and (p.get("key") or {}).get("type") in ("StringLiteral", "Identifier") else None for p in props]
                dyn = [(_e.get("expression") or {}).get("value") for _e in (args[4].get("elements", []) if len(args) > 4 and args[4].get("type") == "ArrayExpression" else []) if _e]
                if f > 0 and not (f // 16) % 2 and all(k is not None for k in keys):
                    for k, p in zip(keys, props):
                        if k in ("key", "ref") or _closed_literal(p.get("value"), unresolved):
                            continue
                        # (which hosts count as elements for CLASS / STYLE is the denotation's business: either cover is accepted here)
                        covered = (k == "class" and (f // 2) % 2 == 1) or (k == "style" and (f // 4) % 2 == 1) or (k in dyn and (f // 8) % 2 == 1)
                        if not covered:
                            bad.append((k, f, dyn))
        for v in n.values():
            walk(v)
    walk(out)
    return bad


def c13_post(rec, c, r, d):
    if os.environ.get("VJX_NO_PY_CLAUSES"):
        return
    if rec["oracle"] != "ok" or "out" not in r or r.get("panic") is not None or not (c.get("opts") or {}).get("optimize"):
        return
    bad = uncovered_props(r["out"], r.get("unresolved_ctxt"))
    if bad:
        k, f, dyn = bad[0]
        rec["oracle"] = "FAIL:uncovered-prop:prop %s of a generated vnode call can change between renders but flag %d / dynamic props %r do not cover it (read off the real output)" % (k, f, dyn)


PROPS["C13"] = {
    "post": c13_post,
    "theorems": ["C13_flags_allowed", "C13_dynamic_keys_full", "C13_need_patch", "C13_spread_sets_dynamic_keys",
                 "C13_transformOn_sets_dynamic_keys", "C13_plain_monotone", "C13_plain_cover", "C13_plain_cover_component",
                 "C13_props_bit", "C13_class_style_bits", "C13_slot_flag_range", "C13_stack_invariant_push",
                 "C13_stack_invariant_fill", "C13_fill_marks_all", "attrStep_mono", "trAttrs_mono", "trAttrs_append", "C13_cover_whole_element", "C13_cover_whole_element_flag", "C13_computed_key_not_constant", "C13_only_global_undefined_is_constant", "C13_cover_vhtml", "C13_cover_vtext", "C13_cover_vmodel", "vmodelStep_listener"],
    "extra_modules": ["VueJsx.Props.C13b"],
    "cases": c13_cases,
    "explanation": "oracle: the clauses of the statement evaluated on every vnode call of the real output (flag is a union of element-level bits; without FULL_PROPS every non-constant prop except key/ref is covered by CLASS/STYLE on elements or by PROPS + the dynamic-prop list; spread/merged/computed-key props imply FULL_PROPS or no flag; the dynamic-prop list names present props only; ref/directive never with HYDRATE_EVENTS alone; `_` is 1 or 2, and 2 when a direct child - of that slot or of one reached by direct JSX nesting - is an identifier bound in the file; no hint without optimize)",
}



# ---- C14 ---------------------------------------------------------------------------------------------------
C14_PAT_POOL = ["(?i)^x-", "^my", "(?x) ^zz- # trailing comment", "^ion-", "(?i:^k-)btn", "el$", "(?U)^a+$", "(?s)^q.r$", "^p-(?i)pan", "^my btn", "(?m)^w$", "^X-|Y$", "(?-u:^b)",
                "[A-Z]{4}"]
C14_TAG_POOL = ["MyButton", "Mybtn", "mybtn", "my-btn", "X-Foo", "x-foo", "Ion-Icon", "ion-icon", "ZZ-top", "zz-top", "K-BTN", "k-btn", "PanEL", "panel", "AAA", "aaa", "QxR", "P-Pan",
                "p-pan", "W", "x-Y", "Unk", "BBBB", "Btn", "comment"]
C14_TAG_SHAPES = ["<T class={cls}>{x}</T>", "<T v-model={val}>{x}{y}</T>", "<T id=\"a\">{f()}</T>"]


def c14_cases(tier, seed):
    r = gen.Rng(seed)
    unit = []
    keys = ["transformOn", "optimize", "mergeProps", "enableObjectSlots", "resolveType"]
    # every subset of the boolean keys present, with every value, x pragma absent/null/name x pattern lists
    prag = [None, "null", '"h"']
    pats = [None, "[]", '["^x-"]', '["^x-", "custom"]', '["("]', '["a", "[z"]']
    for mask in range(3 ** 5):
        parts = []
        m = mask
        for k in keys:
            d = m % 3; m //= 3
            if d:
                parts.append('"%s": %s' % (k, "true" if d == 1 else "false"))
        for pi, p in enumerate(prag):
            for qi, q in enumerate(pats):
                if tier == "quick" and (mask + pi + qi) % 4 and (pi or qi):
                    continue
                ps = list(parts)
                if p is not None:
                    ps.append('"pragma": %s' % p)
                if q is not None:
                    ps.append('"customElementPatterns": %s' % q)
                if (mask + pi) % 2:
                    ps = ps[::-1]
                unit.append({"id": "o%d" % len(unit), "fn": "options", "arg": "{" + ", ".join(ps) + "}"})
    odd = ['null', '[]', '[true]', '[true, false, ["a"], false, false, "h", true]', '[true, false, ["a"], false, false, "h", true, 1]', '"x"', '1', 'true',
           '{"optimize": 1}', '{"optimize": "true"}', '{"optimize": null}', '{"mergeProps": null}', '{"pragma": 1}', '{"pragma": ["h"]}',
           '{"customElementPatterns": null}', '{"customElementPatterns": "a"}', '{"customElementPatterns": [1]}', '{"customElementPatterns": [null]}',
           '{"transform_on": true}', '{"TransformOn": true}', '{"foo": 1}', '{"foo": {"optimize": true}}', '{"optimize": true, "optimize": false}',
           '{"foo": 1, "foo": 2}', '{"optimize": true, "extra": [1, 2, {"a": null}], "mergeProps": false}', '{"pragma": "h", "pragma": "g"}',
           '{"resolveType": true, "unknownOption": "x"}', '{"": true}', '{"customElementPatterns": ["\\\\d+", "a|b", "(?i)x"]}', '{"customElementPatterns": ["(?<n>a)", "a{2,1}"]}']
    for t in odd:
        unit.append({"id": "q%d" % len(unit), "fn": "options", "arg": t})
    # non-interference pairs on the real code
    run, pairs = [], []
    hist = collections.Counter()
    flips = [("transformOn", "on"), ("mergeProps", "spread-or-repeat"), ("enableObjectSlots", "sole-ident-or-call"),
             ("resolveType", "defineComponent"), ("customElementPatterns", "pattern-match")]
    srcs = [(c["id"], c["src"], c["tsx"]) for c in corpus_cases("C14") + fixture_cases()]
    for k, prof in enumerate([GENERAL_PROFILE, PROPS_PROFILES["C01"], PROPS_PROFILES["C03"]]):
        for i in range(budget(tier, 350, 9000)):
            g = gen.Gen(r, dict(prof)); src = g.module(); hist.update(g.used)
            srcs.append(("g%d_%d" % (k, i), src, False))
    for sid, src, tsx in srcs:
        # the base setting ranges over ALL combinations of the other options
        base = {k: r.chance(0.5) for k in ("transformOn", "optimize", "mergeProps", "enableObjectSlots")}
        if tsx:
            base["resolveType"] = r.chance(0.5)
        if r.chance(0.15):
            base["pragma"] = "h"
        a = {"id": sid + ":base", "src": src, "tsx": tsx, "opts": base}
        run.append(a)
        for key, feat in flips:
            ob = dict(base)
            if key == "customElementPatterns":
                ob[key] = ["^zz-", "^Unk$", "^x-"]
            else:
                ob[key] = not base.get(key, False)
            b = {"id": sid + ":" + key, "src": src, "tsx": tsx, "opts": ob}
            run.append(b)
            pairs.append({"id": sid + "/" + key, "mode": "same", "a": a["id"], "b": b["id"], "requires_not": feat})
    # pattern LISTS: every ordered pair (and sampled triples) over a pool of patterns with inline flags ((?i), (?x), (?s), (?U), (?m), scoped
    # groups, flags set in the middle), top-level alternations and classes; the module holds every tag of a pool of spellings (case variants,
    # hyphenated, capitalised) that NO pattern of the list matches - asked of the real regex crate, one pattern at a time, by a probe run
    lists = [[p] for p in C14_PAT_POOL] + [[p, q] for p in C14_PAT_POOL for q in C14_PAT_POOL if p != q]
    trip = [[p, q, s] for p in C14_PAT_POOL for q in C14_PAT_POOL for s in C14_PAT_POOL if len({p, q, s}) == 3]
    lists += [t for i, t in enumerate(trip) if i % (29 if tier == "quick" else 3) == 0]
    all_tags_src = gen.PRELUDE + "".join("const p%d = <%s/>;\n" % (i, t) for i, t in enumerate(C14_TAG_POOL))
    probes = runlib.run_harness([{"id": "probe%d" % i, "src": all_tags_src, "tsx": False, "opts": {"customElementPatterns": L}} for i, L in enumerate(lists)], mode="run")
    n_lists = 0
    for li, (L, pr) in enumerate(zip(lists, probes)):
        if "patmatch_ident" not in pr:
            continue
        free = [t for t in C14_TAG_POOL if t not in pr["patmatch_ident"]]
        if not free:
            continue
        n_lists += 1
        shape = C14_TAG_SHAPES[li % len(C14_TAG_SHAPES)]
        src = gen.PRELUDE + "".join("const t%d = %s;\n" % (i, shape.replace("T", t)) for i, t in enumerate(free))
        base = {k: r.chance(0.5) for k in ("transformOn", "optimize", "mergeProps", "enableObjectSlots")}
        a = {"id": "pl%d:base" % li, "src": src, "tsx": False, "opts": base}
        b = {"id": "pl%d:pats" % li, "src": src, "tsx": False, "opts": dict(base, customElementPatterns=L)}
        run += [a, b]
        pairs.append({"id": "pl%d/customElementPatterns" % li, "mode": "same", "a": a["id"], "b": b["id"], "requires_not": "pattern-match"})
    return unit, run, {"rule": "pattern lists: %d lists (singles, ALL ordered pairs and sampled triples over 14 patterns with inline flags, scoped flags, verbose mode, top-level alternation) against a module of the tag spellings no pattern of the list matches (real regex crate, per pattern), with and without the list; unit: serde_json::from_str::<Options> exactly as plugin/src/lib.rs does, vs. the Lean parseOptions, on %d JSON texts (3^5 presence/value combinations of the boolean keys x pragma absent/null/name x pattern lists incl. invalid regexes [sampled 1/4 in quick beyond the first], key order varied, + wrong types, null, arrays, unknown/duplicate keys); pairs: every fixture and %d generated modules under a base option set and with each of transformOn/mergeProps/enableObjectSlots/resolveType/customElementPatterns flipped; a pair is judged (outputs must be identical) when the module does not use the governed feature (conservative syntactic classification of the parsed input)" % (n_lists, len(unit), len(srcs)),
                      "pairs": pairs, "histogram": dict(hist.most_common(30))}


PROPS["C14"] = {
    "theorems": ["C14_defaults", "C14_setField_frame", "C14_unknown_key_ignored", "C14_absent_keeps", "C14_invalid_pattern_rejected",
                 "C14_transformOn_only_on", "C14_transformOn_spread", "C14_objectSlots_only_sole_ident_or_call", "C14_patterns_only_matched_tags", "C14_no_option_matters_without_jsx", "C14_resolveType_only_defineComponent", "C14_patterns_only_matched_namespaced_tags"],
    "cases": c14_cases,
    "unit_clause": {"options": "options-parse"},
    "trusted_extra": ["JSON text -> JSON value parsing (Python's json for the model side, serde_json for the implementation) is trusted; regex validity is answered by the real regex crate"],
    "explanation": "unit correspondence = oracle for option parsing (the Lean parseOptions is the documented-defaults specification); pair oracle for non-interference on the real code",
}


# ---- C15 ---------------------------------------------------------------------------------------------------
ANNOT_TEXTS = ["@jsx h", " @jsx  h ", "* @jsx h", "*  @jsx custom.h", "@jsx h extra words", "@jsxImportSource vue", "@jsxRuntime classic", "@jsxFrag F",
               "@jsx", "@jsx ", "just a comment", "x @jsx h", "@JSX h", "* @jsxImportSource @vue/x", "@jsx\th", "@jsx h*/ /* @jsx k",
               # every JavaScript identifier is a factory name: `$`, `_`, digits after the first character, non-ASCII letters
               "@jsx $h", "@jsx cr\u00e9er", "@jsx _$a.b$", "@jsx h2", "@jsx $",
               # member chains: property names may be reserved words, the object may be `this`
               "@jsx h.default", "@jsx this.h", "@jsx a.class.new", "@jsx default.h", "@jsx this"]


def comment(style, text):
    if style == "block":
        return "/*%s*/" % text
    if style == "jsdoc":
        return "/**%s*/" % (text if text.startswith(" ") else " " + text + " ")
    if style == "jsdoc-ml":      # the usual multi-line JSDoc layout: the annotation on a line of its own
        return "/**\n * %s\n */" % text.replace("*/", "")
    if style == "jsdoc-ml2":     # ... after a description line
        return "/**\n * Component file.\n * %s\n * more text\n */" % text.replace("*/", "")
    if style == "block-ml":
        return "/*\r\n%s\r\n*/" % text.replace("*/", "")
    return "//%s\n" % text.replace("*/", "").replace("/*", "")


def c15_cases(tier, seed):
    r = gen.Rng(seed)
    run = corpus_cases("C15") + fixture_cases()
    body = ["const a = <div>{x}</div>;", "function f() { INNER return <><Comp/><p>t</p></>; }", "const b = <Comp v-show={y}>{val}</Comp>;", "export default () => <></>;"]
    for text, style, place, opt in itertools.product(ANNOT_TEXTS, ["block", "line", "jsdoc", "jsdoc-ml", "jsdoc-ml2", "block-ml"], ["head", "second", "inner", "tail", "two"], [None, "g", "$g", "\u00e9l\u00e9ment", "create$.el_1"]):
        c = comment(style, text)
        stmts = list(body)
        if place == "head":
            src = c + "\n" + "\n".join(stmts)
        elif place == "second":
            src = stmts[0] + "\n" + c + "\n" + "\n".join(stmts[1:])
        elif place == "inner":
            src = "\n".join(stmts).replace("INNER", c)
        elif place == "tail":
            src = "\n".join(stmts) + "\n" + c
        else:  # an earlier and a later annotation: the later one wins
            src = comment(style, "@jsx first") + "\n" + stmts[0] + "\n" + c + "\n" + "\n".join(stmts[1:])
        src = src.replace("INNER", "")
        o = {} if opt is None else {"pragma": opt}
        if len(run) % 3 == 0:
            o["optimize"] = True
        run.append({"id": "e%d" % len(run), "src": gen.PRELUDE + src + "\n", "tsx": False, "opts": o})
    # several leading comments at ONE position: the first that is a `@jsx <name>` annotation counts, the others are skipped
    for t1, t2 in itertools.product(ANNOT_TEXTS, repeat=2):
        for place in ("head", "second"):
            if tier == "quick" and (len(run) % 2):
                run.append(None); continue
            st1, st2 = (["block", "jsdoc", "line"][len(run) % 3], ["jsdoc", "block", "line"][len(run) % 3])
            cc = comment(st1, t1) + "\n" + comment(st2, t2)
            src = (cc + "\n" + "\n".join(body)) if place == "head" else (body[0] + "\n" + cc + "\n" + "\n".join(body[1:]))
            run.append({"id": "mc%d" % len(run), "src": gen.PRELUDE + src.replace("INNER", "") + "\n", "tsx": False, "opts": {} if len(run) % 4 else {"pragma": "g"}})
    run = [x for x in run if x is not None]
    def o15(rr):
        o = gen.opts_random(rr)
        if rr.chance(0.4):
            o["pragma"] = rr.pick(["h", "createElement", "_h"])
        return o
    mods, hist = gen_modules(r, budget(tier, 1500, 40000), GENERAL_PROFILE, o15)
    # sprinkle annotations over generated modules
    for i, m in enumerate(mods):
        if i % 2 == 0:
            c = comment(r.pick(["block", "line", "jsdoc", "jsdoc-ml", "jsdoc-ml2", "block-ml"]), r.pick(ANNOT_TEXTS))
            lines = m["src"].split("\n")
            pos = r.below(len(lines))
            lines.insert(pos, c.rstrip("\n"))
            m["src"] = "\n".join(lines)
    run += mods
    return [], run, {"rule": "fixtures + product of 16 annotation texts (name, padded, starred, dotted name, trailing words, @jsxImportSource/@jsxRuntime/@jsxFrag, bare @jsx, not at the start, wrong case, tab) x block/line/JSDoc style x placement (file head, before the second statement, inside a function, after the code, earlier+later annotation) x pragma option absent/present + all ORDERED PAIRS of annotation texts as two leading comments of one statement (head / second statement; sampled 1/2 in quick) + %d generated modules (half with a random annotation at a random line, 40%% with the pragma option)" % len(mods),
                     "exhaustive": True, "exhaustive_part": "annotation texts x styles x placements x option product", "histogram": dict(hist.most_common(30))}


PROPS["C15"] = {
    "theorems": ["C15_default_createVNode", "C15_comment_over_option", "C15_option_pragma", "C15_invalid_pragma_reported", "C15_fragment_callee", "C15_later_comment_wins",
                 "C15_unannotated_position_keeps", "C15_scan_no_tag", "C15_scan_other_jsx_tags", "C15_scan_bare", "C15_scan_name",
                 "C15_scan_result_is_one_word", "C15_element_callee", "visit_pragma", "visitKids_pragma",
                 "C15_annotation_on_any_line", "C15_spec_reading_is_the_models", "C15_spec_valid_pragma_is_the_models"],
    "extra_modules": ["VueJsx.Props.C15b"],
    "cases": c15_cases,
    "explanation": "oracle: the effective pragma is computed from the comments SWC attached before the module / each top-level item by the specification scanner (Oracle.specPragmaOfComment: any line of a comment) and the option; the real output must contain exactly one call of that identifier per lowered element/fragment and must not import createVNode; without a pragma every lowered element/fragment is a call of the createVNode imported once from one generated 'vue' import",
}


# ---- C20 ---------------------------------------------------------------------------------------------------
import tsgen


def c20_cases(tier, seed):
    r = gen.Rng(seed)
    run = corpus_cases("C20") + fixture_cases(lambda c: c["tsx"])
    for cid, src in tsgen.c20_products(tier) + tsgen.c20_nesting_products(tier):
        for rt in ([True, False] if (len(run) % 5 == 0) else [True]):
            run.append({"id": "%s|rt=%s" % (cid, rt), "src": src, "tsx": True, "opts": {"resolveType": rt}})
    return [], run, {"rule": "TSX fixtures + product of binding provenance of `defineComponent` (vue named import, aliased, namespace member, other module, local function, global, shadowed by a parameter, vue's export imported under ANOTHER name next to another module's / a local function's / a local const's / a default import's `defineComponent`, self-alias and string-name specifiers, another vue export imported as defineComponent) x setup shapes (typed arrow, with SetupContext, untyped, function expression, non-function, object) x 20 options shapes (none, {}, each key explicit, string/shorthand/method/computed/getter spellings, spreads before/after, identifier, call, conditional, spread argument) x 10 declaration kinds (const/let/var/export/default export/assignment/bare/destructuring/wrapped/annotated); the full product in thorough, in quick the complete slices through the vue-named import plus a 6% sample of the rest; + spread first argument and member callee x options; + SEVERAL calls: a Vue defineComponent call nested in another one's arguments (8 places: setup body in a statement / in an expression, `components` of the options, wrapper call, directly, spread, array, object component) x 6 inner shapes that receive nothing themselves x 7 statements holding the outer call, and a declaration whose call cannot take the inferred name (spread / non-function first argument, destructuring, another function, conditional, own name) followed by 5 kinds of later calls, at module level and in a function; resolveType on (and off for 1/5)",
                     "exhaustive": tier == "thorough", "exhaustive_part": "provenance x setup x options x declaration product"}


def _vue_define_locals(mod):
    """(local name, syntax context) of every import specifier that imports the export `defineComponent` of 'vue'"""
    out = set()
    for it in mod.get("body", []):
        if it.get("type") == "ImportDeclaration" and (it.get("source") or {}).get("value") == "vue":
            for sp in it.get("specifiers", []):
                if sp.get("type") == "ImportSpecifier":
                    loc, imp = sp.get("local") or {}, sp.get("imported")
                    if (imp.get("value") if imp else loc.get("value")) == "defineComponent":
                        out.add((loc.get("value"), loc.get("ctxt")))
    return out


def _user_calls(node, acc):
    if isinstance(node, dict):
        if node.get("type") == "CallExpression" and not _dummy_span(node):
            sp = node["span"]
            acc[(sp["start"], sp["end"])] = node
        for v in node.values():
            _user_calls(v, acc)
    elif isinstance(node, list):
        for v in node:
            _user_calls(v, acc)
    return acc


def c20_post(rec, c, r, d):
    """python-side sharpening of the gate clause: Oracle.c20Call accepts a changed call when the callee's BINDING CLASS (syntax context) is that of a
    specifier importing vue's defineComponent - but the resolver gives every module-level binding the same context.  The statement speaks of the
    BINDING: a call whose argument list was changed must have as callee exactly the local identifier (name AND context) of such a specifier."""
    if os.environ.get("VJX_NO_PY_CLAUSES"):
        return
    if rec["oracle"] != "ok" or "in" not in r or "out" not in r or r.get("panic") is not None:
        return
    locals_ = _vue_define_locals(r["in"])
    cin, cout = _user_calls(r["in"], {}), _user_calls(r["out"], {})
    for sp, ci in sorted(cin.items()):
        co = cout.get(sp)
        if co is None:
            continue
        ai, ao = ci.get("arguments", []), co.get("arguments", [])
        def shape(a):
            out = []
            for x in a:
                e = x.get("expression") or {}
                t = e.get("type")
                if t in ("JSXElement", "JSXFragment") or (t == "CallExpression" and _dummy_span(e)):
                    out.append(("lowered-jsx", 0))       # a JSX argument and its lowering are the same argument
                else:
                    out.append((t, len(e.get("properties", []) or [])))
            return out
        if len(ai) == len(ao) and shape(ai) == shape(ao):
            continue
        cal = ci.get("callee") or {}
        ok = (c.get("opts") or {}).get("resolveType") and cal.get("type") == "Identifier" and (cal.get("value"), cal.get("ctxt")) in locals_
        if not ok:
            rec["oracle"] = "FAIL:augmented-foreign-call:the call at bytes %d..%d of `%s` is not a call of the binding imported as defineComponent from 'vue' (such bindings: %s) but its arguments were changed (%d -> %d arguments)" % (
                sp[0], sp[1], cal.get("value") if cal.get("type") == "Identifier" else cal.get("type"), sorted(x[0] for x in locals_), len(ai), len(ao))
            return


PROPS["C20"] = {
    "post": c20_post,
    "nontrivial": lambda c, r: "defineComponent(" in c["src"] or "defineComponent (" in c["src"],
    "theorems": ["C20_off_untouched", "C20_other_calls_untouched", "C20_gate_iff", "C20_member_callee_never", "C20_import_other_module",
                 "C20_explicit_option_kept", "C20_spread_arguments_untouched", "C20_no_arguments_untouched", "C20_computed_key_entry_wins", "C20_template_key_is_explicit", "C20_options_expression_spread_last",
                 "insertBeforeFirstSpread_eq", "C20_user_wins_semantic", "visit_inert", "visit_dc_none", "visitKids_dc_none"],
    "cases": c20_cases,
    "explanation": "oracle: every user-written call of the input is aligned with the same call of the real output; a changed call must be a call of the binding imported by name from 'vue' with resolveType on, must not have a spread among its first two arguments, must keep every user-written option entry in order, and every injected props/emits/name entry must sit BEFORE any user entry or spread that can provide the same key (so that what the user wrote is what Vue receives); name only for `const x = defineComponent(...)` with the variable's name",
}



# ---- C09 ---------------------------------------------------------------------------------------------------
import glob as _glob

SURROUND = ["%s", "try { a = %s; } catch (e) { log(e); } finally { done(); }", "outer: for (;;) { inner: { x = %s; break outer; } }",
            "switch (k) { case 1: r = %s; break; default: r = null; }", "class Q { static s = 1; #p = 2; get g() { return %s; } static { init(); } }",
            "const o = { m() { return %s; }, [k]: 1, ...rest };", "async function* ag() { yield %s; await q; }", "if (a) b = %s; else if (c) d(); else { e(); }",
            "const [p, { q = 2 }] = [%s, {}];", "label: while (x) { do { y = %s; } while (z); }", "export function ef(a = 1, ...r) { return a ? %s : r; }",
            "new Foo(%s, ...args); tag`t${1}`; a ??= b; c?.d?.(e);", "var v1 = function named() { return typeof %s; }, v2 = void 0;"]
TS_SURROUND = ["interface I { a: string }\ntype T = I | null;\nenum E { A, B }\nconst t = %s;", "declare const d: number;\nfunction f<T>(x: T): T { return x; }\nconst y = f(%s as any);",
               "namespace N { export const c = 1; }\nabstract class AC<T> { abstract m(): void; private p?: T; }\nlet z = %s satisfies unknown;"]


def jsx_free_corpus():
    files = sorted(_glob.glob("/repo/visitor/tests/fixture/**/output.js", recursive=True)) + ["/repo/wasm.test.ts"]
    files += sorted(_glob.glob(os.path.expanduser("~/.cargo/registry/src/*/swc_ecma_transforms_base-12.0.0/src/helpers/*.js")))
    files += sorted(_glob.glob(os.path.expanduser("~/.cargo/registry/src/*/stateright-*/ui/app.js")))
    out = []
    for f in files:
        try:
            src = open(f).read()
        except Exception:
            continue
        if len(src) < 60000:
            out.append((os.path.basename(os.path.dirname(f)) + "/" + os.path.basename(f), src, f.endswith(".ts")))
    return out


RT_IMPORTS = ["import { defineComponent, h } from 'vue';", "import { h } from 'vue';", "import { defineComponent } from './local';", "import { defineComponent as dc, h } from 'vue';\nconst defineComponent = (x: any, y?: any) => x;",
              "import * as Vue from 'vue';\nimport { defineComponent } from 'vue';"]
RT_SHADOWS = ["export function register(defineComponent: (setup: Function, extra?: object) => unknown) { const Button = CALL; return Button; }",
              "function outer() { function defineComponent(a: any) { return a; } const Inner = CALL; return Inner; }",
              "const make = () => { const defineComponent = (a: any) => a; return CALL; };",
              "class K { defineComponent(a: any) { return a; } m() { const defineComponent = this.defineComponent; return CALL; } }",
              "const viaMember = Vue2.CALL;", "const viaThis = { defineComponent(a: any) { return a; }, m() { return this.CALL; } };",
              "for (const defineComponent of [(a: any) => a]) { CALL; }", "try { throw 0; } catch (defineComponent) { const C = CALL; }",
              "const top = CALL;"]
RT_CALLS = ["defineComponent((props: { label: string }) => () => h('button', props.label))",
            "defineComponent((props: { a?: number }, ctx: SetupContext<{ (e: 'x'): void }>) => {})",
            "defineComponent(function Named(props: { b: boolean } = { b: true }) {})"]


C09_TEMP_JSX = ["const h = <Comp>{f()}</Comp>;", "val = 1; const h2 = <Comp>{val}</Comp>;", "(<Foo>{obj.render()}</Foo>);", "const h3 = <><Comp>{f()}</Comp><Foo>{fn1()}</Foo></>;"]
C09_NEIGHBOURS = ["const double = (x) => x * 2;", "list.map((i) => i + 1);", "const o2 = { m: (a) => a, n() { return (b) => b; } };",
                  "function later(cb = (z) => z) { return () => cb; }", "class L { f = (q) => q; static g = () => 1; }", "const e2 = async (w) => await w;",
                  "const nested = () => () => () => 3;", "label: for (const i of list) { out.push(() => i); }", "const t2 = cond ? (a) => a : (b) => ({ b });"]


C09_LIST_TEMP = ["const h = <Comp>{f()}</Comp>;", "x1 = init(); x1 = <Comp>{x1}</Comp>;", "x2 = <Foo>{x2}</Foo>; out.push(<Comp>{obj.render()}</Comp>, <Bar>{g()}</Bar>);"]
C09_LIST_STMTS = ['"use strict";', "'marker';", '"use client"; "use strict";', '("use strict");', "`use strict`;", "42;", ";", "debugger;", "function hoisted() { 'use strict'; return 1; }",
                  "var hv = 'use strict';", "lbl: 'labelled';", "class CD { static { 'in static'; } }", "{ 'in block'; }", "'a' + 'b';", "void 'v';", "if (x) 'then'; else 'else';"]
C09_LIST_ARRANGE = ["ST", "TS", "pST", "pTS", "SpT", "pSqTR", "SRT", "TpSq"]
C09_LIST_SCOPES = ["function body1() {\n%s\n}", "%s", "const arrow2 = (a) => {\n%s\n};", "{\n%s\n}", "switch (k) { case 1:\n%s\nbreak; default:\n'in default';\n}", "class M5 { m() {\n%s\n} }",
                   "class S6 { static {\n%s\n} }", "try {\n%s\n} catch (e) { 'in catch'; } finally { 'in finally'; }", "for (const it of list) {\n%s\n}", "namespace N9 {\n%s\n}",
                   "const o10 = { get g() {\n%s\nreturn 1; }, set g(v) { 'in setter'; } };", "export default async function* () {\n%s\n}",
                   "function outer12() { 'outer'; const inner = function () {\n%s\n}; 'after inner'; }", "if (y) {\n%s\n} else { 'in else'; }"]


# resolveType on and GENUINE calls of Vue's defineComponent: every shape of first argument (object components with / without a name of their own in every
# key spelling, behind a spread, wrapped; setup functions typed / untyped / named; identifier, spread, nothing) x second argument x the statement the
# call sits in.  The first run may augment the call; the follow-up run on its output must find nothing left to add.
C09_DC_FIRST = ["{ setup() { return () => JSX; } }", "{ name: 'Own', render() { return JSX; } }", "{ ...base, setup: () => () => JSX }",
                "{ props: { a: String }, setup(props) { return () => JSX; } }", "{}", "{ 'name': 'Q', render: () => JSX }", "{ ['name']: nm }",
                "{ get name() { return 'g'; }, render() { return JSX; } }", "{ name }", "{ setup() { return () => JSX; } } as any", "({ render() { return JSX; } })",
                "(props: { label: string }) => () => JSX", "function Named(props: { b?: boolean }) { return () => JSX; }",
                "(props: { a: string } = { a: 'd' }, ctx: SetupContext<{ (e: 'x'): void }>) => () => JSX", "() => () => JSX", "(props) => JSX", "opts", "...args", ""]
# "" = a call WITHOUT arguments: `const X = defineComponent()` became `defineComponent({ name: "X" })` (the inferred name landed in the FIRST argument, i.e.
# became the component) and a second run gave `defineComponent({ name: "X" }, { name: "X" })` - found by this stream, fixed (see known_findings.txt).
C09_DC_SECOND = ["", ", {}", ", { name: 'Given' }", ", { props: ['a'] }", ", { inheritAttrs: false }", ", extra", ", { ...extra }"]
C09_DC_DECL = ["const X = CALL;", "let X = CALL;", "var X = CALL, Y = CALL;", "export const X = CALL;", "export default CALL;", "let X; X = CALL;", "const { a } = CALL;",
               "const X = wrap(CALL);", "function mk() { const Inner = CALL; return Inner; }", "const X: Component = CALL;", "const X = CALL, Z = <Comp>{f()}</Comp>;"]
C09_DC_JSX = ['<div class="hello">hi</div>', "null", "<Comp>{f()}</Comp>"]
C09_DC_OPTS = [{"resolveType": True}, {"resolveType": True, "optimize": True}, {"resolveType": True, "mergeProps": False, "enableObjectSlots": False},
               {"resolveType": True, "transformOn": True, "pragma": "h"}, {"resolveType": False}]


def c09_define_component_cases(tier):
    out = []
    n = 0
    for fi, first in enumerate(C09_DC_FIRST):
        for si, second in enumerate(C09_DC_SECOND):
            if (first == "" and second) :
                continue
            for di, decl in enumerate(C09_DC_DECL):
                n += 1
                if tier == "quick" and si and di and (fi + si + di) % 3:
                    continue
                call = "defineComponent(%s%s)" % (first.replace("JSX", C09_DC_JSX[n % 3]), second)
                src = ("import { defineComponent } from 'vue';\nimport type { SetupContext, Component } from 'vue';\nimport { Comp } from './comps';\n"
                       "const base = {}, nm = 'n', name = 'S', opts = {}, extra = {}, args = [];\n" + decl.replace("CALL", call) + "\n")
                out.append({"id": "dc%d" % n, "src": src, "tsx": True, "opts": dict(C09_DC_OPTS[n % 5 if n % 4 == 0 else 0])})
    return out


def c09_cases(tier, seed):
    r = gen.Rng(seed)
    run = corpus_cases("C09")
    optsets = [{}, {"optimize": True, "transformOn": True}, {"resolveType": True}, {"pragma": "h", "mergeProps": False, "enableObjectSlots": False}]
    corpus = jsx_free_corpus()
    for name, src, ts in corpus:
        for oi, o in enumerate(optsets):
            if tier == "quick" and oi and (len(run) % 3):
                continue
            run.append({"id": "corpus:%s:%d" % (name, oi), "src": src, "tsx": ts or bool(o.get("resolveType")), "opts": o})
    run += fixture_cases()
    # JSX embedded in arbitrary surrounding code
    prof = dict(GENERAL_PROFILE); prof["p_distractor"] = 0.5; prof["depth"] = 2
    n = budget(tier, 1200, 30000)
    hist = collections.Counter()
    for i in range(n):
        g = gen.Gen(r, prof)
        parts = [gen.PRELUDE]
        ts = r.chance(0.2)
        for j in range(1 + r.below(3)):
            el = g.element(0) if r.chance(0.8) else r.pick(["1", "fn1()", "obj.a"])
            sur = r.pick(TS_SURROUND).replace("\\n", "\n") if ts and r.chance(0.5) else r.pick(SURROUND)
            parts.append(sur % el)
        hist.update(g.used)
        run.append({"id": "s%d" % i, "src": "\n".join(parts) + "\n", "tsx": ts, "opts": std_opts(r)})
    # resolveType on: calls that merely LOOK like Vue's defineComponent (shadowed, member, aliased, other module) must stay as written
    n_rt = 0
    for imp in RT_IMPORTS:
        for sh in RT_SHADOWS:
            for call in RT_CALLS:
                n_rt += 1
                src = imp + "\n" + sh.replace("CALL", call) + "\n"
                run.append({"id": "rt%d" % n_rt, "src": src, "tsx": True, "opts": {"resolveType": True, "optimize": bool(n_rt % 2)}})
    dcs = c09_define_component_cases(tier)
    run += dcs
    # JSX that leaves a temporary pending for its scope, next to JSX-free code of every arrow/function shape
    n_tmp = 0
    for tj in C09_TEMP_JSX:
        for other in C09_NEIGHBOURS:
            for scope in ["%s", "function scope1() {\n%s\n}", "{\n%s\n}", "const scope2 = () => {\n%s\n};", "class S3 { m() {\n%s\n} }"]:
                for order in (0, 1):
                    n_tmp += 1
                    body = (tj + "\n" + other) if order == 0 else (other + "\n" + tj)
                    run.append({"id": "tmp%d" % n_tmp, "src": gen.PRELUDE + (scope % body) + "\n", "tsx": False, "opts": {"optimize": bool(n_tmp % 2)}})
    # statement lists that RECEIVE a temporary, with every kind of JSX-free statement (directive-like string statements, other literal
    # statements, empty / debugger statements, hoisted declarations, labels) at every position relative to the JSX statement
    n_pos = 0
    for ti, tj in enumerate(C09_LIST_TEMP):
        for pi, odd in enumerate(C09_LIST_STMTS):
            for ai, arr in enumerate(C09_LIST_ARRANGE):
                for sci, scope in enumerate(C09_LIST_SCOPES):
                    n_pos += 1
                    if tier == "quick" and sci and (n_pos + sci) % 4:
                        continue
                    odd2 = C09_LIST_STMTS[(pi * 5 + ai + 1) % len(C09_LIST_STMTS)]
                    body = "\n".join({"S": odd, "R": odd2, "T": tj, "p": "before();", "q": "after(val);"}[k] for k in arr)
                    ts = "namespace" in scope
                    o = [{}, {"optimize": True, "enableObjectSlots": False}, {"transformOn": True, "mergeProps": False}][(n_pos + ti) % 3]
                    run.append({"id": "pos%d" % n_pos, "src": gen.PRELUDE + "let x1, x2;\n" + scope.replace("%s", body) + "\n", "tsx": ts, "opts": o})
    # generated JSX-free modules
    for i in range(budget(tier, 300, 8000)):
        g = gen.Gen(r, {"jsx_in_expr": 0})
        parts = [gen.PRELUDE] + [r.pick(SURROUND) % g.expr(0, allow_jsx=False) for _ in range(1 + r.below(4))]
        run.append({"id": "f%d" % i, "src": "\n".join(parts) + "\n", "tsx": False, "opts": std_opts(r)})
    return [], run, {"rule": "JSX-free corpus of %d real files on disk (the 81 fixture outputs, the repo's wasm.test.ts, SWC's runtime helper modules and stateright's UI script from the cargo registry) under 4 option sets; fixtures; %d modules with JSX embedded in try/catch, labelled blocks, switch, classes with fields/accessors/static blocks, object methods, generators, destructuring, default parameters, optional chaining, TS interfaces/enums/namespaces/generics; %d modules with resolveType on in which a parameter, inner function, inner const, class member, loop or catch binding, object method or another module's export is merely NAMED defineComponent (x 5 import situations x 3 typed setup functions); %d modules with resolveType on and GENUINE calls of Vue's defineComponent: 18 shapes of first argument (object components with and without a name of their own in every key spelling / behind a spread / wrapped, typed, untyped and named setup functions, identifier, spread) x 7 second arguments x 11 statements holding the call (const / let / var with two calls / export / default export / assignment / destructuring / wrapped / inner function / annotated / beside JSX), JSX or none inside [sampled 1/3 in quick beyond the first row and column]; 4 JSX statements that leave a temporary pending x 9 JSX-free neighbours (concise arrows in every position) x 5 scopes x both orders; 3 statements needing `let _slot` / a captured copy x 16 JSX-free statement kinds (directive-like string statements, other literal statements, empty, debugger, hoisted declarations, labels, nested lists with their own strings) x 8 arrangements (before, after, between, twice) x 14 kinds of statement list (function, arrow, block, case, method, static block, try, loop, namespace, accessor, generator, nested function, if) [lists other than the function body sampled 1/4 in quick]; generated JSX-free modules; and EVERY output of the first phase is fed back as input (idempotence)" % (len(corpus), n, n_rt, len(dcs)),
                     "histogram": dict(hist.most_common(30))}


def c09_followup(cases, recs):
    out = []
    for c, r in zip(cases, recs):
        if r.get("printed") and not r.get("panic") and not r.get("diags"):
            out.append({"id": c["id"] + ":again", "src": r["printed"], "tsx": c["tsx"], "opts": c["opts"]})
    return out


PROPS["C09"] = {
    "extra_modules": ["VueJsx.Props.C09b"],
    "theorems": ["visit_identity", "visitKids_identity", "kindHook_identity", "exprHook_jsxfree", "C09_module_identity", "kindHook_identity_rt", "visit_identity_rt", "visitKids_identity_rt", "collectTypes_frame", "C09_module_identity_all_options", "JsxFree_of_NoJsx", "C09_idempotent"],
    "cases": c09_cases,
    "followup": c09_followup,
    "followup_clause": "not-idempotent",
    "nontrivial": lambda c, r: True,
    "explanation": "oracle: a module without JSX (and without defineComponent calls under resolveType) must come back identical; otherwise denote(input) and evalOut(real output) must agree everywhere outside the lowered JSX expressions once the inserted imports/helper/temporaries are stripped (skeleton); every printed output is fed back and must come back unchanged",
}


# ---- C07 / C08: the malformed-usage stream --------------------------------------------------------------------
ODD_ATTRS = ["v-model={x + 1}", "v-model={f()}", "v-model={x?.y}", "v-model={'s'}", "v-model={[x + 1, 'a']}", "v-model={(x)}", "v-model={(x.y)}", "v-model={this}", "v-model={c ? a : b}",
             "v-model={[a, b] = c}", "v-model={x!}", "v-model={x as any}", "v-models={[[x + 1], [f(), 'a']]}", "v-model={a?.[0]}", "v-model={new X}", "v-model={`t`}", "v-model={-x}",
             "a=<b/>", "a=<></>", "a=<b c={<d/>}>t</b>", "class=<i/>", "v-foo", "v-show", "v-html", "v-text", "v-model", "v-models", "v-slots", "vFoo",
             "v-foo={[]}", "v-foo={[,]}", "v-foo={[...xs]}", "v-foo={[x, ...ys]}", "v-foo={[x, , ['m']]}", "v-model={[]}", "v-model={[, 'a']}", "v-model={[...xs]}",
             "v-models={[]}", "v-models={x}", "v-models={[[x], y, ...zs, [,]]}", "v-models", 'v-models="s"', "v-foo={[x, ['a-b', '1x', 'ok']]}", "v-foo_a-b={x}", "v-foo_1x_ok={x}",
             "v-model={[x, ['a b', 'c.d']]}", "v-model_a-b={x}", 'v-html="s"', "v-html=<b/>", "v-text=<></>", "v-html={[]}", "v-text={[...xs]}", 'v-model="s"',
             "v-model=<b/>", "v-slots=<b/>", 'v-slots="s"', "v-slots={f()}", "v-show=<b/>", "v-foo=<b/>", 'v-show="s"', "v-foo:arg", "v-foo:arg_m", "v-:x={y}", "v-={y}", "v={y}",
             "v-model:a-b={x}", "v-model={[x, 'a-b']}", "v-model={[x, `t`]}", "v-model={[x, 1]}", "{...<b/>}", "key=<b/>", "ref=<></>", "on=<b/>",
             'v-html="a\\"', 'v-text="a&lt;b"', 'v-foo="c:\\dir\\"', "v-show='q\"q'", 'v-foo="l1\nl2"', 'title="a\\"', 'v-foo:arg_m="&#39;"', 'v-html="\\u0041"']
ODD_STATEMENTS = ["const f = async () => <Comp>{await g()}</Comp>;", "async function af() { return <Comp><i>{await g()}</i></Comp>; }",
                  "function* gf() { yield <Comp>{yield 1}</Comp>; }", "const f2 = async () => <div>{await g()}</div>;",
                  "async function ag() { return <Comp a={await g()}>{x}</Comp>; }", "const f3 = async () => <Comp>{await g()}{y}</Comp>;",
                  "const f4 = async () => <Comp v-slots={{ s: () => 1 }}>{await g()}</Comp>;", "async function* agf() { yield <Comp>{yield await g()}</Comp>; }"]
ODD_TAGS = ["a:b", "svg:rect", "this.Comp", "this.a.B", "a.b.c.D", "Foo.bar", "x-y", "div", "Comp", "Fragment", "KeepAlive", "_", "$x", "A1"]
ODD_CHILDREN = ["", "{}", "{/* c */}", "{...xs}", "{<b/>}", "<></>", "{...<b/>}", "{function(){}}", "{{}}", "{[]}", "{[,]}", "&amp;&#x41;", "{' '}", "{`t`}", "{a}{}{b}"]
ODD_COMMENTS = ["", "/* @jsx h */", "/* @jsx h extra */", "/** @jsxImportSource vue */", "/* @jsx */", "// @jsx a.b", "/* @jsx $h */", "/* @jsxFrag F */", "/* @jsx h */ /* @jsx k */",
                "/* @jsx h( */", "/* @jsx # */", "/* @jsx h-1 */", "/* @jsx 1 */", "// @jsx a.b.c", "/* @jsx a..b */", "/* @jsx 'h' */", "/* @jsx h,k */"]
CYCLIC = ["type A = A | A;", "type T = T & T;", "interface I extends I, I { a: 1 }", "type T = [T, T][number];", "type T = { a: T | T }['a'];", "type A = B | B; type B = A | A;",
          "type T = T;", "type A = B; type B = A;", "interface I extends I { a: 1 }", "interface P extends Q {} interface Q extends P {}",
          "type T = { a: T }['a'];", "type T = T | string;", "type T = Partial<T>;", "type T = (T);", "type K = K; type T = Pick<{a: 1}, K>;", "type T = T['x'];",
          "type T = { a: string } & T;", "type T = Array<T>[number];", "interface I { a: I['a'] }"]


CYCLIC_T = ["type T = T | T;", "type T = T & T & T;", "interface T extends T, T { a: 1 }", "type T = B | B; type B = T | T;",
            "type T = T;", "type T = B; type B = T;", "interface T extends T { a: 1 }", "interface T extends Q {} interface Q extends T {}", "type T = { a: T }['a'];",
            "type T = T | string;", "type T = Partial<T>;", "type T = (T);", "type T = Pick<{a: 1}, T>;", "type T = T['x'];", "type T = { a: string } & T;",
            "type T = Array<T>[number];", "interface T { a: T['a'] }", "type T = NonNullable<T>;", "type T = Exclude<T, 1>;", "type T = Extract<1, T>;", "type T = T[number];",
            "type T = [T][0];", "type T = Omit<T, 'a'>;", "type T = Required<T>;", "type T = { a: 1 }[T];", "type T = B['x']; type B = T['y'];", "type T = B['x']; type B = { x: T };",
            "interface T extends B {} type B = T;"]
TYPE_POSITIONS = ["@", "{ x: @ }", "@['x']", "@[number]", "{ a: 1 }[@]", "{ a: 1; b: 2 }[@ | 'a']", "Pick<{ a: 1 }, @>", "Omit<{ a: 1 }, @>", "Pick<@, 'a'>", "Partial<@>", "Required<@>",
                  "NonNullable<@>", "Exclude<@, null>", "Extract<string, @>", "@ | string", "@ & { a: 1 }", "(@)", "@[]", "[@][0]", "Array<@>[number]", "{ x: @ }['x']"]


def malformed_stream(tier, r):
    out = []
    for ci, com in enumerate(ODD_COMMENTS):
        for ai, attr in enumerate(ODD_ATTRS):
            if tier == "quick" and ci and (ai + ci) % 5:
                continue
            tag = ODD_TAGS[(ai + ci) % len(ODD_TAGS)]
            ch = ODD_CHILDREN[(ai * 3 + ci) % len(ODD_CHILDREN)]
            src = "%s\n%sconst v = <%s %s>%s</%s>;\n" % (com, gen.PRELUDE, tag, attr, ch, tag)
            out.append({"src": src, "tsx": False})
    for tag, ch in itertools.product(ODD_TAGS, ODD_CHILDREN):
        out.append({"src": gen.PRELUDE + "const v = <%s>%s</%s>;\nexport default <%s v-show={y}>%s<%s/></%s>;\n" % (tag, ch, tag, tag, ch, tag, tag), "tsx": False})
    for a1, a2 in itertools.product(ODD_ATTRS, repeat=2):
        if r.below(100) < (3 if tier == "quick" else 25):
            out.append({"src": gen.PRELUDE + "const v = <div %s %s/>;\nconst w = <Comp %s %s>{x}</Comp>;\n" % (a1, a2, a2, a1), "tsx": False})
    for st in ODD_STATEMENTS:
        out.append({"src": gen.PRELUDE + st + "\n", "tsx": False})
    for depth in [5, 50, 200]:
        out.append({"src": gen.PRELUDE + "const v = " + "<div>" * depth + "{x}" + "</div>" * depth + ";\n", "tsx": False})
        out.append({"src": gen.PRELUDE + "const v = " + "<Comp a={" * depth + "1" + "}/>" * depth + ";\n", "tsx": False})
    for cyc in CYCLIC:
        for use in ["(props: T) => {}", "(props: A) => {}", "(props: I) => {}", "(props: P) => {}", "(props: { x: T }) => {}", "(_, ctx: SetupContext<T>) => {}", "(props: K) => {}"]:
            src = "import { defineComponent } from 'vue';\nimport type { SetupContext } from 'vue';\n%s\ndefineComponent(%s);\n" % (cyc, use)
            out.append({"src": src, "tsx": True, "opts": {"resolveType": True}})
    # finite alias / interface-extends / wrapper chains around the resolver's nesting limit (every length from 58 to 70)
    for L in list(range(58, 71)) + [10, 100, 200]:
        chain = "type Z0 = { a: string; 'b-c'?: number };\n" + "\n".join("type Z%d = Z%d;" % (k + 1, k) for k in range(L))
        ichain = "interface Y0 { (e: 'ev'): void }\n" + "\n".join("interface Y%d extends Y%d {}" % (k + 1, k) for k in range(L))
        nest = "string"
        for k in range(L):
            nest = "NonNullable<%s>" % nest if k % 2 else "(%s | null)" % nest
        for use in ["(props: Z%d) => {}" % L, "(props: { m: Z%d['a'] }) => {}" % L, "(props: { n: %s }) => {}" % nest]:
            out.append({"src": "import { defineComponent, type SetupContext } from 'vue';\n%s\ndefineComponent(%s);\n" % (chain, use), "tsx": True, "opts": {"resolveType": True}})
        out.append({"src": "import { defineComponent, type SetupContext } from 'vue';\n%s\ndefineComponent((_, ctx: SetupContext<Y%d>) => {});\n" % (ichain, L), "tsx": True, "opts": {"resolveType": True}})
    # every cyclic declaration of T x every position a resolver recurses through (whole props type, member type, emits)
    for cyc in CYCLIC_T:
        for w in TYPE_POSITIONS:
            ty = w.replace("@", "T")
            for use in ["(props: %s) => {}" % ty, "(props: { m: %s; n?: string }) => {}" % ty, "(props: { a: string } = { m: 1 }, ctx: SetupContext<%s>) => {}" % ty,
                        "(_, { emit }: SetupContext<(e: %s) => void>) => {}" % ty, "(_, ctx: SetupContext<{ (e: %s): void; (e: 'ok'): void }>) => {}" % ty]:
                src = "import { defineComponent, type SetupContext } from 'vue';\n%s\ndefineComponent(%s);\n" % (cyc, use)
                out.append({"src": src, "tsx": True, "opts": {"resolveType": True}})
    return out


# JSX beneath every node kind the visitor has a HOOK for (variable declarator, call, arrow, statement list), in every branch the hook's
# guards distinguish (binding = identifier / object / array / nested pattern / with defaults / rest; initializer = element, call,
# defineComponent call, conditional, none; declaration kind; loop heads; several declarators), under every option set
HOOK_BINDINGS = ["n", "{ a }", "{ a, b }", "{ a = @ }", "{ a: { b = @ } }", "{ a: [b = @] = [] }", "[a]", "[a, b]", "[a = @]", "[, a = @, ...rest]", "{ a, ...rest }",
                 "{ [k]: a = @ }", "[{ a = @ }]"]
HOOK_INITS = ["@", "[@, @]", "{ a: @ }", "use(() => @)", "use(@)", "defineComponent(() => () => @)", "defineComponent({ render() { return @; } })",
              "defineComponent((props: { m: string }) => () => @)", "cond ? @ : null", "(0, @)", "await @", "slots"]
HOOK_JSX = ["<A/>", "<h1>title</h1>", "<Comp v-show={x}>{val}</Comp>", "<><i/>t</>", "<div a=<b/>>{f()}</div>"]
HOOK_SCOPES = ["%s", "function scope1() {\n%s\n}", "export default defineComponent(() => {\n%s\nreturn () => null;\n});", "const arrow1 = async () => {\n%s\n};",
               "class S4 { m() {\n%s\n} static {\n%s\n} }", "if (x) {\n%s\n}", "namespace N2 {\n%s\n}"]
HOOK_OPTS = [{}, {"resolveType": True}, {"resolveType": True, "optimize": True, "transformOn": True}, {"resolveType": True, "mergeProps": False, "enableObjectSlots": False},
             {"resolveType": False, "optimize": True}, {"resolveType": True, "pragma": "h"}, {"resolveType": True, "customElementPatterns": ["^A$"]}]


def hook_shape_cases(tier, prefix="hk"):
    out = []
    n = 0
    def jsx_at(k):
        return HOOK_JSX[k % len(HOOK_JSX)]
    def fill(t, k):
        i = [k]
        parts = t.split("@")
        s = parts[0]
        for p in parts[1:]:
            s += jsx_at(i[0]) + p
            i[0] += 1
        return s
    stmts = []
    for bi, b in enumerate(HOOK_BINDINGS):
        for ii, init in enumerate(HOOK_INITS):
            if "@" not in b and "@" not in init:
                continue
            k = bi * 5 + ii
            decl = ["const", "let", "var"][k % 3]
            stmts.append("%s %s = %s;" % (decl, fill(b, k), fill(init, k + 1)))
    for bi, b in enumerate(HOOK_BINDINGS):
        # loop heads, several declarators in one declaration, declarations without initializer, exported declarations, catch / parameter patterns
        stmts.append("for (const %s of [%s]) { out.push(a); }" % (fill(b, bi), jsx_at(bi + 2)))
        stmts.append("for (let %s = %s, q = %s; ;) { break; }" % (fill(b, bi), fill("[@]", bi + 1), jsx_at(bi + 3)))
        stmts.append("const first%d = %s, %s = %s, last%d = %s;" % (bi, jsx_at(bi), fill(b, bi + 1), fill("{ a: @ }", bi + 2), bi, jsx_at(bi + 3)))
        stmts.append("export const %s = %s;" % (fill(b, bi), jsx_at(bi + 1)))
        stmts.append("function pf%d(%s = %s) { return a; }" % (bi, fill(b, bi), jsx_at(bi + 1)))
        stmts.append("const pa%d = (%s) => %s;" % (bi, fill(b, bi) if b != "n" else "n = " + jsx_at(bi), jsx_at(bi + 4)))
    for si, st in enumerate(stmts):
        for sc_i, scope in enumerate(HOOK_SCOPES):
            if st.startswith("export") and sc_i:
                continue
            if "await" in st and sc_i not in (0, 3):
                continue
            for oi, o in enumerate(HOOK_OPTS):
                # quick: every statement at module level under every option set; other scopes x option sets sampled
                if tier == "quick" and sc_i and (si + sc_i + oi) % 9:
                    continue
                if tier == "search" and sc_i and (si + sc_i + oi) % 3:
                    continue
                n += 1
                ts = ("props:" in st) or ("namespace" in scope) or bool(n % 2)
                if "namespace" in scope and "await" in st:
                    continue
                body = scope.replace("%s", st)
                src = "import { defineComponent } from 'vue';\n" + gen.PRELUDE + body + "\n"
                out.append({"id": "%s%d" % (prefix, n), "src": src, "tsx": ts, "opts": dict(o)})
    return out


def c07_cases(tier, seed):
    r = gen.Rng(seed)
    run = corpus_cases("C07") + fixture_cases()
    run += hook_shape_cases(tier)
    for i, c in enumerate(malformed_stream(tier, r)):
        o = c.get("opts") or {k: r.chance(0.5) for k in ("transformOn", "optimize", "mergeProps", "enableObjectSlots")}
        if "resolveType" not in o and r.chance(0.1):
            o["pragma"] = "h"
        run.append({"id": "x%d" % i, "src": c["src"], "tsx": c["tsx"], "opts": o})
    # the `pragma` OPTION with values that are not an identifier (C07: never a multi-word / non-identifier callee without an error)
    for i, pv in enumerate(["h", "h x", "", "h(", "a.b", "1", "h-1", "#", "h,k", " h", "a..b", "$_h9", "new"]):
        run.append({"id": "po%d" % i, "src": gen.PRELUDE + "const v = <div id=\"a\">{x}</div>;\nconst w = <><Comp/></>;\n", "tsx": False, "opts": {"pragma": pv}})
    prof = dict(GENERAL_PROFILE)
    prof["tags"] = dict(ALL_TAGS, ns=1, this=2)
    prof["attr_values"] = {"string": 4, "none": 3, "expr": 6, "const": 2, "string-ws": 1, "jsx": 2, "empty": 0}
    mods, hist = gen_modules(r, budget(tier, 1500, 40000), prof, std_opts)
    run += mods
    # every syntactic context incl. binding patterns, loop heads and multi-declarator declarations; resolveType on for half of them
    prof2 = dict(prof)
    prof2["contexts"] = {"expr-stmt": 1, "const": 2, "fn-body": 1, "arrow-expr": 1, "arrow-block": 1, "assign": 1, "nested-block": 1, "class-method": 1, "export-default": 1,
                         "loop": 1, "class-field": 2, "default-param": 2, "destructure": 6, "loop-head": 3, "multi-decl": 2}
    def o07(rr):
        o = std_opts(rr)
        if rr.chance(0.5):
            o["resolveType"] = True
        return o
    mods2, hist2 = gen_modules(r, budget(tier, 500, 12000), prof2, o07, prefix="d")
    run += mods2
    hist.update(hist2)
    return [], run, {"rule": "fixtures + JSX beneath every hooked node kind (13 binding patterns x 12 initializers, loop heads, multi-declarator declarations, exported declarations, parameter patterns; x 7 scopes x 7 option sets with resolveType on and off, .jsx and .tsx) + the malformed-usage stream (56 unusual attribute forms: element/fragment as attribute value, valueless directives, array-form directives with holes/spreads/empty arrays, non-identifier modifiers and arguments, directive values of every attribute-value kind; x 14 tag forms incl. namespaced and this-member tags x 15 child forms x 9 pragma comments, attribute pairs sampled, nesting depth up to 200, 13 cyclic type declarations x 7 uses) + %d generated modules with JSX attribute values and namespaced/this tags, under random option sets" % len(mods),
                     "histogram": dict(hist.most_common(30))}


def c07_post(rec, c, r, d):
    literal_roundtrip_post(rec, c, r, d)
    # supporting execution (printer and parser are not modelled): the printed output must re-parse as a non-JSX module
    if rec["oracle"] == "ok" and not r.get("diags") and r.get("panic") is None and r.get("reparse_ok") is False:
        key = "printed-output-does-not-reparse"
        if isinstance(r.get("out"), dict) and _await_in_generated_arrow(r["out"]):
            # the recorded design-level finding: slot content is moved into a generated (synchronous, non-generator) arrow function
            key += "/await-or-yield-moved-into-slot-function"
        rec["oracle"] = "FAIL:" + key + ":" + (r.get("printed") or r.get("print_panic") or "")[:200].replace("\n", " ")


def _await_in_generated_arrow(node):
    """does the output contain an `await` / `yield` directly (not inside a nested function) inside an arrow function the transform generated?"""
    def has_await(n):
        if isinstance(n, dict):
            t = n.get("type")
            if t in ("AwaitExpression", "YieldExpression"):
                return True
            if t in ("ArrowFunctionExpression", "FunctionExpression", "FunctionDeclaration", "ClassMethod", "MethodProperty"):
                return False
            return any(has_await(v) for v in n.values())
        if isinstance(n, list):
            return any(has_await(v) for v in n)
        return False
    if isinstance(node, dict):
        if node.get("type") == "ArrowFunctionExpression" and (node.get("span") or {}).get("start") == 0 and (node.get("span") or {}).get("end") == 0 \
                and not node.get("async") and has_await(node.get("body")):
            return True
        return any(_await_in_generated_arrow(v) for v in node.values())
    if isinstance(node, list):
        return any(_await_in_generated_arrow(v) for v in node)
    return False


PROPS["C07"] = {
    "theorems": ["C07_expression_replaced", "C07_fragment_is_call", "C07_element_is_call", "importFromVue_is_ident", "importFromVue_keeps",
                 "C07_ident_tag_not_jsx", "C07_member_and_namespaced_tags", "C07_member_tag_no_jsx", "C07_modifier_keys_printable",
                 "C07_pragma_callee_one_word", "parseDirective_DirOk", "parseVModel_DirOk", "dedupeProps_NoJsx", "attrStep_ok", "assembleProps_ok", "finishChildren_ok", "trElement_ok", "trFragment_ok", "trAttrs_ok", "trChildList_ok", "openingHook_ok", "visit_NoJsx", "visitKids_NoJsx", "visitAttrs_Prep", "visitChildren_Prep", "visitValue_Post", "finishModule_NoJsx", "C07_module_NoJsx", "C07_member_tag_printable_or_reported"],
    "extra_modules": ["VueJsx.Props.C07b"],
    "cases": c07_cases,
    "post": c07_post,
    "nontrivial": lambda c, r: True,
    "explanation": "oracle: unless a diagnostic was reported, the real output contains no JSX node of any kind, no empty identifier, no unquoted non-identifier object key and no multi-word callee; supporting execution: SWC prints it (after hygiene+fixer) and re-parses it with JSX disabled",
}



# ---- C08 ---------------------------------------------------------------------------------------------------
def c08_cases(tier, seed):
    r = gen.Rng(seed)
    run = corpus_cases("C08") + fixture_cases()
    for i, c in enumerate(malformed_stream(tier, r)):
        o = c.get("opts") or {k: r.chance(0.5) for k in ("transformOn", "optimize", "mergeProps", "enableObjectSlots")}
        run.append({"id": "x%d" % i, "src": c["src"], "tsx": c["tsx"], "opts": o, "twice": True})
    mods, hist = gen_modules(r, budget(tier, 1200, 30000), GENERAL_PROFILE, std_opts)
    for m in mods:
        m["twice"] = True
    run += mods
    for c in run:
        c["twice"] = True
    return [], run, {"rule": "fixtures + the malformed-usage stream (directive values of every attribute-value kind, holes/spreads/empty arrays, 13 self- or mutually-referential alias/interface declarations x 7 uses, 24 cyclic declarations x 21 type positions (indexed object/key, Pick/Omit keys and object, utility wrappers, unions, intersections, arrays, tuples) x 5 uses (whole props type, member type, SetupContext argument, event parameter of a function type and of a call signature), nesting depth up to 200, finite alias / extends / wrapper chains of every length 58..70 (around the resolver's nesting limit) and 10, 100, 200, ...) + %d generated modules; every case is run TWICE in one process (fresh SWC globals) and once more in a fresh process with the cases in reverse order; outputs, diagnostics and outcomes must be byte-identical; a panic or a process abort (stack overflow) is a violation" % len(mods),
                     "histogram": dict(hist.most_common(30))}


def c08_post(rec, c, r, d):
    if r.get("panic") is not None:
        rec["oracle"] = "FAIL:panic:" + str(r.get("panic"))[:120]
    elif r.get("same_twice") is False:
        rec["oracle"] = "FAIL:nondeterministic-in-process:two runs of the same case differ"
    elif r.get("print_panic"):
        rec["oracle"] = "FAIL:printer-panic:" + str(r.get("print_panic"))[:120]


def c08_extra(run_cases, recs, records):
    """fresh processes, reverse order: byte-identical results"""
    rev = list(reversed(run_cases))
    recs2 = list(reversed(runlib.run_harness(rev, mode="run", nproc=max(2, runlib.NPROC // 2))))
    byid = {r["id"]: r for r in records}
    for c, a, b in zip(run_cases, recs, recs2):
        keys = ("raw_printed", "printed", "diags", "panic", "abort", "parse_error")
        if any(a.get(k) != b.get(k) for k in keys):
            rec = byid.get(c["id"])
            if rec is not None and not rec["oracle"].startswith("FAIL"):
                rec["oracle"] = "FAIL:nondeterministic-across-processes:" + ",".join(k for k in keys if a.get(k) != b.get(k))


PROPS["C08"] = {
    "theorems": ["C08_vhtml_vtext_no_panic", "C08_vhtml_bad_value_reported", "C08_vmodel_no_panic", "C08_parseDirective_no_panic",
                 "C08_depth_bound_is_diagnostic", "C08_given_up_resolution_unwinds", "C08_new_resolution_starts_afresh"],
    "cases": c08_cases,
    "post": c08_post,
    "extra": c08_extra,
    "nontrivial": lambda c, r: True,
    "explanation": "the model's totality is Lean's; the real code is executed on the adversarial stream with catch_unwind per case and process-abort isolation; determinism is checked by repeated in-process and fresh-process runs",
}


# ---- C06 ---------------------------------------------------------------------------------------------------
C06_JSX = ["<Comp>{f()}</Comp>", "<Comp>{val}</Comp>", "<><Comp>{f()}</Comp><Foo>{g()}</Foo></>", "<div v-show={x}>{y}</div>", "<Comp on={{click: fn1}} {...obj}/>",
           "<Unk v-model={val}>t</Unk>", "<Comp>{obj.render()}</Comp>", "<Comp a={<Foo>{h()}</Foo>}>{k()}</Comp>", "<input v-model={$event}/>"]
C06_CTX = ["%s;", "const v = %s;", "function f() { return %s; }", "function f(a = %s) { return a; }", "const r = () => %s;", "const r = (a = %s) => a;",
           "const r = (a) => { return %s; };", "class K { field = %s; }", "class K { static s = %s; m(a = %s) { return %s; } }", "class K { get g() { return %s; } static { init(%s); } }",
           "for (const i of list) { out.push(%s); }", "for (const i of list) out.push(%s);", "if (x) y = %s; else z = %s;", "switch (k) { case 1: r = %s; break; default: r = %s; }",
           "{ { const inner = %s; } }", "const o = { m() { return %s; }, p: %s };", "try { a = %s; } catch (e) { b = %s; }", "label: while (x) { y = %s; break label; }",
           "export default %s;", "export const e = [%s, %s];", "const nested = () => () => %s;", "function outer() { function inner() { return %s; } return inner; }",
           "namespace N { export const c = %s; }", "const t = cond ? %s : %s;", "x = %s, y = %s;"]
C06_SIBLINGS = ["", "function g() { return 1; }", "const q = () => 2;", "val2 = 5;", "const _createVNode = 1, _slot = 2, _isSlot = 3, _Fragment = 4, _slot2 = 5;",
                "function _isSlot() {}", "let $event = 0;", "let _slot; _slot = 1;", "var _slot2, _isSlot; _slot2 = _isSlot = 0;", "let _Comp; _Comp = Comp;", "const h2 = () => { let _slot; return _slot; };", "class C2 { m() { return 1; } }", "(<Foo>{g2()}</Foo>);"]


def c06_cases(tier, seed):
    r = gen.Rng(seed)
    run = corpus_cases("C06") + fixture_cases()
    n = 0
    for ji, jsx in enumerate(C06_JSX):
        for ci, ctx in enumerate(C06_CTX):
            for si in range(len(C06_SIBLINGS)):
                n += 1
                if tier == "quick" and (n % 4) and si:
                    continue
                before, after = C06_SIBLINGS[si], C06_SIBLINGS[(si * 3 + ji) % len(C06_SIBLINGS)]
                ts = "namespace" in ctx
                body = ctx.replace("%s", jsx)
                src = gen.PRELUDE + before + "\n" + body + "\n" + after + "\n"
                run.append({"id": "e%d" % len(run), "src": src, "tsx": ts, "opts": {"optimize": bool(n % 2), "transformOn": True, "enableObjectSlots": n % 7 != 0}})
    # HISTORIES: several lowerings that need a temporary in ONE statement list - pending for the list itself, then a nested scope that declares (and
    # flushes) temporaries of its own, then the list again - in every order and in every kind of list (numbering / reuse of generated names)
    ths = gen.temp_histories(tier)
    for k, c in enumerate(ths):
        run.append({"id": c["id"], "src": c["src"], "tsx": False, "opts": [{}, {"optimize": True, "transformOn": True}, {"optimize": True}, {"mergeProps": False}][k % 4]})
    prof = dict(PROPS_PROFILES["C03"])
    prof["contexts"] = {"expr-stmt": 3, "const": 3, "fn-body": 3, "arrow-expr": 3, "arrow-block": 2, "assign": 2, "nested-block": 2, "class-method": 2,
                        "export-default": 1, "loop": 2, "class-field": 3, "default-param": 3}
    prof["p_distractor"] = 0.6
    prof["n_stmts"] = [(2, 4), (3, 3), (4, 2)]
    mods, hist = gen_modules(r, budget(tier, 2000, 50000), prof, std_opts)
    run += mods
    return [], run, {"rule": "fixtures + product of 9 lowerings that need a helper/temporary (call child, identifier child, fragments, directives, transformOn, v-model, element-valued attribute, `$event` target) x 25 syntactic contexts (module level, function/arrow bodies, default parameters of functions and arrows, class fields/static fields/methods/accessors/static blocks, loops with and without block, if/else, switch cases, nested blocks, object methods, try/catch, labels, exports, nested functions, namespaces, conditionals, sequences) x 10 sibling statements before/after (other functions/arrows, assignments, user declarations named _createVNode/_slot/_isSlot/_Fragment/$event, other JSX) [siblings sampled 1/4 in quick] + %d histories of temporaries (5 statements leaving a temporary pending x 16 nested scopes with temporaries of their own x 7 kinds of statement list x 8 orders such as pending-nested-pending) + %d generated modules biased to temporaries in nested contexts; python-side clauses: no statement list declares one generated binding twice, no generated temporary is assigned at two sites" % (len(ths), len(mods)),
                     "histogram": dict(hist.most_common(30))}


def generated_binding_collisions(out):
    """(declared twice, assigned twice): bindings (name + syntax context) that ONE statement list / module body declares more than once with at least one
    of the declarations inserted by the transform; generated `let` temporaries (declarator without initializer in an inserted declaration) that are
    assigned at more than one site (an assignment belongs to the innermost enclosing list that declares the name: shadowing is resolved)"""
    twice, assigns = [], collections.Counter()
    def declared_names(pat, acc):
        if isinstance(pat, dict):
            if pat.get("type") == "Identifier":
                if "ctxt" in pat:
                    acc.append((pat.get("value"), pat.get("ctxt")))
                return
            for k, v in pat.items():
                if k not in ("init", "right") and isinstance(v, (dict, list)):
                    declared_names(v, acc)
        elif isinstance(pat, list):
            for x in pat:
                declared_names(x, acc)
    def stmt_list(stmts):
        seen, gen_lets = {}, set()
        for st in stmts:
            if isinstance(st, dict) and st.get("type") == "ExportDeclaration":
                st = st.get("declaration") or {}
            if isinstance(st, dict) and st.get("type") == "VariableDeclaration" and st.get("kind") in ("let", "const"):
                g = _dummy_span(st)
                for dcl in st.get("declarations", []):
                    names = []
                    declared_names(dcl.get("id"), names)
                    for nm in names:
                        if nm in seen and (g or seen[nm]):
                            twice.append(nm[0])
                        seen[nm] = seen.get(nm, False) or g
                    if g and dcl.get("init") is None:
                        gen_lets.update(names)
        return gen_lets
    def walk(n, frames):
        if isinstance(n, list):
            for x in n:
                walk(x, frames)
        elif isinstance(n, dict):
            # the statement lists: module / namespace body, block (function bodies, static blocks, loops, try ...), switch case
            lst = n.get("body") if n.get("type") in ("Module", "Script", "TsModuleBlock") else n.get("stmts") if n.get("type") == "BlockStatement" else \
                n.get("consequent") if n.get("type") == "SwitchCase" else None
            if isinstance(lst, list):
                lets = stmt_list(lst)
                if lets:
                    frames = frames + [(id(lst), lets)]
            if n.get("type") == "AssignmentExpression" and n.get("operator") == "=":
                left = n.get("left") or {}
                while left.get("type") == "ParenthesisExpression":
                    left = left.get("expression") or {}
                if left.get("type") == "Identifier":
                    key = (left.get("value"), left.get("ctxt"))
                    for fid, lets in reversed(frames):
                        if key in lets:
                            assigns[(fid, key)] += 1
                            break
            for v in n.values():
                walk(v, frames)
    walk(out, [])
    return sorted(set(twice)), sorted(set(key[0] for (fid, key), k in assigns.items() if k > 1))


def c06_post(rec, c, r, d):
    """python-side clauses (Oracle.scopeJudge asks whether every use HAS a declaration; it does not ask whether two generated names are one binding):
    a generated name must not collide with another generated name - no statement list may declare the same generated binding twice (`let _slot, _slot`
    is not even a program), and two lowerings must not write one temporary (each `_slot` is assigned by exactly one `_isSlot(_slot = ...)`)"""
    if os.environ.get("VJX_NO_PY_CLAUSES"):
        return
    if rec["oracle"] != "ok" or "out" not in r or r.get("panic") is not None:
        return
    twice, shared = generated_binding_collisions(r["out"])
    if twice:
        rec["oracle"] = "FAIL:generated-binding-declared-twice:one statement list declares the generated binding(s) %s more than once (same name AND syntax context: renaming cannot separate them)" % twice
    elif shared:
        rec["oracle"] = "FAIL:generated-temporary-assigned-twice:the generated temporaries %s are written by more than one lowering (two elements share one binding)" % shared


PROPS["C06"] = {
    "post": c06_post,
    "theorems": ["drainInto_clears", "drainInto_shape", "C06_stmts_scoped", "C06_stmts_result", "C06_arrow_params_outward", "C06_fresh_distinct",
                 "isGenBind_fresh", "C06_module_declares_everything", "C06_helper_declared_when_used"],
    "cases": c06_cases,
    "explanation": "oracle: a scope analysis of the real output: every use of a generated identifier has a declaration (vue import, helper import, `function _isSlot`, let/const declarator, parameter) in a scope enclosing the use; a default-parameter value does not see the body's declarations; a let/const declaration precedes every statement that eagerly reads it; every imported/declared generated binding is used; generated and user bindings are distinguished by SWC's syntax contexts (identity = name + context)",
}


# ---- C10 ---------------------------------------------------------------------------------------------------
C10_PREFIX = ["val = 5;", "x = y;", "obj = {};", "cls = 1; cls = 2;", "function g() { const t = <Foo>{k()}</Foo>; return t; }", "const q = () => <Bar>{m()}</Bar>;",
              "(<></>);", "(<><i/></>);", "const fr = <Fragment>t</Fragment>;", "import { h, Fragment as _Fragment, createVNode as _createVNode } from 'vue';",
              "import { Fragment } from 'vue';", "(<Comp>{f()}</Comp>);", "(<div v-show={x}/>);", "(<Comp on={{a: 1}}/>);", "list = []; fn1 = null;",
              "for (const i of list) { cls = i; }", "class Z { m() { val = 1; } }", "const w = (val = 2, 3);", "(<Unk v-model={val}/>);", "function h3(val) { val = 1; }",
              # an assignment whose remembered target is CONSUMED by another component before the statement (two statements each)
              "val = 5; (<Comp>{f()}</Comp>);", "cls = 1; (<Foo>{x}</Foo>);", "obj = {}; const q0 = <Bar>{list}</Bar>;", "fn1 = null; out.push(<Unk>{y}</Unk>);"]
C10_STMTS = ["const s = <Comp>{val}</Comp>;", "const s = <Comp>{f()}</Comp>;", "const s = <_Fragment>t</_Fragment>;", "const s = <Fragment>{x}</Fragment>;", "const s = <><Comp>{obj}</Comp></>;",
             "const s = <div class={cls} {...obj}>t {x}</div>;", "const s = <Unk v-slots={slotsObj}>{list}</Unk>;", "const s = () => <Foo>{fn1}</Foo>;", "const s = <KeepAlive><Comp>{x}</Comp></KeepAlive>;",
             "const s = <Comp on={{click: fn1}} v-model={val}>{val}</Comp>;", "function s() { return <Comp>{val}</Comp>; }", "const s = <Foo>{cls}</Foo>;"]


C10_OUTER_TEMP = ["(<Comp>{fa()}</Comp>);", "const pa = <Foo>{ga()}</Foo>;", "(<><Comp>{fa()}</Comp><Foo>{ga()}</Foo></>);", "out.push(<Unk>{obj.render()}</Unk>);"]
C10_NESTED = ["function nst1() { const t = <Foo>{k()}</Foo>; return t; }", "const nst2 = () => <Bar>{m()}</Bar>;", "{ const nst3 = <Foo>{k()}</Foo>; }",
              "class nst4 { m() { return <Bar>{m()}</Bar>; } }", "if (x) { out.push(<Foo>{k()}</Foo>, <Bar>{m()}</Bar>); }", "function nst6() { return <i/>; }",
              "const nst7 = () => { const inner = () => <Foo>{k()}</Foo>; return <Bar>{inner()}</Bar>; };", "for (const it of list) { out.push(<Foo>{it()}</Foo>); }"]
C10_TAGS = ["div", "motion.div", "input", "Form.input", "Comp", "ui.Comp", "NS.Item", "Item", "my-el", "a.b.div", "select", "textarea", "ui.textarea", "Unk", "x.Unk"]
# OTHER JSX trees whose children make slots dynamic (a locally bound identifier as an expression or spread child, at the root or nested, under an
# element / component / fragment root, in a statement, a function, an arrow, a class) ...
C10_DYN_OTHER = ["const dq1 = <h1>{val}</h1>;", "(<Foo>{cls}</Foo>);", "function dq2() { return <div><b>{obj}</b></div>; }", "const dq3 = () => <Bar>{...list}</Bar>;",
                 "(<>{val}</>);", "const dq4 = <Foo><Bar>t {fn1}</Bar></Foo>;", "class dq5 { m() { return <p>{cls}{x}</p>; } }", "(<Unk v-slots={slotsObj}>{obj}</Unk>);",
                 "const dq6 = <div a={<i>{val}</i>}/>;", "out.push(<Foo>{<b>{list}</b>}</Foo>);", "const dq7 = <KeepAlive>{slotsObj}</KeepAlive>;", "(<my-el>{...obj}</my-el>);"]
# ... around statements whose slot flags depend on which children are locally bound identifiers (direct / nested / beside text / spread / unbound)
C10_DYN_STMTS = ["const s = <Comp>{val}</Comp>;", "const s = <Comp>x {cls}</Comp>;", "const s = <Foo>{...list}</Foo>;", "const s = <Comp><Foo>{val}</Foo></Comp>;",
                 "const s = <div><Comp>{obj}</Comp></div>;", "const s = <Comp>{x}</Comp>;", "const s = <NS.Item>{fn1}{y}</NS.Item>;", "const s = <Unk><i/>{slotsObj}</Unk>;",
                 "const s = <><Bar>{cls}</Bar></>;", "function s() { return <Foo>t{val}</Foo>; }", "const s = () => <Comp>{list}</Comp>;", "const s = <Comp v-slots={{ n: () => 1 }}>{val}{obj}</Comp>;"]


C10_TWO_STMTS = {"cls = 1; cls = 2;", "list = []; fn1 = null;", "val = 5; (<Comp>{f()}</Comp>);", "cls = 1; (<Foo>{x}</Foo>);",
                 "obj = {}; const q0 = <Bar>{list}</Bar>;", "fn1 = null; out.push(<Unk>{y}</Unk>);"}


def c10_nstmts(pre):
    """top-level statements a prefix is written as"""
    return 2 if pre in C10_TWO_STMTS else 1


def c10_cases(tier, seed):
    r = gen.Rng(seed)
    run, pairs = [], []
    npre = 3   # statements of PRELUDE
    n = 0
    for si, stmt in enumerate(C10_STMTS):
        for o in ([{}, {"optimize": True}, {"enableObjectSlots": False, "transformOn": True}] if tier != "quick" else [{"optimize": bool(si % 2), "transformOn": True}]):
            a = {"id": "alone%d_%d" % (si, n), "src": gen.PRELUDE + stmt + "\n", "tsx": False, "opts": o}
            run.append(a)
            for pi, pre in enumerate(C10_PREFIX):
                for qi, suf in enumerate(["", C10_PREFIX[(pi * 7 + si) % len(C10_PREFIX)]]):
                    if pre.startswith("import") and suf.startswith("import"):
                        continue
                    # an import that BINDS a name the statement references changes the statement's bindings: not a distractor
                    if "Fragment" in stmt and (pre.startswith("import") or suf.startswith("import")):
                        continue
                    n += 1
                    k = len([x for x in pre.split(";") if x.strip()]) if not pre.startswith(("function", "class", "for", "import")) else 1
                    # count top-level statements of the prefix by parsing convention: each prefix is written as k statements
                    k = c10_nstmts(pre)
                    b = {"id": "ctx%d" % n, "src": gen.PRELUDE + pre + "\n" + stmt + "\n" + suf + "\n", "tsx": False, "opts": o}
                    run.append(b)
                    pairs.append({"id": "c10_%d" % n, "mode": "c10:%d:%d" % (npre, npre + k), "a": a["id"], "b": b["id"]})
    # tags of different kinds that share a name or a last segment: each lowered alone vs. after / before each other
    for ti, t2 in enumerate(C10_TAGS):
        for shape in ["const s = <T v-model={val}>{x}{y}</T>;", "const s = <T class={cls}>{f()}</T>;"]:
            o = {"customElementPatterns": ["^my-"], "optimize": bool(ti % 2)}
            stmt = shape.replace("T", t2)
            a = {"id": "tagalone%d" % n, "src": gen.PRELUDE + stmt + "\n", "tsx": False, "opts": o}
            run.append(a)
            for t1 in C10_TAGS:
                if t1 == t2:
                    continue
                for before in (True, False):
                    n += 1
                    other = "const other = <%s>{x}{y}</%s>;" % (t1, t1)
                    src = gen.PRELUDE + (other + "\n" + stmt if before else stmt + "\n" + other) + "\n"
                    b = {"id": "tagctx%d" % n, "src": src, "tsx": False, "opts": o}
                    run.append(b)
                    pairs.append({"id": "c10tag_%d" % n, "mode": "c10:%d:%d" % (npre, npre + (1 if before else 0)), "a": a["id"], "b": b["id"]})
    # HISTORIES of length > 1 around the statement: other module-level JSX that needs a temporary (A), nested statement lists / functions / arrows /
    # methods / blocks with and without temporaries of their own (N), in every order before and after the statement
    for si, stmt in enumerate(C10_STMTS):
        o = {"optimize": bool(si % 2)} if tier == "quick" else {"optimize": bool(si % 2), "transformOn": True}
        a = {"id": "halone%d" % si, "src": gen.PRELUDE + stmt + "\n", "tsx": False, "opts": o}
        run.append(a)
        hists = []
        for ai, A in enumerate(C10_OUTER_TEMP):
            for ni, N in enumerate(C10_NESTED):
                A2, N2 = re.sub(r"\bpa\b", "pa2", C10_OUTER_TEMP[(ai + 1) % len(C10_OUTER_TEMP)]), re.sub(r"\bnst", "nsu", C10_NESTED[(ni + 2) % len(C10_NESTED)])
                hists += [([A, N], []), ([], [N, A]), ([A], [N]), ([N, A], [N2]), ([A, N], [N2, A2]), ([N], [A, N2])]
        for hi, (pre, suf) in enumerate(hists):
            if tier == "quick" and (hi + si) % 2:
                continue
            n += 1
            b = {"id": "hctx%d" % n, "src": gen.PRELUDE + "\n".join(pre + [stmt] + suf) + "\n", "tsx": False, "opts": o}
            run.append(b)
            pairs.append({"id": "c10h_%d" % n, "mode": "c10:%d:%d" % (npre, npre + len(pre)), "a": a["id"], "b": b["id"]})
    # state that outlives a JSX TREE: the slot flag of an element depends on which children are locally bound identifiers; every statement of that
    # kind alone vs. after / between / before other trees that were marked dynamic (or not), with the hints on and off
    for si, stmt in enumerate(C10_DYN_STMTS):
        for oi, o in enumerate([{"optimize": True}, {"optimize": True, "enableObjectSlots": False, "mergeProps": False}, {"optimize": False}]):
            if tier == "quick" and oi == 2 and si % 3:
                continue
            a = {"id": "dynalone%d_%d" % (si, oi), "src": gen.PRELUDE + stmt + "\n", "tsx": False, "opts": o}
            run.append(a)
            for di, other in enumerate(C10_DYN_OTHER):
                other2 = re.sub(r"\bdq", "dr", C10_DYN_OTHER[(di * 5 + si + 1) % len(C10_DYN_OTHER)])
                for pre, suf in ([other], []), ([], [other]), ([other, other2], []), ([other2], [other]):
                    if tier == "quick" and oi and (di + si + len(pre)) % 3:
                        continue
                    n += 1
                    b = {"id": "dynctx%d" % n, "src": gen.PRELUDE + "\n".join(pre + [stmt] + suf) + "\n", "tsx": False, "opts": o}
                    run.append(b)
                    pairs.append({"id": "c10dyn_%d" % n, "mode": "c10:%d:%d" % (npre, npre + len(pre)), "a": a["id"], "b": b["id"]})
    # random: a generated statement alone vs. between generated distractor statements
    prof = dict(GENERAL_PROFILE); prof["n_stmts"] = [(1, 1)]; prof["p_distractor"] = 0
    for i in range(budget(tier, 500, 12000)):
        g = gen.Gen(r, prof)
        stmt = "const s%d = %s;" % (i, g.element(0))
        o = std_opts(r)
        o.pop("pragma", None)
        pre = [r.pick(C10_PREFIX[:9] + C10_PREFIX[11:] + C10_DYN_OTHER) for _ in range(r.below(3))]
        pre = [p for p in pre if p not in ("cls = 1; cls = 2;", "list = []; fn1 = null;")]
        suf = [r.pick(C10_PREFIX[:9] + C10_PREFIX[11:] + C10_DYN_OTHER) for _ in range(r.below(2))]
        a = {"id": "ra%d" % i, "src": gen.PRELUDE + stmt + "\n", "tsx": False, "opts": o}
        b = {"id": "rb%d" % i, "src": gen.PRELUDE + "\n".join(pre) + "\n" + stmt + "\n" + "\n".join(suf) + "\n", "tsx": False, "opts": o}
        run += [a, b]
        pairs.append({"id": "r%d" % i, "mode": "c10:%d:%d" % (npre, npre + sum(c10_nstmts(p) for p in pre)), "a": a["id"], "b": b["id"]})
    return [], run, {"rule": "pair oracle on the real code: 12 JSX statements (sole identifier/call children, Fragment/_Fragment tags, fragments, spreads, v-slots, arrows, KeepAlive, transformOn + v-model, function bodies) transformed ALONE and between 20 prefixes x 2 suffixes; 15 tags of different kinds sharing a name or last segment (div / motion.div / a.b.div, input / Form.input, Comp / ui.Comp, ...) x 2 shapes, each alone vs. before and after each other tag; (assignments to same-named variables, function/arrow bodies with other JSX needing temporaries, fragment uses, user imports of Fragment/createVNode/h from 'vue', directives, transformOn, loops, classes, shadowing parameters) + %d generated statements between random distractors; the lowered statement must be identical up to renaming of generated identifiers; + HISTORIES of length > 1: 12 statements x (4 module-level JSX needing a temporary x 8 nested functions / arrows / blocks / methods / loops with and without temporaries of their own) x 6 arrangements before and after the statement [sampled 1/2 in quick]; python-side clause: a module-level temporary of the statement is mentioned by no other statement (as when alone); + state that outlives a JSX tree: 12 statements whose slot flags depend on locally bound identifier children (direct, nested, beside text, spread, unbound, in fragments / arrows / functions, beside v-slots) x 12 other trees that are marked dynamic (identifier / spread children at the root or nested, element / component / fragment / custom-element roots, in statements, functions, arrows, classes, attribute values) x 4 arrangements x 3 option sets with the hints on and off [sampled in quick]" % budget(tier, 500, 12000),
                     "pairs": pairs}


def _dummy_span(n):
    sp = n.get("span") or {}
    return sp.get("start") == 0 and sp.get("end") == 0


def _ident_ids(node, acc):
    if isinstance(node, dict):
        if node.get("type") == "Identifier" and "ctxt" in node:
            acc.add((node.get("value"), node["ctxt"]))
        for v in node.values():
            _ident_ids(v, acc)
    elif isinstance(node, list):
        for v in node:
            _ident_ids(v, acc)
    return acc


def temporaries_shared(out, idx):
    """for the idx-th user statement of an output module: the module-level temporaries (declarators of the `let` / `const` statements the transform
    inserted at module level) it uses, and how many OTHER user statements mention the same binding (name + syntax context)"""
    body = out.get("body", [])
    temps = set()
    for it in body:
        if it.get("type") == "VariableDeclaration" and _dummy_span(it):
            for d in it.get("declarations", []):
                if (d.get("id") or {}).get("type") == "Identifier":
                    temps.add((d["id"].get("value"), d["id"].get("ctxt")))
    user = [it for it in body if not _dummy_span(it)]
    if idx >= len(user):
        return None
    mine = _ident_ids(user[idx], set()) & temps
    others = [_ident_ids(it, set()) for k, it in enumerate(user) if k != idx]
    return sorted((t[0], sum(1 for o in others if t in o)) for t in mine)


def c10_extra(run_cases, recs, records):
    """python-side clause of the pair oracle (binding identity is not in the printed statement): a temporary the lowered statement writes must not be
    mentioned by any other statement of the module - alone it never is; if it is in context, what the statement evaluates to (its slot functions
    read the temporary lazily) depends on the code around it"""
    if os.environ.get("VJX_NO_PY_CLAUSES"):
        return
    byid = {c["id"]: r for c, r in zip(run_cases, recs)}
    for rec in records:
        if rec["kind"] != "pair" or rec["oracle"].startswith("FAIL") or not str(rec["case"].get("mode", "")).startswith("c10:"):
            continue
        _, i, j = rec["case"]["mode"].split(":")
        ra, rb = byid.get(rec["case"]["a"]["id"]), byid.get(rec["case"]["b"]["id"])
        if not ra or not rb or "out" not in ra or "out" not in rb:
            continue
        sa, sb = temporaries_shared(ra["out"], int(i)), temporaries_shared(rb["out"], int(j))
        if sa is None or sb is None:
            continue
        if [n for _, n in sa] != [n for _, n in sb]:
            rec["oracle"] = "FAIL:temporary-shared-with-other-code:the statement's module-level temporaries and the number of other statements mentioning each: alone %r, in context %r" % (sa, sb)


PROPS["C10"] = {
    "extra": c10_extra,
    "theorems": ["C10_host_classification_state_free", "C10_fragment_by_name", "C10_no_capture_without_assignment", "C10_assignment_consumed",
                 "C10_only_assignments_remembered"],
    "cases": c10_cases,
    "nontrivial": lambda c, r: True,
    "explanation": "pair oracle: the lowered statement alone = the lowered statement in context, modulo renaming of generated identifiers within the statement",
}


# ---- C11 ---------------------------------------------------------------------------------------------------
def c11_cases(tier, seed):
    r = gen.Rng(seed)
    run = corpus_cases("C11") + fixture_cases()
    obs = ["a()", "b.c", "d[e]", "f(g())", "h`t`", "new K()", "i ? j() : k", "(l, m())", "n + o()", "await p", "{q: r()}", "[s(), t]"]
    hosts = ["div", "Comp", "Unk", "NS.Item", "KeepAlive"]
    shapes = ["<H A1 {...A2} A3>{C1}{C2}</H>", "<H class={A1} id={A2} class={A3}>{C1}</H>", "<H onClick={A1} {...A2} onClick={A3}/>", "<H v-foo={[A1, A2]} x={A3}>{C1}</H>",
              "<H v-model={[A1, A2]}>{C1}{C2}</H>", "<H>{C1}</H>", "<H v-show={A1} v-html={A2}/>", "<H on={A1} a={A2}>{C1}<i b={C2}/></H>", "<H v-slots={{s: () => A1}} k={A2}>{C1}</H>",
              "<H a=<J b={A1}>{A2}</J>>{C1}</H>"]
    n = 0
    for host in hosts:
        for sh in shapes:
            for k in range(budget(tier, 3, 12)):
                n += 1
                vals = [r.pick(obs) for _ in range(5)]
                s = sh.replace("H", host).replace("J", "Foo")
                s = s.replace("A1", "x1={%s}" % vals[0] if " A1 " in sh or "H A1" in sh else vals[0]) if False else s
                s = s.replace("H A1", "%s x1={%s}" % (host, vals[0])).replace("A1", vals[0]).replace("A2", vals[1]).replace("A3", "x3={%s}" % vals[2] if " A3>" in sh and "{A3}" not in sh else vals[2])
                s = s.replace("C1", vals[3]).replace("C2", vals[4])
                run.append({"id": "e%d" % n, "src": gen.PRELUDE + "const v = " + s + ";\n", "tsx": False,
                            "opts": {"transformOn": True, "optimize": bool(n % 2), "mergeProps": n % 3 != 0, "enableObjectSlots": n % 5 != 0}})
    mods, hist = gen_modules(r, budget(tier, 2500, 60000), GENERAL_PROFILE, std_opts)
    run += mods
    return [], run, {"rule": "fixtures + 5 hosts x 10 element shapes with observable expressions (calls, member and index accesses, tagged templates, new, conditionals, sequences, await, object/array literals with calls) in attribute, spread, child, directive value/argument, v-model, v-slots and element-valued-attribute positions + %d generated modules" % len(mods),
                     "histogram": dict(hist.most_common(30))}


PROPS["C11"] = {
    "theorems": ["plainAttrFlags_frame", "C11_plain_attr_appended", "C11_transformOn_after_earlier_attrs", "C11_child_expression_in_order",
                 "C11_component_children_lazy", "C11_call_child_once", "C11_fragment_argument_order",
                 "C01_plain_attrs_exactly_written", "C01_plain_element_props_object"],
    "extra_modules": ["VueJsx.Props.C01b"],
    "cases": c11_cases,
    "explanation": "oracle: the creation trace (tag, props in order with repeated class/style/listeners at their first position, then children of non-component hosts; a sole call child of a component once) and the default-slot trace of every element, computed from the denotation of the input, equal those computed from the evaluation of the real output (temporaries substituted only when assigned exactly once inside the _isSlot test); directive expressions once each",
}


# ---- C16-C19 -----------------------------------------------------------------------------------------------
def ts_cases(pid, casefn, tier, seed, n_quick, n_thorough, extra=None, products=None):
    r = gen.Rng(seed)
    run = corpus_cases(pid) + fixture_cases(lambda c: c["tsx"])
    for cid, src in (products or []):
        run.append({"id": cid, "src": src, "tsx": True, "opts": {"resolveType": True, "optimize": len(run) % 3 == 0}})
    hist = collections.Counter()
    bodyfn = getattr(tsgen, casefn.__name__.replace("_case", "_body"), None)
    for i in range(budget(tier, n_quick, n_thorough)):
        if bodyfn is not None and i % 5 == 4:
            # several bodies in different scopes of ONE module, the same declaration names meaning different things in each
            src, used = tsgen.multi_scope_case(r, i, bodyfn)
        else:
            src, used = casefn(r, i)
        hist.update(used)
        run.append({"id": "t%d" % i, "src": src, "tsx": True, "opts": {"resolveType": True, "optimize": r.chance(0.3)}})
    for j, e in enumerate(extra or []):
        run.append({"id": "x%d" % j, "src": "import { defineComponent } from 'vue';\nconst dflt = {};\n" + e + "\n", "tsx": True, "opts": {"resolveType": True}})
    return run, hist


def c16_cases(tier, seed):
    run, hist = ts_cases("C16", tsgen.c16_case, tier, seed, 2500, 60000, tsgen.UNRESOLVABLE,
                         products=tsgen.same_name_products(tsgen.C16_NAME_KINDS, tsgen.C16_PAYLOADS, True) + tsgen.extends_products(True, tier))
    return [], run, {"rule": "TSX fixtures + %d generated calls: a random finite prop map (identifier / quoted / hyphenated keys; properties, methods, getters; optional flags) encoded by recursively partitioning and wrapping it with literal, alias (also exported), interface, merged interfaces, extends, intersection, parentheses, Partial, Required, Pick/Omit with literal-union keys (also through an alias), indexed access through alias/interface/literal, with every declaration placed before OR after the call (25%%) and the whole in module, function or block scope (shadowing); REUSE: one declaration (interface with extends, extends chain, sibling interfaces sharing a base, merged interface, alias) reached several times in one annotation through different Pick / Omit / Partial / Required views that partition the map; every 5th module holds 2-3 independently generated bodies in different scopes that declare the SAME names (sibling functions, shadowing before/after, nested, blocks); + 294 modules: one name declared in two scopes as every ordered pair of 7 declaration kinds x 6 arrangements; + `extends` products: the parent as every kind of declaration naming an object type (interface, alias of a literal / interface / intersection / alias / parenthesised type, interface with parents of its own, merged, exported) x 9 scope relations between parent, child interface and call (same list, enclosing list, module level before / after, nested functions, call in an inner block or method, sibling scope declaring the same name, inner redeclaration, parent after the child) x one parent / two parents / an intermediate interface x the child used directly / through an alias / in an intersection [sampled 1/4 in quick beyond the single-parent, direct-use slice]; + 12 unresolvable / unsupported types that must be reported" % (len(run) - 12),
                     "histogram": dict(hist.most_common(40))}


def c17_cases(tier, seed):
    run, hist = ts_cases("C17", tsgen.c17_case, tier, seed, 2500, 60000)
    return [], run, {"rule": "TSX fixtures + generated calls whose props have types from a 46-entry atom table (keywords, literal types incl. bigint and template, function/constructor types, arrays, tuples, object types with call/construct signatures, built-in classes, unknown references, utility wrappers) combined by union, intersection, alias and interface indirection, parentheses, NonNullable/Exclude/Extract, array/tuple/property indexing, nested to depth 3",
                     "histogram": dict(hist.most_common(40))}


def c18_cases(tier, seed):
    run, hist = ts_cases("C18", tsgen.c18_case, tier, seed, 2500, 60000, products=tsgen.c18_products(tier) + tsgen.c18_spelling_products(tier))
    return [], run, {"rule": "TSX fixtures + generated calls: random prop maps (incl. Function-typed props) x default objects mixing literal, expression, shorthand, getter, method, async method, quoted and computed-literal keys, extra keys, and the dynamic forms (identifier, spread, computed identifier key, computed expression key); + SEVERAL calls annotated with ONE named props type (interface, alias, extends, exported and declared after use): every ordered pair and sampled triples of 8 default kinds (static, none, identifier, spread, computed key, {}, getter/shorthand, call); + ONE prop declared under several spellings (`label`, `'label'`, `['label']`) brought together by intersection / union / merged interfaces / extends / aliases / Partial x 10 defaults (literal, quoted / computed key, factory, shorthand, getter, method, undefined, arrow, written twice) x 4 prop types x both orders; python-side clauses: no `default` entry and no mergeDefaults without a written default, declarations handed to mergeDefaults carry no `default`",
                     "histogram": dict(hist.most_common(40))}


def c19_cases(tier, seed):
    run, hist = ts_cases("C19", tsgen.c19_case, tier, seed, 2500, 60000,
                         products=tsgen.same_name_products(tsgen.C19_NAME_KINDS, tsgen.C19_PAYLOADS, False) + tsgen.extends_products(False, tier))
    return [], run, {"rule": "TSX fixtures + generated calls: event-name sets (incl. names with `:` and `-`) encoded as function types, unions of function types, literal-union first parameters (also through an alias), call-signature literals, interfaces, extends chains, property syntax, aliases (also exported), intersections, declarations before or after the call; second parameter as identifier or destructuring pattern, with or without SetupContext; every 5th module holds 2-3 independently generated bodies in different scopes declaring the SAME alias / interface names; + 384 modules: one name declared in two scopes as every ordered pair of 8 declaration kinds (literal-union alias used by a function type / call signature / through another alias / through an interface, function-type alias, interface, interface with extends, property syntax) x 6 arrangements (sibling scopes, shadowing before / after, nested, declaration after use, three uses); + `extends` products: the parent as every kind of declaration naming an object type (interface, alias of a literal / interface / intersection / alias / parenthesised type / function type, interface with parents of its own, merged, exported) x 9 scope relations between parent, child interface and call (same list, enclosing list, module level before / after, nested functions, call in an inner block or method, sibling scope declaring the same name, inner redeclaration, parent after the child) x one parent / two parents / an intermediate interface x the child used directly / through an alias / in an intersection / union [sampled 1/4 in quick beyond the single-parent, direct-use slice]",
                     "histogram": dict(hist.most_common(40))}


_has_dc = lambda c, r: "defineComponent(" in c["src"]


def _dc_calls(node, acc):
    """user-written calls `defineComponent(...)` (identifier callee, real span), keyed by span"""
    if isinstance(node, dict):
        if node.get("type") == "CallExpression" and not _dummy_span(node) and (node.get("callee") or {}).get("type") == "Identifier" \
                and node["callee"].get("value") == "defineComponent":
            sp = node["span"]
            acc[(sp["start"], sp["end"])] = node
        for v in node.values():
            _dc_calls(v, acc)
    elif isinstance(node, list):
        for v in node:
            _dc_calls(v, acc)
    return acc


def _key_text(k):
    k = k or {}
    if k.get("type") in ("Identifier", "StringLiteral"):
        return str(k.get("value"))
    if k.get("type") == "NumericLiteral":
        return str(k.get("value"))
    return None


def c18_post(rec, c, r, d):
    """python-side clauses of the statement that Oracle.defaultsJudge does not evaluate (it judges calls WITH a written default only):
    (1) a call whose props parameter has NO default gets no `default` entry in the injected props and no mergeDefaults;
    (2) when the injected props go through mergeDefaults, the declarations handed to it carry no `default` of their own
        (otherwise a prop absent from the dynamic object keeps a default nobody wrote for this component)"""
    if os.environ.get("VJX_NO_PY_CLAUSES"):
        return
    if rec["oracle"] != "ok" or not (c.get("opts") or {}).get("resolveType") or "in" not in r or "out" not in r or r.get("panic") is not None:
        return
    cin, cout = _dc_calls(r["in"], {}), _dc_calls(r["out"], {})
    for sp, ci in sorted(cin.items()):
        co = cout.get(sp)
        if co is None:
            continue
        ain, aout = ci.get("arguments", []), co.get("arguments", [])
        if len(ain) != 1 or len(aout) != 2 or any(a.get("spread") for a in ain + aout):
            continue                       # the user passed options of their own (C20's territory) or nothing was injected
        setup = ain[0]["expression"]
        if setup.get("type") == "ArrowFunctionExpression":
            params = setup.get("params", [])
        elif setup.get("type") == "FunctionExpression":
            params = [p.get("pat") for p in setup.get("params", [])]
        else:
            continue
        if not params:
            continue
        has_default = (params[0] or {}).get("type") == "AssignmentPattern"
        opts = aout[1]["expression"]
        if opts.get("type") != "ObjectExpression" or not _dummy_span(opts):
            continue
        pv = [p.get("value") for p in opts.get("properties", []) if p.get("type") == "KeyValueProperty" and _key_text(p.get("key")) == "props"]
        if len(pv) != 1:
            continue
        pv = pv[0]
        merged = False
        if pv.get("type") == "CallExpression" and str((pv.get("callee") or {}).get("value", "")).endswith("mergeDefaults"):
            merged = True
            margs = pv.get("arguments", [])
            pv = margs[0]["expression"] if margs else {}
        if pv.get("type") != "ObjectExpression":
            continue
        carrying = []
        for e in pv.get("properties", []):
            if e.get("type") == "KeyValueProperty" and (e.get("value") or {}).get("type") == "ObjectExpression":
                for f in e["value"].get("properties", []):
                    if _key_text(f.get("key")) == "default" or (f.get("type") in ("MethodProperty", "GetterProperty") and _key_text(f.get("key")) == "default"):
                        carrying.append(_key_text(e.get("key")))
        where = "call at bytes %d..%d" % sp
        if not has_default and merged:
            rec["oracle"] = "FAIL:mergeDefaults-without-a-written-default:%s has no parameter default but its props go through mergeDefaults" % where
            return
        if not has_default and carrying:
            rec["oracle"] = "FAIL:default-without-a-written-default:%s: the props parameter has no default, yet props %s received a `default`" % (where, carrying)
            return
        if merged and carrying:
            rec["oracle"] = "FAIL:merged-declarations-carry-defaults:%s: the declarations handed to mergeDefaults already carry a `default` for %s (not written for this call)" % (where, carrying)
            return

PROPS["C16"] = {"theorems": ['C16_literal', 'C16_alias', 'C16_paren', 'C16_partial_required_flags', 'C16_partial_sets_optional', 'C16_pick_omit_partition', 'C16_required_iff_not_optional', 'C16_imported_type_reported', 'C16_unknown_global_reported', 'C16_unsupported_construct_reported', 'aliasHook_registers', 'C16_registry_from_whole_module', 'resolveElements_eq_members', 'propFold_mems', 'C16_grammar', 'C16_spec_registry_is_the_models', 'C16_merged_interface_keeps_extends', 'C16_interface_extends', 'C16_extends_parent_with_arguments', 'C16_extends_qualified_reported', 'C16_indexed_access_inherited', 'C16_partial_over_getter', 'C16_indexed_access_into_intersection', 'C16_indexed_access_paren', 'C16_indexed_access_into_utility', 'C16_refines_spec', 'C16_model_implements_spec', 'literalStrings_refines', 'propsOfTypeG_mono'], "extra_modules": ["VueJsx.Props.C16c"], "cases": c16_cases, "nontrivial": _has_dc,
                "explanation": "oracle: the set-theoretic meaning of the annotated props type over the WHOLE module's declarations (TypeSpec.propsOfType) = the keys and `required` flags of the injected props; a type outside the grammar must be reported"}
PROPS["C17"] = {"theorems": ['C17_keyword_table', 'C17_structural_table', 'C17_literal_table', 'C17_builtin_class', 'C17_union_order', 'inferRuntime_eq_rt', 'rt_sound', 'C17_soundness', 'C17_emitted_no_stricter', 'C17_soundness_emitted', 'C17_null_kept', 'C17_boolean_string_order', 'C17_object_like_never_empty', 'C17_empty_object_literal', 'C17_interface_own_members', 'C17_interface_extends_only', 'C17_tuple_rest_element', 'C17_indexed_access_never_empty', 'C17_refines_spec', 'C17_model_implements_spec'], "extra_modules": ["VueJsx.Props.C17c"], "cases": c17_cases, "nontrivial": _has_dc,
                "explanation": "oracle: the JavaScript constructors of the declared type (TypeSpec.ctorsOfType; any/unknown = no check) = those of the emitted `type`, Boolean/String order kept"}
PROPS["C18"] = {"theorems": ['C18_literal_as_is', 'C18_expression_through_factory', 'C18_function_prop_gets_value', 'C18_function_prop_gets_written_function', 'C18_shorthand', 'C18_getter', 'C18_method_is_the_function', 'C18_key_spellings_match', 'C18_dynamic_forms', 'C18_one_dynamic_entry_suffices', 'C18_dynamic_goes_through_mergeDefaults', 'C18_no_default_no_entry', 'C18_function_flag_is_vues', 'C18_union_with_function_is_not_function_prop'], "cases": c18_cases, "post": c18_post, "nontrivial": _has_dc,
                "explanation": "oracle: every statically written default reaches its prop's `default` as the value itself (literals, methods, Function-typed props) or as a factory returning it; non-analysable defaults go through mergeDefaults unchanged"}
PROPS["C19"] = {"theorems": ['C19_no_second_parameter', 'C19_unannotated_second_parameter', 'C19_other_annotation', 'C19_not_a_function', 'C19_literal_union_expansion', 'C19_literal_union_through_alias', 'C19_call_signatures', 'C19_function_type', 'C19_property_syntax', 'C19_refines_spec', 'C19_emits_option_is_spec', 'literalStrings_le'], "extra_modules": ["VueJsx.Props.C19c"], "cases": c19_cases, "nontrivial": _has_dc,
                "explanation": "oracle: the event names the SetupContext<E> annotation declares (TypeSpec.emitsOfType, as a set) = the injected emits; no emits without such an annotation"}
