#!/usr/bin/env python3
"""Per-property registry: Lean theorems, case generators, execution and classification."""
import itertools, json, hashlib, collections, os
import runlib, gen, fixtures
from alpha import enc

PROPS = {}


def h(s):
    return hashlib.sha1(s.encode("utf-8", "replace")).hexdigest()[:16]


# ------------------------------------------------------------------------------------------------------------
# execution
# ------------------------------------------------------------------------------------------------------------

def execute(pid, unit_cases, run_cases):
    P = PROPS[pid]
    records = []
    # ---- unit cases: hooked pure helpers of the real crate vs. the model/spec function
    if unit_cases:
        recs = runlib.run_harness(unit_cases, mode="unit")
        lines, idx = [], []
        for i, (c, r) in enumerate(zip(unit_cases, recs)):
            if "res" in r and not isinstance(r["res"], dict):
                res = r["res"]
                if isinstance(res, bool):
                    res = "true" if res else "false"
                lines.append("(unit %s %s %s)" % (enc(c["fn"]), enc(c["arg"]), enc(res)))
                idx.append(i)
            elif "res" in r:
                records.append(P["unit_record"](c, r))
            else:
                records.append(dict(id=c["id"], kind="unit", corr="unit-panic", oracle="FAIL:panic:" + str(r.get("panic")),
                                    case=c, sig=h(c["fn"] + c["arg"]), nontrivial=True, detail=r))
        outs = runlib.run_driver(lines, mode=[pid])
        for i, o in zip(idx, outs):
            c = unit_cases[i]
            d = runlib.parse_driver_line(o)
            corr = d["verdict"]
            oracle = "ok"
            if corr != "ok":
                # for the string-level helpers the model function IS the specification
                oracle = "FAIL:%s:%s" % (P.get("unit_clause", {}).get(c["fn"], "unit:" + c["fn"]), "impl=%s spec=%s" % (d.get("impl"), d.get("model")))
            records.append(dict(id=c["id"], kind="unit", corr=corr, oracle=oracle, case=c, sig=h(c["fn"] + c["arg"]),
                                nontrivial=P.get("unit_nontrivial", lambda c: True)(c), detail=d))
    # ---- whole-pipeline cases
    if run_cases:
        recs = runlib.run_harness(run_cases, mode="run")
        lines = runlib.to_driver_lines(run_cases, recs)
        idx = [i for i, l in enumerate(lines) if l and not l.startswith("ERR")]
        outs = runlib.run_driver([lines[i] for i in idx], mode=[pid])
        dmap = dict(zip(idx, outs))
        for i, (c, r) in enumerate(zip(run_cases, recs)):
            sig = h(c["src"] + json.dumps(c.get("opts"), sort_keys=True))
            if r.get("abort"):
                records.append(dict(id=c["id"], kind="run", corr="impl-abort",
                                    oracle=("FAIL:process-abort:exit %s %s" % (r.get("returncode"), (r.get("stderr") or "")[-120:].replace("\n", " "))) if pid == "C08" else "skip:abort",
                                    case=c, sig=sig, nontrivial=True, detail=r))
                continue
            if "parse_error" in r or "opts_error" in r or "bad_line" in r:
                records.append(dict(id=c["id"], kind="run", corr="n/a", oracle="skip:" + ("parse" if "parse_error" in r else "opts"),
                                    case=c, sig=sig, nontrivial=False, detail={k: r[k] for k in r if k != "id"}))
                continue
            if lines[i] and lines[i].startswith("ERR"):
                records.append(dict(id=c["id"], kind="run", corr="alpha-error", oracle="skip:alpha", case=c, sig=sig,
                                    nontrivial=False, detail=lines[i]))
                continue
            d = runlib.parse_driver_line(dmap[i])
            corr = d["verdict"]
            oracle = d.get("oracle", "ok")
            extra = P.get("post")
            rec = dict(id=c["id"], kind="run", corr=corr, oracle=oracle, case=c, sig=sig,
                       nontrivial=(r.get("raw_printed") is not None and "_create" in (r.get("raw_printed") or "")) or bool(r.get("diags")) or bool(r.get("panic")),
                       detail={k: v for k, v in d.items() if k not in ("id",)},
                       impl={"printed": r.get("printed"), "diags": r.get("diags"), "panic": r.get("panic"), "reparse_ok": r.get("reparse_ok"),
                             "same_twice": r.get("same_twice")})
            if extra:
                extra(rec, c, r, d)
            records.append(rec)
    return {"records": records}


def search_failing(pid, corr_breaks, tier, seed, known_here):
    """the correspondence broke but the oracle was silent: widen the search (fresh seed, larger budget,
    the property's enumerators one step deeper) and evaluate the oracle on the implementation's output"""
    P = PROPS[pid]
    unit_cases, run_cases, _ = P["cases"]("search", seed + 7919)
    res = execute(pid, unit_cases, run_cases)
    keys = set(k["key"] for k in known_here)
    return [r for r in res["records"] if r["oracle"].startswith("FAIL:") and r["oracle"].split(":", 2)[1] not in keys]


def fixture_cases(filter_fn=None):
    cs = fixtures.cases()
    if filter_fn:
        cs = [c for c in cs if filter_fn(c)]
    return cs


def corpus_cases(pid):
    """minimised past failures / finding witnesses kept under corpus/<pid>/*.json (run first)"""
    d = os.path.join(runlib.VERIF, "corpus", pid)
    out = []
    if os.path.isdir(d):
        for f in sorted(os.listdir(d)):
            if f.endswith(".json"):
                c = json.load(open(os.path.join(d, f)))
                for x in (c if isinstance(c, list) else [c]):
                    out.append(x)
    return out


def budget(tier, quick, thorough, search=None):
    return {"quick": quick, "thorough": thorough, "search": search if search is not None else quick * 5}[tier]


def strings_upto(alphabet, n):
    for k in range(n + 1):
        for t in itertools.product(alphabet, repeat=k):
            yield "".join(t)


# ------------------------------------------------------------------------------------------------------------
# C02
# ------------------------------------------------------------------------------------------------------------
TEXT_ALPHABET = [" ", "\t", "\n", "\r", " ", " ", "a", "b"]


def c02_cases(tier, seed):
    r = gen.Rng(seed)
    n_exh = budget(tier, 5, 7, 6)
    unit = []
    for s in strings_upto(TEXT_ALPHABET, n_exh):
        unit.append({"id": "t%d" % len(unit), "fn": "transform_text", "arg": s})
    n_rand = budget(tier, 3000, 100000)
    alpha2 = TEXT_ALPHABET + ["\r\n", "  ", "c", "&", " ", "　", "é", "\n  "]
    for i in range(n_rand):
        s = "".join(r.pick(alpha2) for _ in range(r.below(24)))
        unit.append({"id": "r%d" % i, "fn": "transform_text", "arg": s})
    # whole pipeline: text in every child position
    run = corpus_cases("C02") + fixture_cases()
    hist = collections.Counter()
    texts = ["foo ", " foo", "a b", "a\n  b", "\n  a\n", " \n ", "  ", "a&nbsp;", "&nbsp;", "a\tb", "a\r\nb", "a\rb", " x\n", "x  \ny"]
    for i, (t1, t2) in enumerate(itertools.product(texts, repeat=2)):
        if tier == "quick" and i % 3:
            continue
        for host in ["div", "Comp", ""]:
            o, c = ("<%s>" % host, "</%s>" % host)
            src = gen.PRELUDE + "const v = %s%s{x}%s<i/>{}%s;\n" % (o, t1, t2, c)
            run.append({"id": "p%d" % len(run), "src": src, "tsx": False, "opts": {"optimize": bool(i % 2)}})
    n_mod = budget(tier, 1500, 40000)
    for i in range(n_mod):
        g = gen.Gen(r, {"children": {"text": 8, "expr": 3, "ident": 2, "call": 1, "empty": 2, "comment": 1, "spread": 2,
                                     "element": 4, "fragment": 2, "fn": 0, "objlit": 0},
                        "attr_values": {"string": 3, "none": 1, "expr": 3, "const": 1, "string-ws": 4, "jsx": 0, "empty": 0},
                        "w_directive": 0})
        src = g.module()
        hist.update(g.used)
        run.append({"id": "m%d" % i, "src": src, "tsx": False, "opts": gen.opts_random(r)})
    return unit, run, {
        "rule": "unit: ALL strings of length <= %d over {space, tab, LF, CR, NBSP, U+2003, a, b} through the hook verif_hooks::transform_text "
                "+ %d random strings (also CRLF, U+2028, U+3000, entities' targets); pipeline: fixtures + text x text x host products + %d generated modules; "
                "non-trivial = the implementation produced vnode calls; distinct = distinct (source, options) / distinct string" % (n_exh, n_rand, n_mod),
        "exhaustive": True,
        "exhaustive_part": "strings of length <= %d over the 8-symbol alphabet (unit correspondence of transform_text)" % n_exh,
        "histogram": dict(hist.most_common(40))}


PROPS["C02"] = {
    "theorems": ["C02_text_inline", "C02_text_preserves_nonws", "C02_text_no_break_out", "C02_children_skip_empty_text",
                 "C02_children_skip_empty_expr", "C02_no_children_null", "C02_children_array"],
    "cases": c02_cases,
    "unit_clause": {"transform_text": "text-cleaning"},
    "projection": "unit: transform_text(s) vs cleanText(s); pipeline: whole output modulo renaming of generated identifiers",
    "explanation": "cleanText (Lean) is the JSX text rule; theorems hold for all strings; the Rust transform_text is compared with it exhaustively on short strings and on random ones; the oracle checks that the multiset of cleaned non-empty JSX texts of the input equals the createTextVNode arguments of the real output",
}
