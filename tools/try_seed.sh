#!/bin/sh
# usage: tools/try_seed.sh <patch.diff> <Cxx> [<Cyy> ...]   -- applies a seeded change to /repo, runs checks, reverts
patch="$(readlink -f "$1")"; shift
if ! git -C /repo apply --check "$patch" 2>/dev/null; then
  if git -C /repo apply --3way --check "$patch" 2>/dev/null; then mode="--3way"; else echo "PATCH DOES NOT APPLY: $patch"; exit 3; fi
fi
git -C /repo apply $mode "$patch" || exit 3
for p in "$@"; do
  echo "--- $p on seeded tree"
  /verif/check "$p" 2>&1 | tail -4
done
git -C /repo reset -q --hard HEAD && git -C /repo status --short | head -3
