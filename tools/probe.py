#!/usr/bin/env python3
"""tools/probe.py [--opts JSON] [--js] < source      - run the real visitor on one source text, print output and diagnostics"""
import sys, json, subprocess, os
sys.path.insert(0, os.path.dirname(os.path.abspath(__file__)))
import runlib
opts, tsx = {"resolveType": True}, True
a = sys.argv[1:]
if "--opts" in a:
    opts = json.loads(a[a.index("--opts") + 1])
if "--js" in a:
    tsx = False
src = sys.stdin.read()
rec = runlib._run_harness_chunk(("run", [{"id": "p", "src": src, "tsx": tsx, "opts": opts}]))[0]
print(rec.get("printed") or "")
for k in ("errors", "diags", "panic", "abort", "stderr"):
    if rec.get(k):
        print(k + ":", rec[k])
if "--raw" in a:
    print(json.dumps({k: v for k, v in rec.items() if k not in ("tree", "in_tree")})[:3000])
