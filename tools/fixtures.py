#!/usr/bin/env python3
"""Reads the 81 fixture inputs from /repo at run time and emits harness cases (JSON lines)."""
import json, os, sys, glob
ROOT = '/repo/visitor/tests/fixture'
def cases():
    out = []
    for p in sorted(glob.glob(ROOT + '/**/input.[jt]sx', recursive=True)):
        d = os.path.dirname(p)
        cfg = os.path.join(d, 'config.json')
        if os.path.exists(cfg):
            opts = json.load(open(cfg))
        else:
            opts = {"optimize": True}
        out.append({"id": "fx:" + os.path.relpath(d, ROOT), "src": open(p).read(), "tsx": p.endswith('.tsx'), "opts": opts})
    return out
if __name__ == '__main__':
    for c in cases():
        print(json.dumps(c))
