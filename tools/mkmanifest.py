#!/usr/bin/env python3
"""Regenerates MANIFEST.json from the table below (one entry per claimed property)."""
import json, os, sys
sys.path.insert(0, os.path.dirname(os.path.abspath(__file__)))
import props

TECH = "Lean 4 proof about a hand-written model + checked correspondence (differential execution against the real visitor) + executable oracle on the implementation's output"
NOTE_COMMON = ("Trusted: Lean 4.33 kernel with propext/Classical.choice/Quot.sound only (audited every run), the hand-written model (tied to the Rust source ONLY by this run's differential execution: whole visitor output modulo renaming of generated identifiers, diagnostics, outcome), alpha (tools/alpha.py), SWC's parser/resolver/serde. ")
T = {
 "C01": ("Theorems (for all inputs/states) about the model of transform_tag (five-way tag classification), attribute values (value-less = true, strings cleaned by the JSX rule, expressions unchanged), spread handling under mergeProps on/off and the mergeProps assembly. The oracle compares, for every JSX element, the denoted vnode type and props NORMAL FORM (Sem.normOps: Vue mergeProps vs. plain last-wins semantics, class/style/listener concatenation, transformOn layers) with the one evaluated from the real output.",
         "The end-to-end refinement theorem eval(transformAttrs) = denote for ALL attribute lists is not yet proved (proved: the local steps); the Vue runtime contract (mergeProps, class/style/listener normalisation) is modelled in Sem.lean, not verified against Vue. Repeated non-mergeable attribute names are outside the quantifier.", "7 C01"),
 "C02": ("Theorems for ALL strings about the model of util::transform_text (text without a line break is preserved; the non-whitespace characters are preserved in order; no break/tab survives) and about the child-list lowering (empty text/expressions contribute nothing; no children -> null; >=2 children on a non-component host -> the array in order). transform_text is compared with the Lean function exhaustively on all strings of length <=5 (quick) / <=7 (thorough) over an 8-symbol whitespace alphabet plus random strings; two oracles judge the real output (cleaned texts = createTextVNode arguments; denoted children = evaluated third argument on non-component hosts).",
         "cleanText is itself the specification of the JSX text rule (its equality with Babel's reference algorithm is not yet a theorem). SWC's entity decoding is not modelled.", "7 C02"),
 "C03": ("Theorems about the model of transform_children/wrap_children for component hosts (no children, >=2 children wrapped in a lazy default slot in order, v-slots entries beside default, function child, object child, runtime decision for a sole identifier, always wrapped when enableObjectSlots is off, a call child assigned exactly once to a fresh temporary, generated calls are ordinary children) and a SEMANTIC theorem about the emitted _isSlot helper over an abstract runtime value (true exactly for functions and plain non-vnode objects). Oracle: denoted slots normal form = evaluated one, temporaries substituted.",
         "The runtime kinds of a sole identifier/call child are covered by the helper theorem, not by execution (no Vue runtime offline). Known finding: captured copies of reassigned variables (snapshot-pinned).", "7 C03"),
 "C04": ("Theorems about directive-name parsing (only the first letter lower-cased; plain names have no name-level argument, every _ suffix is a modifier; namespaced names give the argument), vShow vs. runtime resolution by name, the binding built from an expression value (argument, modifiers each true, void 0 for a missing argument), the frame property (a directive leaves props, merge arguments and dynamic-prop list untouched) and v-html/v-text. Oracle: denoted directive bindings = those evaluated from withDirectives in the real output.",
         "Absent directive values, empty arrays and holes are outside the quantifier (C07/C08).", "7 C04"),
 "C05": ("Theorems about the model directive chosen per host (select/textarea/input by static type/no type/dynamic type), the generated listener (reads back as an assignment of its parameter to exactly the bound target), component props (value prop, <arg>Modifiers, onUpdate:<name>), element bindings, and v-models as the same-order sequence of v-model attributes. Oracle: denoted props + directive bindings of every element carrying v-model(s) = those evaluated from the real output.",
         "Two known findings (computed-argument listener key without colon, snapshot-pinned; argument on a form element names the listener onUpdate:<arg>), listed in known_findings.txt.", "7 C05"),
 "C12": ("Theorems about the model: the props expression/directives/v-slots of an element are independent of `optimize` (transformAttrs is blind to it), the wrapped slots object under optimize is the un-optimised one plus exactly one trailing `_` entry which hint-erasure removes, the slot-flag stack is untouched when optimize is off and push/pop are balanced. PAIR ORACLE on the real code: every fixture and thousands of generated modules are transformed under optimize=true and optimize=false and eraseHints(output_true) must equal output_false syntactically (modulo renaming of generated identifiers), hence under every semantics.",
         "The whole-traversal theorem eraseHints(transform opt=true) = transform opt=false is not yet proved for all modules (proved: its local ingredients); the pair oracle covers the generated inputs only.", "7 C12"),
 "C13": ("Decision-logic theorems about the patch-flag analysis of the model, for all accumulator states and attributes: the flag is one of the finitely many unions of CLASS/STYLE/PROPS/FULL_PROPS/HYDRATE_EVENTS/NEED_PATCH (never negative); dynamic keys give exactly FULL_PROPS; spreads and transformOn objects set dynamic keys; the analysis is monotone (no fact cleared, no dynamic prop removed); a non-constant plain attribute other than key/ref is covered (class/style facts on elements, dynamic-prop list otherwise; on components class/style are ordinary props); PROPS/CLASS/STYLE bits follow from the facts; ref/directive exclude HYDRATE_EVENTS alone and no flag; the slot flag is 1 or 2 and a bound identifier child marks every open slot. Oracle: the statement's clauses evaluated on every vnode call of the real output.",
         "The lift of the cover theorem through the whole attribute fold (directives and v-model steps in between) is not yet a theorem; the oracle judges hints against the props the real call passes.", "7 C13"),
 "C14": ("Theorems about the Lean model of `serde_json::from_str::<Options>` (parseOptions): `{}` = no configuration = the documented defaults; setting one field never changes another; unknown keys are ignored whatever their value; a configuration that never mentions a key leaves that option at its default (induction over the entries); an invalid pattern anywhere in the list is rejected when the configuration is read. Non-interference theorems at the level of one element: transformOn only matters for on/nativeOn attributes (never for other attributes or spreads), enableObjectSlots only when the sole child is an identifier or a call, customElementPatterns only for tags a pattern matches. Unit correspondence with the real serde derive on thousands of JSON spellings; PAIR ORACLE on the real code: each module under a random base setting of ALL options and with each option flipped must give identical output when it does not use the governed feature.",
         "JSON text parsing is trusted (Python json vs serde_json); the non-interference theorems are local (one attribute / one child list), their lift through the whole traversal is covered by the pair oracle only; the feature classification of inputs is syntactic and conservative.", "7 C14"),
 "C15": ("Theorems: without any pragma the factory is the createVNode imported from 'vue'; a comment annotation takes precedence over the option and imports nothing; the option names the factory otherwise; every fragment is a call of exactly the pragma identifier; a later annotated position overrides an earlier one and un-annotated positions change nothing; and, for ALL comment texts, the scanner theorems: no `@jsx` at the start of the (trimmed, optionally starred) text -> nothing; `@jsx` directly followed by a non-blank (`@jsxImportSource`, `@jsxRuntime`, `@jsxFrag`) -> nothing; bare `@jsx` -> nothing; `@jsx`, blank, name -> the name only; whatever is extracted is one non-empty word. Oracle on the real output: one call of the effective factory per lowered element/fragment, createVNode imported once (or not at all with a pragma), a single generated 'vue' import.",
         "Which source positions carry leading comments is taken from SWC (module start and each top-level item), as the code does; multi-line JSDoc with the tag on an inner line is unspecified. The element-level callee theorem is proved for fragments; for elements it is covered by the oracle and the correspondence.", "7 C15"),
}

def main():
    checks = []
    for pid in sorted(T):
        if pid not in props.PROPS:
            continue
        text, note, ref = T[pid]
        checks.append({"property_id": pid, "quick_cmd": "./check %s" % pid, "thorough_cmd": "./check %s --thorough" % pid,
                       "evidence_file": "/verif/evidence/%s.json" % pid, "replay_cmd_template": "./check %s --replay {path}" % pid,
                       "engine": "lean-model+harness",
                       "level_claimed": {"category": "proof", "text": text, "design_ref": "DESIGN.md section " + ref},
                       "level_note": NOTE_COMMON + note, "technique": TECH})
    claimed = [c["property_id"] for c in checks]
    hooks_commit = "4fd640c"
    m = {"version": 1,
         "setup_cmd": "cd /verif/lean/VueJsx && lake build && cd /verif/harness && CARGO_NET_OFFLINE=true cargo build --release --offline",
         "hooks": {"guard": "vjx_verif",
                   "enable": "RUSTFLAGS=\"--cfg vjx_verif\" (set in /verif/harness/.cargo/config.toml; the harness depends on /repo/visitor by path, so every check rebuilds from /repo's working tree)",
                   "baseline_off_cmd": "cd /repo && cargo test --workspace --no-fail-fast --offline", "source_commits": [hooks_commit], "add_only": True},
         "engines": [{"name": "lean-model+harness", "path": "/verif/check", "serves_properties": claimed,
                      "kind_free_text": "Lean 4 model of the whole visitor with property theorems (lean/VueJsx), Rust harness running the real visitor in-process (harness/), alpha + generators + driver (tools/)"}],
         "checks": checks,
         "notes": "See DESIGN.md. known_findings.txt lists recorded findings and fixed defects (fix: commits in /repo).",
         "not_applicable": [{"property_id": "C%02d" % i, "reason": "not yet claimed in this commit: the model and harness cover it, its theorems/oracle are being added"}
                            for i in range(1, 21) if "C%02d" % i not in claimed]}
    json.dump(m, open(os.path.join(os.path.dirname(os.path.dirname(os.path.abspath(__file__))), "MANIFEST.json"), "w"), indent=1)
    print("claimed:", claimed)

if __name__ == "__main__":
    main()
