#!/usr/bin/env python3
"""./check <Cxx> [--thorough] [--replay <file>]

One run = (1) proof obligations: build the property's Lean theorems + axiom/sorry audit,
          (2) rebuild the harness against /repo's CURRENT working tree (hooks on),
          (3) cases (corpus, enumerators, seeded random) -> real code -> alpha -> Lean driver (model + oracle),
          (4) decision, evidence/<Cxx>.json, exit status.
See DESIGN.md section 3."""
import sys, os, json, time, re, hashlib, collections, traceback

VERIF = os.path.dirname(os.path.dirname(os.path.abspath(__file__)))
sys.path.insert(0, os.path.join(VERIF, "tools"))
import runlib, props  # noqa

ALLOWED_AXIOMS = {"propext", "Classical.choice", "Quot.sound"}
FORBIDDEN = re.compile(r"\bsorry\b|\badmit\b|^axiom\s|\bnative_decide\b|\bbv_decide\b|\bimplemented_by\b|\bunsafe\s|maxHeartbeats\s+0")
TRUSTED_BASE = [
    "Lean 4.33 kernel; axioms allowed in property theorems: propext, Classical.choice, Quot.sound (audited by #print axioms every run)",
    "the Lean model is hand-written; it is tied to /repo's source only by the correspondence check of this run (differential execution on the generated cases)",
    "alpha (tools/alpha.py: SWC serde JSON -> S-expression) and the S-expression reader; SWC parser/resolver/serde used by the harness",
    "modelled, not verified: Rust std string functions, css_dataset tag tables and regex matching (parameters answered by the real crates), the Vue 3 runtime contract where a theorem mentions it",
]


def strip_comments(text):
    text = re.sub(r"/-.*?-/", "", text, flags=re.S)
    return re.sub(r"--.*", "", text)


def audit_sources():
    bad = []
    root = os.path.join(runlib.LEAN_DIR)
    for dp, dn, fn in os.walk(root):
        if ".lake" in dp:
            continue
        for f in fn:
            if f.endswith(".lean"):
                p = os.path.join(dp, f)
                for i, line in enumerate(strip_comments(open(p).read()).splitlines()):
                    if FORBIDDEN.search(line):
                        bad.append("%s:%d: %s" % (os.path.relpath(p, root), i + 1, line.strip()))
    return bad


def proof_obligations(pid, thorough):
    """returns (obligations, discharged, problems[list of str], log)"""
    P = props.PROPS[pid]
    thms = P["theorems"]
    module = "VueJsx.Props.%s" % pid
    modules = [module] + list(P.get("extra_modules", []))
    ok, log = runlib.build_lean(modules + ["vjxmodel"])
    problems = []
    if not ok:
        problems.append("lake build %s failed:\n%s" % (module, log[-3000:]))
    bad = audit_sources()
    if bad:
        problems.append("forbidden constructs in Lean sources: " + "; ".join(bad[:10]))
    discharged = 0
    if ok:
        # axioms of each property theorem
        audit = "".join("import %s\n" % m for m in modules) + "".join("#print axioms VueJsx.%s\n" % t for t in thms)
        tmp = os.path.join(VERIF, ".cache", "Audit_%s.lean" % pid)
        open(tmp, "w").write(audit)
        rc, out, err = runlib.sh(["lake", "env", "lean", tmp], cwd=runlib.LEAN_DIR, timeout=1200)
        text = out + err
        for t in thms:
            m = re.search(r"'VueJsx\.%s' (does not depend on any axioms|depends on axioms: \[([^\]]*)\])" % re.escape(t), text)
            if not m:
                problems.append("theorem VueJsx.%s: not found / no axiom report (%s)" % (t, text[-300:].replace("\n", " ")))
                continue
            axs = set(a.strip() for a in (m.group(2) or "").split(",") if a.strip())
            extra = axs - ALLOWED_AXIOMS
            if extra:
                problems.append("theorem VueJsx.%s depends on disallowed axioms %s" % (t, sorted(extra)))
            else:
                discharged += 1
        if thorough:
            for m in modules:
                rc, out, err = runlib.sh(["lake", "env", "leanchecker", m], cwd=runlib.LEAN_DIR, timeout=3000)
                if rc != 0:
                    problems.append("leanchecker %s failed: %s" % (m, (out + err)[-500:]))
    return len(thms), discharged, problems, log


def load_known():
    known, fixed = [], []
    p = os.path.join(VERIF, "known_findings.txt")
    if os.path.exists(p):
        for line in open(p):
            line = line.strip()
            if line.startswith("finding:"):
                m = re.match(r"finding:\s+property=(\S+)\s+key=(\S+)\s+(.*)", line)
                if m:
                    known.append({"property": m.group(1), "key": m.group(2), "what": m.group(3)})
            elif line.startswith("fixed:"):
                fixed.append(line)
    return known, fixed


def write_replay(pid, seed, name, payload):
    d = os.environ.get("VJX_REPLAY_DIR") or os.path.join(VERIF, "replays")
    os.makedirs(d, exist_ok=True)
    p = os.path.join(d, "%s-%s-%s.json" % (pid, seed, name))
    json.dump(payload, open(p, "w"), indent=1)
    return p


def case_payload(r):
    if r["kind"] == "unit":
        return {"unit_cases": [r["case"]]}
    if r["kind"] == "pair":
        a, b = dict(r["case"]["a"]), dict(r["case"]["b"])
        return {"run_cases": [a, b], "pairs": [{"id": r["id"], "mode": r["case"]["mode"], "a": a["id"], "b": b["id"]}]}
    return {"run_cases": [r["case"]]}


def main():
    args = sys.argv[1:]
    if not args:
        print(__doc__)
        return 2
    pid = args[0]
    thorough = "--thorough" in args or os.environ.get("VERIF_TIER") == "thorough"
    replay = args[args.index("--replay") + 1] if "--replay" in args else None
    seed = int(os.environ.get("VERIF_SEED", "20260929"))
    tier = "thorough" if thorough else "quick"
    t0 = time.time()
    P = props.PROPS[pid]
    violations = []   # (replay_path, suffix)
    known_lines = []
    out_lines = []

    # (1) proof obligations
    obligations, discharged, problems, _ = proof_obligations(pid, thorough)

    # (2) implementation, from /repo's working tree
    ok, log = (True, "") if os.environ.get("VJX_SKIP_BUILD") else runlib.build_harness()
    if not ok:
        print("harness build failed (does /repo compile?):\n" + log)
        p = write_replay(pid, seed, "build-failed", {"log": log})
        print("VIOLATION property=%s replay=%s no-failing-input-found" % (pid, p))
        return 1

    # (3) cases
    if replay:
        rp = json.load(open(replay))
        unit_cases = rp.get("unit_cases", [])
        run_cases = rp.get("run_cases", [])
        info = {"rule": "replay of " + replay, "histogram": {}, "pairs": rp.get("pairs")}
    else:
        unit_cases, run_cases, info = P["cases"](tier, seed)

    results = props.execute(pid, unit_cases, run_cases, info.get("pairs"))
    # results: dict(evaluations, records=[{id, kind, corr, oracle, case, detail, sig, nontrivial}], ...)

    known, _fixed = load_known()
    known_here = [k for k in known if k["property"] == pid]
    corr_breaks = [r for r in results["records"] if r["corr"] not in ("ok", "ok-panic", "n/a")]
    oracle_fails = [r for r in results["records"] if r["oracle"].startswith("FAIL:")]
    reobserved = collections.OrderedDict()
    new_fails = []
    for r in oracle_fails:
        key = r["oracle"].split(":", 2)[1]
        hit = [k for k in known_here if k["key"] == key]
        if hit:
            reobserved.setdefault(key, (hit[0], r))
        else:
            new_fails.append(r)

    # (4) decision
    for key, (k, r) in reobserved.items():
        known_lines.append("KNOWN-FINDING: property=%s %s [key=%s, e.g. case %s]" % (pid, k["what"], key, r["id"]))
    if new_fails:
        # one violation line per distinct failing clause, smallest case as the replay
        by_key = collections.OrderedDict()
        for r in new_fails:
            key = r["oracle"].split(":", 2)[1]
            cur = by_key.get(key)
            if cur is None or len(json.dumps(r["case"])) < len(json.dumps(cur["case"])):
                by_key[key] = r
        for key, r in by_key.items():
            p = write_replay(pid, seed, "oracle-" + re.sub(r"\W+", "_", key)[:40], {
                "kind": "implementation output violates the property (oracle)", "property": pid, "clause": key,
                "oracle": r["oracle"], **case_payload(r),
                "impl": r.get("impl"), "detail": r.get("detail")})
            violations.append((p, ""))
    if corr_breaks and not new_fails:
        # the tie between model and code broke and the oracle found no failing input: search around the mismatches
        found = props.search_failing(pid, corr_breaks, tier, seed, known_here)
        if found:
            for r in found[:3]:
                p = write_replay(pid, seed, "search-" + str(r["id"]), {
                    "kind": "failing input found while searching around a broken correspondence", "property": pid,
                    "oracle": r["oracle"], **case_payload(r)})
                violations.append((p, ""))
        else:
            r = min(corr_breaks, key=lambda r: len(json.dumps(r["case"])))
            p = write_replay(pid, seed, "correspondence", {
                "kind": "model and implementation disagree (correspondence lost); no input violating the property was found",
                "property": pid, "correspondence": P.get("projection", "whole output (modulo renaming of generated identifiers) + diagnostics + outcome"),
                "mismatching_cases": len(corr_breaks), "smallest": r["case"], "verdict": r["corr"], "detail": r.get("detail"),
                **case_payload(r)})
            violations.append((p, " no-failing-input-found"))
    if problems:
        p = write_replay(pid, seed, "proof", {
            "kind": "proof obligation not discharged", "property": pid, "problems": problems,
            "theorems": P["theorems"]})
        if not any(s == "" for _, s in violations):
            violations.append((p, " no-failing-input-found"))

    # (5) evidence
    recs = results["records"]
    nontriv = set(r["sig"] for r in recs if r.get("nontrivial"))
    samples = [dict(id=r["id"], case=r["case"], corr=r["corr"], oracle=r["oracle"]) for r in recs[:: max(1, len(recs) // 6)][:6]]
    ev = {
        "property_id": pid, "tier": tier, "seed": seed, "level": "proof",
        "coverage": {
            "obligations": obligations, "discharged": discharged,
            "checker_cmd": "cd lean/VueJsx && lake build VueJsx.Props.%s && lake env lean <#print axioms of each theorem>%s" % (pid, " && lake env leanchecker VueJsx.Props.%s" % pid if thorough else ""),
            "trusted_base": TRUSTED_BASE + P.get("trusted_extra", []),
            "theorems": P["theorems"],
            "evaluations": len(recs),
            "distinct_nontrivial": len(nontriv),
            "rule": info.get("rule", ""),
            "samples": samples,
            "exhaustive": bool(info.get("exhaustive", False)),
            "exhaustive_part": info.get("exhaustive_part", ""),
            "generator_histogram": info.get("histogram", {}),
            "correspondence_mismatches": len(corr_breaks),
            "oracle_failures": len(oracle_fails),
            "oracle_skipped_out_of_domain": sum(1 for r in recs if r["oracle"].startswith("skip:")),
            "known_findings_reobserved": list(reobserved.keys()),
            "disagreements_checked": len(corr_breaks),
            "explanation": P.get("explanation", ""),
        },
        "assumptions": P.get("assumptions", []),
        "wall_s": round(time.time() - t0, 2),
        "violations": len(violations),
    }
    evdir = os.environ.get("VJX_EVIDENCE_DIR") or os.path.join(VERIF, "evidence")
    os.makedirs(evdir, exist_ok=True)
    json.dump(ev, open(os.path.join(evdir, pid + ".json"), "w"), indent=1)

    for l in known_lines:
        print(l)
    print("%s %s: theorems %d/%d, cases %d (distinct non-trivial %d), correspondence mismatches %d, oracle failures %d (known %d), %.1fs"
          % (pid, tier, discharged, obligations, len(recs), len(nontriv), len(corr_breaks), len(oracle_fails), len(oracle_fails) - len(new_fails), time.time() - t0))
    for p, suffix in violations:
        print("VIOLATION property=%s replay=%s%s" % (pid, p, suffix))
    return 1 if violations else 0


if __name__ == "__main__":
    try:
        sys.exit(main())
    except SystemExit:
        raise
    except Exception:
        traceback.print_exc()
        pid = sys.argv[1] if len(sys.argv) > 1 else "?"
        print("check machinery error (not a verdict about the code)")
        sys.exit(2)
