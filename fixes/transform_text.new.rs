/// Splits JSX text at line breaks (`\r\n`, `\n` or `\r`); always yields at least one line.
fn split_jsx_lines(text: &str) -> Vec<&str> {
    let mut lines = vec![];
    let mut start = 0;
    let mut chars = text.char_indices().peekable();
    while let Some((index, c)) = chars.next() {
        if c == '\n' || c == '\r' {
            lines.push(&text[start..index]);
            if c == '\r' && matches!(chars.peek(), Some((_, '\n'))) {
                chars.next();
            }
            start = chars.peek().map(|(next, _)| *next).unwrap_or(text.len());
        }
    }
    lines.push(&text[start..]);
    lines
}

/// Cleans JSX text the way Babel does: lines are split at line breaks, whitespace next to a
/// line break and whitespace-only lines are removed, the remaining lines are joined by one
/// space, and tabs count as spaces. Spaces that aren't next to a line break are preserved.
pub(crate) fn transform_text(text: &str) -> String {
    let jsx_text_value = text.replace('\t', " ");
    let lines = split_jsx_lines(&jsx_text_value);
    let last = lines.len() - 1;

    lines
        .into_iter()
        .enumerate()
        .map(|(index, line)| {
            let line = if index == 0 {
                line
            } else {
                line.trim_start_matches(' ')
            };
            if index == last {
                line
            } else {
                line.trim_end_matches(' ')
            }
        })
        .filter(|line| !line.is_empty())
        .collect::<Vec<_>>()
        .join(" ")
}
