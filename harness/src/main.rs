//! vjx-harness: drives the REAL swc-vue-jsx-visitor (built from /repo's working tree) in-process.
//!
//! Subcommands (all read JSON lines on stdin, write JSON lines on stdout):
//!   run   : {"id","src","tsx","opts"}  -> parse + resolver + real visitor (+ hygiene/fixer/print/re-parse)
//!           emits the serde JSON of the module BEFORE and AFTER the visitor (the abstraction alpha is applied
//!           to these by /verif/tools/alpha.py), diagnostics, panic status, printed text, re-parse status.
//!   unit  : {"fn": "transform_text"|"is_on"|"is_directive"|"known_tag"|"options", "arg": ...} -> {"res": ...}
//!           (hooked crate-private helpers, only with --cfg vjx_verif; "options" needs no hook)
use std::{
    io::{self, BufRead, Write},
    panic::{catch_unwind, AssertUnwindSafe},
    sync::{Arc, Mutex},
};

use serde_json::{json, Value};
use swc_core::{
    common::{
        comments::SingleThreadedComments,
        errors::{DiagnosticBuilder, Emitter, Handler},
        sync::Lrc,
        FileName, Globals, Mark, SourceMap, GLOBALS,
    },
    ecma::{
        ast::{EsVersion, Module, Program},
        codegen::{text_writer::JsWriter, Config, Emitter as CodeEmitter},
        parser::{parse_file_as_module, EsSyntax, Syntax, TsSyntax},
        transforms::base::{fixer::fixer, hygiene::hygiene, resolver},
        visit::VisitMutWith,
    },
    plugin::errors::HANDLER,
};
use swc_vue_jsx_visitor::{Options, VueJsxTransformVisitor};

struct Collect(Arc<Mutex<Vec<String>>>);
impl Emitter for Collect {
    fn emit(&mut self, db: &DiagnosticBuilder<'_>) {
        self.0
            .lock()
            .unwrap()
            .push(format!("{:?}: {}", db.level, db.message()));
    }
}

fn syntax(tsx: bool, jsx: bool) -> Syntax {
    if tsx {
        Syntax::Typescript(TsSyntax {
            tsx: jsx,
            ..Default::default()
        })
    } else {
        Syntax::Es(EsSyntax {
            jsx,
            ..Default::default()
        })
    }
}

fn print_module(cm: &Lrc<SourceMap>, m: &Module, comments: Option<&SingleThreadedComments>) -> String {
    let mut buf = vec![];
    {
        let mut emitter = CodeEmitter {
            cfg: Config::default(),
            cm: cm.clone(),
            comments: comments.map(|c| c as _),
            wr: JsWriter::new(cm.clone(), "\n", &mut buf, None),
        };
        emitter.emit_module(m).unwrap();
    }
    String::from_utf8_lossy(&buf).into_owned()
}

fn panic_msg(e: Box<dyn std::any::Any + Send>) -> String {
    if let Some(s) = e.downcast_ref::<&str>() {
        s.to_string()
    } else if let Some(s) = e.downcast_ref::<String>() {
        s.clone()
    } else {
        "panic".into()
    }
}

/// One full pipeline run. Returns the JSON record.
fn run_case(case: &Value) -> Value {
    let id = case["id"].clone();
    let src = case["src"].as_str().unwrap_or("").to_string();
    let tsx = case["tsx"].as_bool().unwrap_or(false);
    let want_ast = case["ast"].as_bool().unwrap_or(true);
    let opts_json = match &case["opts"] {
        Value::String(s) => s.clone(),
        Value::Null => "{}".to_string(),
        v => v.to_string(),
    };
    // exactly what plugin/src/lib.rs does with the config string
    let options: Options = match serde_json::from_str(&opts_json) {
        Ok(o) => o,
        Err(e) => return json!({"id": id, "opts_error": e.to_string()}),
    };
    let known = |name: &str| -> bool { known_tag(name) };
    let pats: Vec<regex::Regex> = options
        .custom_element_patterns
        .iter()
        .map(|p| regex::Regex::new(p.as_str()).unwrap())
        .collect();

    GLOBALS.set(&Globals::new(), || {
        let cm: Lrc<SourceMap> = Default::default();
        let fm = cm.new_source_file(Lrc::new(FileName::Custom("case.jsx".into())), src.clone());
        let comments = SingleThreadedComments::default();
        let mut errs = vec![];
        let module = match parse_file_as_module(
            &fm,
            syntax(tsx, true),
            EsVersion::latest(),
            Some(&comments),
            &mut errs,
        ) {
            Ok(m) if errs.is_empty() => m,
            Ok(_) => return json!({"id": id, "parse_error": "recoverable errors"}),
            Err(e) => return json!({"id": id, "parse_error": format!("{:?}", e.kind())}),
        };
        let unresolved_mark = Mark::new();
        let top_mark = Mark::new();
        let mut program = Program::Module(module);
        program.mutate(resolver(unresolved_mark, top_mark, tsx));
        let input = match &program {
            Program::Module(m) => m.clone(),
            _ => unreachable!(),
        };
        let unresolved_ctxt = swc_core::common::SyntaxContext::empty().apply_mark(unresolved_mark);

        // tag / pattern environment for the model (parameters of the theorems): answered by the real tables
        let mut names: Vec<String> = vec![];
        collect_tag_names(&serde_json::to_value(&input).unwrap(), &mut names);
        names.sort();
        names.dedup();
        let known_names: Vec<&String> = names.iter().filter(|n| known(n)).collect();
        let pat_names: Vec<&String> = names
            .iter()
            .filter(|n| pats.iter().any(|p| p.is_match(n)))
            .collect();
        // identifier tags and the qualified names of namespaced tags (member tags are never custom elements): what "uses a pattern" means for C14
        let mut ident_names: Vec<String> = vec![];
        collect_ident_tag_names(&serde_json::to_value(&input).unwrap(), &mut ident_names);
        ident_names.sort();
        ident_names.dedup();
        let pat_ident_names: Vec<&String> = ident_names
            .iter()
            .filter(|n| pats.iter().any(|p| p.is_match(n)))
            .collect();

        let diags = Arc::new(Mutex::new(Vec::<String>::new()));
        let handler = Handler::with_emitter(true, false, Box::new(Collect(diags.clone())));
        let comments2 = comments.clone();
        let res = catch_unwind(AssertUnwindSafe(|| {
            let mut m = input.clone();
            HANDLER.set(&handler, || {
                let mut v = VueJsxTransformVisitor::new(options.clone(), unresolved_mark, Some(comments2));
                m.visit_mut_with(&mut v);
            });
            m
        }));
        let mut rec = json!({
            "id": id,
            "unresolved_ctxt": unresolved_ctxt.as_u32(),
            "known": known_names,
            "patmatch": pat_names,
            "patmatch_ident": pat_ident_names,
        });
        let leading: Vec<Value> = leading_comments(&input, &comments);
        rec["comments"] = Value::Array(leading);
        if want_ast {
            // spliced as raw text when the record is written, so that serde's field order (= SWC's visit order) survives
            rec["in"] = Value::String(format!("\u{1}RAW{}", serde_json::to_string(&input).unwrap()));
        }
        match res {
            Err(e) => {
                rec["panic"] = Value::String(panic_msg(e));
                rec["diags"] = json!(*diags.lock().unwrap());
            }
            Ok(out) => {
                rec["panic"] = Value::Null;
                rec["diags"] = json!(*diags.lock().unwrap());
                if want_ast {
                    rec["out"] = Value::String(format!("\u{1}RAW{}", serde_json::to_string(&out).unwrap()));
                }
                rec["raw_printed"] = Value::String(print_module(&cm, &out, Some(&comments)));
                // what a user of swc sees: hygiene + fixer run after the plugin, then codegen
                let printed = catch_unwind(AssertUnwindSafe(|| {
                    let mut p = Program::Module(out.clone());
                    p.mutate(hygiene());
                    p.mutate(fixer(Some(&comments)));
                    match &p {
                        Program::Module(m) => print_module(&cm, m, Some(&comments)),
                        _ => unreachable!(),
                    }
                }));
                match printed {
                    Ok(text) => {
                        let fm2 = cm.new_source_file(
                            Lrc::new(FileName::Custom("out.js".into())),
                            text.clone(),
                        );
                        let mut errs2 = vec![];
                        let ok = match parse_file_as_module(
                            &fm2,
                            syntax(tsx, false),
                            EsVersion::latest(),
                            None,
                            &mut errs2,
                        ) {
                            Ok(m2) => {
                                // literal round trip: the string literals of the tree the visitor produced and of the
                                // re-parsed printed text must have the same VALUES, in order (a stale `raw` text shows here)
                                let a = str_values(&out);
                                let b = str_values(&m2);
                                if a != b {
                                    let i = a.iter().zip(b.iter()).position(|(x, y)| x != y).unwrap_or(a.len().min(b.len()));
                                    rec["str_roundtrip"] = json!({"index": i, "ast": a.get(i), "printed": b.get(i), "n_ast": a.len(), "n_printed": b.len()});
                                }
                                errs2.is_empty()
                            }
                            Err(_) => false,
                        };
                        rec["printed"] = Value::String(text);
                        rec["reparse_ok"] = Value::Bool(ok);
                    }
                    Err(e) => {
                        rec["print_panic"] = Value::String(panic_msg(e));
                        rec["reparse_ok"] = Value::Bool(false);
                    }
                }
            }
        }
        rec
    })
}

/// the values of all string literals of a module, in visit order
fn str_values(m: &Module) -> Vec<String> {
    use swc_core::ecma::visit::{Visit, VisitWith};
    struct C(Vec<String>);
    impl Visit for C {
        fn visit_str(&mut self, s: &swc_core::ecma::ast::Str) {
            self.0.push(s.value.to_string());
        }
    }
    let mut c = C(vec![]);
    m.visit_with(&mut c);
    c.0
}

/// leading comments the visitor can see: at module.span.lo and at each top-level item's span.lo
fn leading_comments(m: &Module, comments: &SingleThreadedComments) -> Vec<Value> {
    use swc_core::common::comments::Comments;
    use swc_core::common::Spanned;
    let mut out = vec![];
    let mut seen = std::collections::BTreeSet::new();
    let mut positions = vec![("module".to_string(), m.span.lo)];
    for (i, item) in m.body.iter().enumerate() {
        positions.push((format!("item{i}"), item.span().lo));
    }
    for (what, pos) in positions {
        // the visitor looks each position up independently, so repeated positions are reported again
        let _ = seen.insert(pos);
        if let Some(cs) = comments.get_leading(pos) {
            out.push(json!({"at": what, "texts": cs.iter().map(|c| c.text.to_string()).collect::<Vec<_>>()}));
        } else {
            out.push(json!({"at": what, "texts": []}));
        }
    }
    out
}

fn collect_ident_tag_names(v: &Value, out: &mut Vec<String>) {
    match v {
        Value::Object(map) => {
            if map.get("type").and_then(|t| t.as_str()) == Some("JSXOpeningElement") {
                if let Some(name) = map.get("name") {
                    if name.get("type").and_then(|t| t.as_str()) == Some("Identifier") {
                        if let Some(s) = name.get("value").and_then(|s| s.as_str()) {
                            out.push(s.to_string())
                        }
                    }
                    // the tag of `<ns:name>` is `ns:name`: a pattern that matches it makes it a custom element
                    if name.get("type").and_then(|t| t.as_str()) == Some("JSXNamespacedName") {
                        if let (Some(a), Some(b)) = (
                            name["namespace"].get("value").and_then(|s| s.as_str()),
                            name["name"].get("value").and_then(|s| s.as_str()),
                        ) {
                            out.push(format!("{}:{}", a, b))
                        }
                    }
                }
            }
            for (_, c) in map {
                collect_ident_tag_names(c, out);
            }
        }
        Value::Array(a) => a.iter().for_each(|c| collect_ident_tag_names(c, out)),
        _ => {}
    }
}

fn collect_tag_names(v: &Value, out: &mut Vec<String>) {
    match v {
        Value::Object(map) => {
            if map.get("type").and_then(|t| t.as_str()) == Some("JSXOpeningElement") {
                if let Some(name) = map.get("name") {
                    // ident tag: its name; member tag: the property name; namespaced: the local name
                    match name.get("type").and_then(|t| t.as_str()) {
                        Some("Identifier") => {
                            if let Some(s) = name.get("value").and_then(|s| s.as_str()) {
                                out.push(s.to_string())
                            }
                        }
                        Some("JSXMemberExpression") => {
                            if let Some(s) = name["property"].get("value").and_then(|s| s.as_str()) {
                                out.push(s.to_string())
                            }
                        }
                        Some("JSXNamespacedName") => {
                            // the local name (known-tag table) and the qualified name (patterns)
                            if let Some(s) = name["name"].get("value").and_then(|s| s.as_str()) {
                                out.push(s.to_string());
                                if let Some(a) = name["namespace"].get("value").and_then(|s| s.as_str()) {
                                    out.push(format!("{}:{}", a, s))
                                }
                            }
                        }
                        _ => {}
                    }
                }
            }
            for (_, c) in map {
                collect_tag_names(c, out);
            }
        }
        Value::Array(a) => a.iter().for_each(|c| collect_tag_names(c, out)),
        _ => {}
    }
}

#[cfg(vjx_verif)]
fn known_tag(name: &str) -> bool {
    swc_vue_jsx_visitor::verif_hooks::known_tag(name)
}
#[cfg(not(vjx_verif))]
fn known_tag(_name: &str) -> bool {
    panic!("harness must be built with --cfg vjx_verif")
}

#[cfg(vjx_verif)]
fn unit(case: &Value) -> Value {
    use swc_vue_jsx_visitor::verif_hooks as h;
    let f = case["fn"].as_str().unwrap_or("");
    let arg = case["arg"].as_str().unwrap_or("");
    let res = catch_unwind(AssertUnwindSafe(|| match f {
        "transform_text" => Value::String(h::transform_text(arg)),
        "is_on" => Value::Bool(h::is_on(arg)),
        "is_directive" => Value::Bool(h::is_directive_name(arg)),
        "known_tag" => Value::Bool(h::known_tag(arg)),
        "regex_valid" => Value::Bool(regex::Regex::new(arg).is_ok()),
        "options" => match serde_json::from_str::<Options>(arg) {
            Ok(o) => json!({
                "transformOn": o.transform_on, "optimize": o.optimize, "mergeProps": o.merge_props,
                "enableObjectSlots": o.enable_object_slots, "resolveType": o.resolve_type,
                "pragma": o.pragma,
                "customElementPatterns": o.custom_element_patterns.iter().map(|p| p.as_str().to_string()).collect::<Vec<_>>(),
            }),
            Err(_) => json!({"error": true}),
        },
        _ => json!({"unknown_fn": f}),
    }));
    match res {
        Ok(v) => json!({"id": case["id"], "res": v}),
        Err(e) => json!({"id": case["id"], "panic": panic_msg(e)}),
    }
}
#[cfg(not(vjx_verif))]
fn unit(_case: &Value) -> Value {
    panic!("harness must be built with --cfg vjx_verif")
}

/// writes the record; string fields tagged \u{1}RAW are spliced in as raw JSON text (keeps key order)
fn write_rec<W: Write>(out: &mut W, rec: &Value) {
    match rec {
        Value::Object(map) => {
            write!(out, "{{").unwrap();
            let mut first = true;
            for (k, v) in map {
                if !first {
                    write!(out, ",").unwrap();
                }
                first = false;
                write!(out, "{}:", Value::String(k.clone())).unwrap();
                match v {
                    Value::String(s) if s.starts_with("\u{1}RAW") => write!(out, "{}", &s[4..]).unwrap(),
                    v => write!(out, "{}", v).unwrap(),
                }
            }
            writeln!(out, "}}").unwrap();
        }
        v => writeln!(out, "{}", v).unwrap(),
    }
}

fn main() {
    // panics are reported in the record; keep stderr quiet
    std::panic::set_hook(Box::new(|_| {}));
    let mode = std::env::args().nth(1).unwrap_or_else(|| "run".into());
    let stdin = io::stdin();
    let stdout = io::stdout();
    let mut out = io::BufWriter::new(stdout.lock());
    for line in stdin.lock().lines() {
        let line = match line {
            Ok(l) => l,
            Err(_) => break,
        };
        if line.trim().is_empty() {
            continue;
        }
        let case: Value = match serde_json::from_str(&line) {
            Ok(v) => v,
            Err(e) => {
                writeln!(out, "{}", json!({"bad_case": e.to_string()})).unwrap();
                continue;
            }
        };
        let rec = match mode.as_str() {
            "run" => {
                let r1 = run_case(&case);
                if case["twice"].as_bool().unwrap_or(false) {
                    let r2 = run_case(&case);
                    let same = r1.get("raw_printed") == r2.get("raw_printed")
                        && r1.get("out") == r2.get("out")
                        && r1.get("diags") == r2.get("diags")
                        && r1.get("panic") == r2.get("panic");
                    let mut r1 = r1;
                    r1["same_twice"] = Value::Bool(same);
                    r1
                } else {
                    r1
                }
            }
            "unit" => unit(&case),
            _ => json!({"bad_mode": mode}),
        };
        write_rec(&mut out, &rec);
        out.flush().unwrap();
    }
}
