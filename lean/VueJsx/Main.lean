import VueJsx.Visitor
import VueJsx.Canon
open VueJsx

/-- reads the driver protocol of tools/alpha.py: one `(case …)` S-expression per line -/
def optsOfNode : Node → Opts
  | .mk _ [ton, opt, mp, eos, rt, hasPragma, pragma] _ =>
    { transformOn := ton == "true", optimize := opt == "true", mergeProps := mp == "true",
      enableObjectSlots := eos == "true", resolveType := rt == "true",
      pragma := if hasPragma == "some" then some pragma else none }
  | _ => {}

def envOfNodes (known pat comments : Node) : Env :=
  { known := known.atoms, patMatch := pat.atoms, comments := comments.kids.map (·.atoms) }

def trunc (s : String) (n : Nat) : String := if s.length > n then (s.take n).toString ++ "…" else s

def runCase (line : String) : String :=
  match parseNode line with
  | none => "?\tparse-error"
  | some (.mk _ [id, status] [optsN, knownN, patN, commentsN, inN, outN, diagsN]) =>
    let o := optsOfNode optsN
    let env := envOfNodes knownN patN commentsN
    let (mOut, st) := transformModule o env inN
    let mStatus := if st.panicked.isSome then "panic" else "ok"
    let mDiags := st.diags
    let iDiags := diagsN.atoms
    if status != mStatus then
      s!"{id}\tstatus-diff\tmodel={mStatus}:{st.panicked.getD ""}\timpl={status}"
    else if status == "panic" then s!"{id}\tok-panic"
    else
      let a := canon mOut
      let b := canon outN
      match firstDiff a b [] with
      | some (path, x, y) =>
        s!"{id}\tout-diff\tpath={path}\tmodel={trunc (printNode x) 600}\timpl={trunc (printNode y) 600}"
      | none =>
        if mDiags != iDiags then s!"{id}\tdiag-diff\tmodel={mDiags}\timpl={iDiags}"
        else s!"{id}\tok"
  | some _ => "?\tbad-case-shape"

partial def loop (h : IO.FS.Stream) (out : IO.FS.Stream) : IO Unit := do
  let line ← h.getLine
  if line.isEmpty then return ()
  let l := line.trimAscii.toString
  if !l.isEmpty then out.putStrLn (runCase l)
  loop h out

def main : IO Unit := do
  let stdin ← IO.getStdin
  let stdout ← IO.getStdout
  loop stdin stdout
