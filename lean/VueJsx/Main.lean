import VueJsx.Visitor
import VueJsx.Canon
import VueJsx.Oracle
import VueJsx.Options
open VueJsx

/-- reads the driver protocol of tools/alpha.py: one `(case …)` S-expression per line -/
def optsOfNode : Node → Opts
  | .mk _ [ton, opt, mp, eos, rt, hasPragma, pragma] _ =>
    { transformOn := ton == "true", optimize := opt == "true", mergeProps := mp == "true",
      enableObjectSlots := eos == "true", resolveType := rt == "true",
      pragma := if hasPragma == "some" then some pragma else none }
  | _ => {}

def envOfNodes (known pat comments : Node) : Env :=
  { known := known.atoms, patMatch := pat.atoms, comments := comments.kids.map (·.atoms) }

def trunc (s : String) (n : Nat) : String := if s.length > n then (s.take n).toString ++ "…" else s

def oracleFor (prop : String) (o : Opts) (env : Env) (inN outN : Node) (diags : List String) : Verdict :=
  if prop == "C02" then
    match oracleC02 o inN outN with
    | .ok => oracleSem prop o env inN outN
    | v => v
  else if ["C01", "C03", "C04", "C05"].contains prop then oracleSem prop o env inN outN
  else if prop == "C13" then oracleC13 o env inN outN
  else if prop == "C15" then oracleC15 o env inN outN
  else if prop == "C20" then oracleC20 o inN outN
  else if prop == "C09" then oracleC09 o env inN outN
  else if prop == "C07" then oracleC07 outN diags
  else if prop == "C06" then oracleC06 o inN outN
  else if prop == "C11" then oracleC11 o env inN outN
  else if ["C16", "C17", "C18", "C19"].contains prop then oracleTypes prop o inN outN diags
  else .skip "no-oracle"

/-- unit lines: `(unit 'fn 'arg 'implResult)` -/
def runUnit (fn arg impl : String) : String :=
  let model : String :=
    if fn == "transform_text" then String.ofList (Text.cleanText arg.toList)
    else if fn == "is_on" then toString (Text.isOn arg.toList)
    else if fn == "is_directive" then toString (isDirectiveAttrName (
      match arg.splitOn ":" with
      | [ns, n] => .ns ns n
      | _ => .plain arg))
    else "?"
  if model == impl then s!"u\tok\tfn={fn}" else s!"u\tunit-diff\tfn={fn}\targ={encodeAtom arg}\tmodel={encodeAtom model}\timpl={encodeAtom impl}"

partial def jsonOfNode : Node → Json
  | .mk (.other "jnull") _ _ => .null
  | .mk (.other "jbool") [b] _ => .bool (b == "true")
  | .mk (.other "jnum") [n] _ => .num n
  | .mk (.other "jstr") [s] _ => .str s
  | .mk (.other "jstr") [] _ => .str ""
  | .mk (.other "jarr") _ xs => .arr (xs.map jsonOfNode)
  | .mk (.other "jobj") _ kvs => .obj (kvs.map fun kv => ((kv.atoms.headD ""), jsonOfNode (kv.kids.headD nNone)))
  | _ => .null

def renderOptions (o : Option OptionsV) : String :=
  match o with
  | none => "error"
  | some o => s!"{o.transformOn} {o.optimize} {o.customElementPatterns} {o.mergeProps} {o.enableObjectSlots} {o.pragma} {o.resolveType}"

def runCase (prop : String) (line : String) : String :=
  match parseNode line with
  | none => "?\tparse-error"
  | some (.mk (.other "unit") [fn, arg, impl] _) => runUnit fn arg impl
  | some (.mk (.other "optunit") [impl] [j, validN]) =>
    let model := renderOptions (parseOptions (fun s => validN.atoms.contains s) (jsonOfNode j))
    if model == impl then "u\tok\tfn=options" else s!"u\tunit-diff\tfn=options\tmodel={encodeAtom model}\timpl={encodeAtom impl}"
  | some (.mk (.other "pair") [id, mode] [optsN, knownN, patN, commentsN, a, b]) =>
    let v := oraclePair mode (optsOfNode optsN) (envOfNodes knownN patN commentsN) a b
    s!"{id}\tpair\toracle={v.render}"
  | some (.mk _ [id, status] [optsN, knownN, patN, commentsN, inN, outN, diagsN]) =>
    let o := optsOfNode optsN
    let env := envOfNodes knownN patN commentsN
    let (mOut, st) := transformModule o env inN
    let mStatus := if st.panicked.isSome then "panic" else "ok"
    let mDiags := st.diags
    let iDiags := diagsN.atoms
    let orc := if status == "panic" then Verdict.skip "panic" else oracleFor prop o env inN outN iDiags
    let tail := s!"\toracle={orc.render}"
    if status != mStatus then
      s!"{id}\tstatus-diff\tmodel={mStatus}:{st.panicked.getD ""}\timpl={status}{tail}"
    else if status == "panic" then s!"{id}\tok-panic{tail}"
    else
      let a := canon mOut
      let b := canon outN
      match firstDiff a b [] with
      | some (path, x, y) =>
        s!"{id}\tout-diff\tpath={path}\tmodel={trunc (printNode x) 600}\timpl={trunc (printNode y) 600}{tail}"
      | none =>
        -- SWC's handler drops a diagnostic identical (message and span) to an earlier one and spans are not
        -- modelled: diagnostics are compared as duplicate-free sequences
        if mDiags.eraseDups != iDiags.eraseDups then s!"{id}\tdiag-diff\tmodel={mDiags}\timpl={iDiags}{tail}"
        else s!"{id}\tok{tail}"
  | some _ => "?\tbad-case-shape"

partial def loop (prop : String) (h : IO.FS.Stream) (out : IO.FS.Stream) : IO Unit := do
  let line ← h.getLine
  if line.isEmpty then return ()
  let l := line.trimAscii.toString
  if !l.isEmpty then out.putStrLn (runCase prop l)
  loop prop h out

def main (args : List String) : IO Unit := do
  let stdin ← IO.getStdin
  let stdout ← IO.getStdout
  loop (args.headD "") stdin stdout
