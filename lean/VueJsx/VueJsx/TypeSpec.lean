/-
  TypeSpec: what a TypeScript props / emits type MEANS (C16–C19), written from the property statements:
  the set of declared properties with their requiredness, the JavaScript constructors of a type's values, the declared
  event names.  The registry is the WHOLE module's (declarations before or after the call, per binding), which is what
  makes the specification independent of declaration order.
-/
import VueJsx.ResolveType
import VueJsx.Canon

namespace VueJsx

/-- declaration merging, as TypeScript defines it: every declaration of an interface contributes its members AND its
    `extends` clause.  (Written here independently of the model's `ifaceHook`; `C16_spec_registry_is_the_models`
    proves that the two coincide.) -/
def specIfaceMerge (n : Node) (st : St) : St :=
  match n with
  | .mk .tsIface as [id, tp, .mk .list eas ext, .mk .tsIfaceBody bas [.mk .list las members]] =>
    let key := (identName id, identBind id)
    match lookupReg st.interfaces key with
    | some (.mk .tsIface as0 [id0, tp0, .mk .list eas0 ext0, .mk .tsIfaceBody bas0 [.mk .list las0 members0]]) =>
      let merged := Node.mk .tsIface as0 [id0, tp0, .mk .list eas0 (ext0 ++ ext), .mk .tsIfaceBody bas0 [.mk .list las0 (members0 ++ members)]]
      { st with interfaces := st.interfaces.map fun p => if p.1 == key then (p.1, merged) else p }
    | some _ => st
    | none => { st with interfaces := st.interfaces ++ [(key, .mk .tsIface as [id, tp, .mk .list eas ext, .mk .tsIfaceBody bas [.mk .list las members]])] }
  | _ => st

/-- every alias and interface declaration of the module, anywhere, merged per (name, binding) -/
def specRegistry (m : Node) : St :=
  (allNodes m).foldl (fun st d =>
    match d with
    | .mk .tsIface _ _ => specIfaceMerge d st
    | .mk .tsAlias _ _ => aliasHook d st
    | _ => st) {}

structure PropSpec where
  key : Node                -- spelled as declared: identifier name, string or number
  optional : Bool
  ty : Option Node          -- the declared type, none for a method
  isMethod : Bool := false
  deriving Inhabited

def specKey (k : Node) : Option Node :=
  match k with
  | .mk .ident (n :: _) _ => some (nIdentName n)
  | .mk .str as ks => some (.mk .str as ks)
  | .mk .num as ks => some (.mk .num as ks)
  | _ => none

def specKeyName (k : Node) : String :=
  match k with
  | .mk .ident (n :: _) _ => n
  | .mk .str (v :: _) _ => v
  | .mk .num (v :: _) _ => v
  | _ => ""

/-- the key of a member: `name`, `'name'`, `['name']`, `1` name the property statically; `[name]` (a computed identifier key) names
    it by the VALUE of `name` - the declared key is the computed key `[name]`, not the word `name` -/
def specKeyC (computed : String) (k : Node) : Option Node :=
  match k with
  | .mk .ident (n :: r) ks => if computed == "true" then some (.mk .computed [] [.mk .ident (n :: r) ks]) else some (nIdentName n)
  | k => specKey k

def membersSpec (members : List Node) : List PropSpec :=
  members.filterMap fun m =>
    match m with
    | .mk .tsPropSig [_, comp, opt] [key, ann] => (specKeyC comp key).map fun k => { key := k, optional := opt == "true", ty := typeAnnInner ann }
    | .mk .tsMethodSig [comp, opt] (key :: _) => (specKeyC comp key).map fun k => { key := k, optional := opt == "true", ty := none, isMethod := true }
    | .mk .tsGetterSig as [key, ann] => (specKeyC (as.headD "false") key).map fun k => { key := k, optional := false, ty := typeAnnInner ann }
    | _ => none

/-- string-literal union (through aliases) as a list of strings; none if it is anything else -/
def literalStrings (fuel : Nat) (reg : St) (ty : Node) : Option (List String) :=
  match fuel with
  | 0 => none
  | fuel + 1 =>
    match ty with
    | .mk .tsLitType _ [.mk .str (v :: _) _] => some [v]
    | .mk .tsKeyword ["never"] _ => some []
    | .mk .tsParen _ [t] => literalStrings fuel reg t
    | .mk .tsUnion _ [.mk .list _ ts] =>
      ts.foldl (fun acc t => match acc, literalStrings fuel reg t with | some a, some b => some (a ++ b) | _, _ => none) (some [])
    | .mk .tsTypeRef _ (.mk .ident (n :: b :: _) _ :: _) =>
      match lookupReg reg.typeAliases (n, b) with
      | some t => literalStrings fuel reg t
      | none => none
    | _ => none

/-- result of reading a props type -/
inductive PRes where
  | ok (props : List PropSpec)
  | unresolved      -- imported / undeclared / unsupported construct: must be REPORTED, never silently dropped
  | outside         -- a construct the statement does not quantify over (e.g. a union of object types): no requirement
  deriving Inhabited

def PRes.bind (r : PRes) (f : List PropSpec → PRes) : PRes :=
  match r with
  | .ok ps => f ps
  | .unresolved => .unresolved
  | .outside => .outside

def PRes.append (a b : PRes) : PRes :=
  match a, b with
  | .ok x, .ok y => .ok (x ++ y)
  | .unresolved, _ => .unresolved
  | _, .unresolved => .unresolved
  | _, _ => .outside

/-- the name by which a string-literal key type can select a declared property: identifier and quoted keys (a numeric key is
    selected by a numeric literal type only, which `literalStrings` does not read) -/
def pickName (k : Node) : Option String :=
  match k with
  | .mk .ident (n :: _) _ => some n
  | .mk .str (v :: _) _ => some v
  | _ => none

def pickedBy (keys : List String) (p : PropSpec) : Bool :=
  match pickName p.key with
  | some n => keys.contains n
  | none => false

/-- the declared properties of a props type; `idx = false` switches the reading of indexed access off (used to state the
    refinement theorem `C16_refines_spec` for everything else) -/
def propsOfTypeG (idx : Bool) (fuel : Nat) (reg : St) (ty : Node) : PRes :=
  match fuel with
  | 0 => .outside
  | fuel + 1 =>
    match ty with
    | .mk .tsTypeLit _ [.mk .list _ members] => .ok (membersSpec members)
    | .mk .tsParen _ [t] => propsOfTypeG idx fuel reg t
    | .mk .tsIntersection _ [.mk .list _ ts] => ts.foldl (fun acc t => acc.append (propsOfTypeG idx fuel reg t)) (.ok [])
    | .mk .tsUnion _ _ => .outside
    | .mk .tsTypeRef _ [.mk .ident (n :: b :: _) _, tparams] =>
      match lookupReg reg.typeAliases (n, b) with
      | some t => propsOfTypeG idx fuel reg t
      | none =>
        match lookupReg reg.interfaces (n, b) with
        | some (.mk .tsIface _ [_, _, .mk .list _ ext, .mk .tsIfaceBody _ [.mk .list _ members]]) =>
          ext.foldl (fun acc p =>
            acc.append
              (match p with
               -- `extends B`, `extends Partial<B>`: the parent is the type reference written there, type arguments included
               | .mk .tsExprWithTypeArgs _ [.mk .ident ias _, targs] => propsOfTypeG idx fuel reg (.mk .tsTypeRef [] [.mk .ident ias [], targs])
               | _ => .unresolved))                          -- `extends NS.B`: unsupported, must be reported
            (.ok (membersSpec members))
        | some _ => .outside
        | none =>
          if b != "u" then .unresolved else      -- bound, but not a local type: imported from another module
          let ps := typeParamsList tparams
          if n == "Partial" then
            (match ps.head? with | some p => (propsOfTypeG idx fuel reg p).bind fun xs => .ok (xs.map fun x => { x with optional := true }) | none => .outside)
          else if n == "Required" then
            (match ps.head? with | some p => (propsOfTypeG idx fuel reg p).bind fun xs => .ok (xs.map fun x => { x with optional := false }) | none => .outside)
          else if n == "Pick" then
            match ps with
            | objT :: keysT :: _ =>
              (propsOfTypeG idx fuel reg objT).bind fun props =>
                match literalStrings fuel reg keysT with
                | some keys => .ok (props.filter (pickedBy keys))
                | none => .unresolved
            | _ => .outside
          else if n == "Omit" then
            match ps with
            | objT :: keysT :: _ =>
              (propsOfTypeG idx fuel reg objT).bind fun props =>
                match literalStrings fuel reg keysT with
                | some keys => .ok (props.filter fun p => !pickedBy keys p)
                | none => .unresolved
            | _ => .outside
          else .unresolved                          -- an undeclared name or an unsupported utility type
    | .mk .tsIndexed _ [objT, idxT] =>
      if !idx then .outside else
      -- `T['k']`: the type of property k of T (every declaration of k when T is an intersection that declares it twice)
      (propsOfTypeG idx fuel reg objT).bind fun props =>
        match literalStrings fuel reg idxT with
        | some [k] =>
          match props.filter (pickedBy [k]) with
          | [] => .outside
          | sel =>
            if sel.any (·.ty.isNone) then .outside else
            sel.foldl (fun acc p => acc.append (match p.ty with | some t => propsOfTypeG idx fuel reg t | none => .outside)) (.ok [])
        | _ => .outside
    | .mk .tsTypeRef _ _ => .unresolved             -- qualified names
    | .mk .tsKeyword _ _ => .unresolved
    | .mk (.other _) _ _ => .unresolved             -- keyof, typeof, mapped, conditional, ... types
    | _ => .outside

/-- the declared properties of a props type -/
def propsOfType (fuel : Nat) (reg : St) (ty : Node) : PRes := propsOfTypeG true fuel reg ty

/-! ### runtime constructors (C17) -/

/-- the value kinds Vue's validation distinguishes; `anyValue` = no check at all -/
inductive Ctor where
  | named (n : String)
  | nullValue
  | anyValue
  deriving DecidableEq, Repr, Inhabited

def builtinClasses : List String :=
  ["Array", "Function", "Object", "Set", "Map", "WeakSet", "WeakMap", "Date", "Promise", "Error", "RegExp"]

def ctorInsert (c : Ctor) (cs : List Ctor) : List Ctor := if cs.contains c then cs else cs ++ [c]
def ctorUnion (a b : List Ctor) : List Ctor := b.foldl (fun acc c => ctorInsert c acc) a

def membersCtors (members : List Node) : List Ctor :=
  members.foldl (fun acc m =>
    match m with
    | .mk .tsCallSig _ _ => ctorInsert (.named "Function") acc
    | .mk .tsCtorSig _ _ => ctorInsert (.named "Function") acc
    | _ => ctorInsert (.named "Object") acc) []

/-- an object-like type whose members say nothing else (`{}`, an empty interface) is an Object: the set of constructors of an
    inhabited type is never empty (an empty `type: []` makes Vue reject EVERY value) -/
def objectLike (cs : List Ctor) : List Ctor := if cs.isEmpty then [.named "Object"] else cs

/-- a type with the aliases and parentheses in front of it removed (`none`: the chain does not end within the fuel) -/
def unaliasType (fuel : Nat) (reg : St) (ty : Node) : Option Node :=
  match fuel with
  | 0 => none
  | fuel + 1 =>
    match ty with
    | .mk .tsParen _ [t] => unaliasType fuel reg t
    | .mk .tsTypeRef _ (.mk .ident (n :: b :: _) _ :: _) =>
      match lookupReg reg.typeAliases (n, b) with
      | some t => unaliasType fuel reg t
      | none => some ty
    | t => some t

/-- what an index type `[number]`, `[0]`, `[1]`... selects from an array or tuple: `some none` = every element -/
def numericIndex (idx : Node) : Option (Option Nat) :=
  match idx with
  | .mk .tsKeyword ["number"] _ => some none
  | .mk .tsLitType _ [.mk .num (v :: _) _] => some (some (natOfNumAtom v))
  | _ => none

/-- the type of a tuple element (labels dropped) -/
def tupleElemType (e : Node) : Node := match e with | .mk .tsTupleElem _ [_, t] => t | e => e

/-- the JavaScript constructors of the values of a type -/
def ctorsOfType (fuel : Nat) (reg : St) (ty : Node) : List Ctor :=
  match fuel with
  | 0 => [.anyValue]
  | fuel + 1 =>
    match ty with
    | .mk .tsKeyword [k] _ =>
      if k == "string" then [.named "String"] else if k == "number" then [.named "Number"]
      else if k == "boolean" then [.named "Boolean"] else if k == "object" then [.named "Object"]
      else if k == "bigint" then [.named "BigInt"] else if k == "symbol" then [.named "Symbol"]
      else if k == "any" || k == "unknown" then [.anyValue]
      else [.nullValue]                         -- null, undefined, void, never
    | .mk .tsTypeLit _ [.mk .list _ members] => objectLike (membersCtors members)
    | .mk .tsFnType _ _ => [.named "Function"]
    | .mk .tsCtorType _ _ => [.named "Function"]
    | .mk .tsArray _ _ => [.named "Array"]
    | .mk .tsTuple _ _ => [.named "Array"]
    | .mk .tsLitType _ [lit] =>
      match lit with
      | .mk .str _ _ => [.named "String"]
      | .mk .tsTplLit _ _ => [.named "String"]
      | .mk .bool _ _ => [.named "Boolean"]
      | .mk .bigint _ _ => [.named "BigInt"]
      | _ => [.named "Number"]
    | .mk .tsParen _ [t] => ctorsOfType fuel reg t
    | .mk .tsOptional _ [t] => ctorsOfType fuel reg t
    -- a rest element of a tuple reached by indexing (`[A, ...B[]][1]`): the values are B's; a rest of anything else: no check
    | .mk (.other "TsRestType") _ [.mk .tsArray _ [elem]] => ctorsOfType fuel reg elem
    | .mk (.other "TsRestType") _ _ => [.anyValue]
    | .mk .tsUnion _ [.mk .list _ ts] => ts.foldl (fun acc t => ctorUnion acc (ctorsOfType fuel reg t)) []
    | .mk .tsIntersection _ [.mk .list _ ts] => ts.foldl (fun acc t => ctorUnion acc (ctorsOfType fuel reg t)) []
    | .mk .tsIndexed _ [objT, idxT] =>
      -- array / tuple / `[string]` indexing: as the model reads it (checked against the code by the correspondence)
      -- (an access nothing is known about - an imported object type, a `keyof` index - admits no check at all: the empty list
      --  would be a check that NO value passes)
      let viaModel := match resolveIndexed FUEL reg objT idxT with
        | (some t, _) => (match ctorsOfType fuel reg t with | [] => [.anyValue] | cs => cs)
        | (none, _) => [.anyValue]
      -- property indexing `T['k']`, `T['a' | 'b']`: the union of the types of the SELECTED declared properties of T —
      -- T read by `propsOfType`, i.e. own and inherited members, through aliases, intersections and utility wrappers
      -- array / tuple indexing: `T[][number]`, `T[][0]` and `Array<T>[number]` are T; `[A, B][1]` is B; `[A, B][number]` is A | B
      let arrayLike : Option (List Ctor) :=
        match unaliasType fuel reg objT, numericIndex idxT with
        | some (.mk .tsArray _ [elem]), some _ => some (ctorsOfType fuel reg elem)
        | some (.mk .tsTypeRef _ [.mk .ident ("Array" :: "u" :: _) _, tps]), some _ => ((typeParamsList tps).head?).map (ctorsOfType fuel reg)
        | some (.mk .tsTuple _ [.mk .list _ elems]), some (some i) => (elems[i]?).map fun e => ctorsOfType fuel reg (tupleElemType e)
        | some (.mk .tsTuple _ [.mk .list _ elems]), some none =>
          some (elems.foldl (fun acc e => ctorUnion acc (ctorsOfType fuel reg (tupleElemType e))) [])
        | _, _ => none
      match arrayLike with
      | some [] => [.anyValue]      -- the element type has no values (`never`): nothing to check, and the empty list is never emitted for an access
      | some cs => cs
      | none =>
      match propsOfType fuel reg objT, literalStrings fuel reg idxT with
      | .ok props, some keys =>
        let sel := props.filter fun p => keys.contains (specKeyName p.key)
        if sel.isEmpty then viaModel else
        (match sel.foldl (fun acc p => ctorUnion acc
          (if p.isMethod then [.named "Function"] else match p.ty with | some t => ctorsOfType fuel reg t | none => [.anyValue])) [] with
         | [] => [.anyValue]       -- every selected property has type `never`
         | cs => cs)
      | _, _ => viaModel
    | .mk .tsTypeRef _ [.mk .ident (n :: b :: _) _, tparams] =>
      match lookupReg reg.typeAliases (n, b) with
      | some t => ctorsOfType fuel reg t
      | none =>
        match lookupReg reg.interfaces (n, b) with
        | some (.mk .tsIface _ [_, _, .mk .list _ ext, .mk .tsIfaceBody _ [.mk .list _ members]]) =>
          -- own members, then what each parent of the `extends` clause contributes (a callable parent makes it a Function)
          objectLike (ext.foldl (fun acc p =>
            match p with
            | .mk .tsExprWithTypeArgs _ [.mk .ident ias _, targs] => ctorUnion acc (ctorsOfType fuel reg (.mk .tsTypeRef [] [.mk .ident ias [], targs]))
            | _ => ctorInsert (.named "Object") acc) (membersCtors members))
        | some _ => []
        | none =>
          let ps := typeParamsList tparams
          if builtinClasses.contains n then [.named n]
          else if ["Partial", "Required", "Readonly", "Record", "Pick", "Omit", "InstanceType"].contains n then [.named "Object"]
          else if ["Uppercase", "Lowercase", "Capitalize", "Uncapitalize"].contains n then [.named "String"]
          else if ["Parameters", "ConstructorParameters"].contains n then [.named "Array"]
          else if n == "NonNullable" then
            match ps.head? with
            | some p => (ctorsOfType fuel reg p).filter (· != .nullValue)
            | none => [.named "Object"]
          else if n == "Exclude" || n == "OmitThisParameter" then
            match ps.head? with
            | some p => ctorsOfType fuel reg p
            | none => [.named "Object"]
          else if n == "Extract" then
            match ps[1]? with
            | some p => ctorsOfType fuel reg p
            | none => [.named "Object"]
          else [.named "Object"]
    | _ => [.named "Object"]

/-- `any` / `unknown` anywhere in a union means: no check at all -/
def normCtors (cs : List Ctor) : List Ctor := if cs.contains .anyValue then [.anyValue] else cs

/-- the constructors denoted by an emitted `type:` expression (`null` alone = no check; `null` inside an array = the
    null value) -/
def ctorsOfEmitted (e : Node) : Option (List Ctor) :=
  match e with
  | .mk .null _ _ => some [.anyValue]
  | .mk .ident (n :: _) _ => some [.named n]
  | .mk .array _ [.mk .list _ elems] =>
    elems.foldl (fun acc el =>
      match acc, el with
      | some a, .mk .arg _ [.mk .null _ _] => some (a ++ [.nullValue])
      | some a, .mk .arg _ [.mk .ident (n :: _) _] => some (a ++ [.named n])
      | _, _ => none) (some [])
  | _ => none

/-! ### emits (C19) -/

def firstParamType (params : List Node) : Option Node :=
  match params.head? with
  | some (.mk .ident _ [a]) => typeAnnInner a
  | some (.mk .arrayPat _ [_, a]) => typeAnnInner a
  | some (.mk .restPat _ [_, a]) => typeAnnInner a
  | some (.mk .objectPat _ [_, a]) => typeAnnInner a
  | _ => none

/-- what one member of an emits type contributes: a call signature the literal names of its first parameter, a statically
    named property / method its name -/
def emitMemberSpec (fuel : Nat) (reg : St) (acc : Option (List String)) (m : Node) : Option (List String) :=
  match acc, m with
  | some a, .mk .tsCallSig _ (.mk .list _ params :: _) =>
    (match firstParamType params with
     | some t => (literalStrings fuel reg t).map (a ++ ·)
     | none => some a)
  -- the property syntax `{ name: [args] }` / `{ name(args): void }`: statically named (identifier or quoted) members
  | some a, .mk .tsPropSig as (k :: _) => some (match (specKeyC (as.getD 1 "false") k).bind pickName with | some n => a ++ [n] | none => a)
  | some a, .mk .tsMethodSig as (k :: _) => some (match (specKeyC (as.headD "false") k).bind pickName with | some n => a ++ [n] | none => a)
  | some a, _ => some a
  | none, _ => none

def emitsOfMembers (fuel : Nat) (reg : St) (members : List Node) (init : List String) : Option (List String) :=
  members.foldl (emitMemberSpec fuel reg) (some init)

/-- the event names an emits type declares; `none` = outside the grammar -/
def emitsOfType (fuel : Nat) (reg : St) (ty : Node) : Option (List String) :=
  match fuel with
  | 0 => none
  | fuel + 1 =>
    match ty with
    | .mk .tsTypeLit _ [.mk .list _ members] => emitsOfMembers fuel reg members []
    | .mk .tsFnType _ [.mk .list _ params, _, _] =>
      (match firstParamType params with
       | some t => literalStrings fuel reg t
       | none => some [])
    | .mk .tsParen _ [t] => emitsOfType fuel reg t
    | .mk .tsUnion _ [.mk .list _ ts] =>
      ts.foldl (fun acc t => match acc, emitsOfType fuel reg t with | some a, some b => some (a ++ b) | _, _ => none) (some [])
    | .mk .tsIntersection _ [.mk .list _ ts] =>
      ts.foldl (fun acc t => match acc, emitsOfType fuel reg t with | some a, some b => some (a ++ b) | _, _ => none) (some [])
    | .mk .tsTypeRef _ [.mk .ident (n :: b :: _) _, _] =>
      match lookupReg reg.typeAliases (n, b) with
      | some t => emitsOfType fuel reg t
      | none =>
        match lookupReg reg.interfaces (n, b) with
        | some (.mk .tsIface _ [_, _, .mk .list _ ext, .mk .tsIfaceBody _ [.mk .list _ members]]) =>
          ext.foldl (fun acc p =>
            match acc, p with
            | some a, .mk .tsExprWithTypeArgs _ [.mk .ident ias _, targs] =>
              (emitsOfType fuel reg (.mk .tsTypeRef [] [.mk .ident ias [], targs])).map (a ++ ·)
            | _, _ => none) (emitsOfMembers fuel reg members [])
        | _ => none
    | _ => none

end VueJsx
