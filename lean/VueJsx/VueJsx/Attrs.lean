/-
  Attrs: model of `util::dedupe_props`, `util::is_constant`, and `lib.rs: transform_attrs`.
-/
import VueJsx.Directive

namespace VueJsx
open Text

/-! ### patch flags (visitor/src/patch_flags.rs) -/
def PF_CLASS : Nat := 2
def PF_STYLE : Nat := 4
def PF_PROPS : Nat := 8
def PF_FULL_PROPS : Nat := 16
def PF_HYDRATE_EVENTS : Nat := 32
def PF_NEED_PATCH : Nat := 512

/-! ### `is_constant` / `is_jsx_attr_value_constant` -/
mutual
def isConstant : Node → Bool
  | .mk .ident (n :: b :: _) _ => n == "undefined" && b == "u"     -- only the GLOBAL `undefined` (unresolved binding)
  | .mk .array _ [.mk .list _ elems] => allConstElems elems
  | .mk .object _ [.mk .list _ props] => allConstProps props
  | .mk .str _ _ => true
  | .mk .num _ _ => true
  | .mk .bool _ _ => true
  | .mk .null _ _ => true
  | .mk .bigint _ _ => true
  | .mk .regex _ _ => true
  | .mk .jsxText _ _ => true
  | _ => false
def allConstElems : List Node → Bool
  | [] => true
  | .mk .arg _ [e] :: rest => isConstant e && allConstElems rest
  | _ :: _ => false
def allConstProps : List Node → Bool
  | [] => true
  | .mk .kv _ [k, v] :: rest =>
    -- a computed key is evaluated on every render, just like the value
    (match k with | .mk .computed _ [e] => isConstant e | _ => true) && isConstant v && allConstProps rest
  | .mk .ident (n :: b :: _) _ :: rest => (n == "undefined" && b == "u") && allConstProps rest   -- shorthand property
  | _ :: _ => false
end

/-- `is_jsx_attr_value_constant` on a present attribute value -/
def isAttrValueConstant (v : Node) : Bool :=
  match v with
  | .mk .str _ _ => true
  | .mk .jsxExprContainer _ [e] =>
    match e with
    | .mk .jsxEmpty _ _ => false
    | e => isConstant e
  | _ => false

/-! ### `dedupe_props` -/

/-- key of a `KeyValue` property with a string-literal key -/
def strKeyOf : Node → Option String
  | .mk .kv _ [.mk .str (k :: _) _, _] => some k
  | _ => none

def isMergeKey (name : String) : Bool :=
  name == "class" || name == "style" || name.toList.take 2 == ['o', 'n']

/-- merge `value` into the already-defined value of the same key -/
def mergeInto (defined value : Node) : Node :=
  match defined with
  | .mk .array as [.mk .list las elems] => .mk .array as [.mk .list las (elems ++ [nArg value])]
  | d => nArray [nArg d, nArg value]

/-- add one string-keyed property to the list of already defined ones -/
def dedupeAdd (name : String) (prop value : Node) : List Node → List Node
  | [] => [prop]
  | d :: ds =>
    match d with
    | .mk .kv das [.mk .str (k :: kas) kks, dv] =>
      if k == name then
        if isMergeKey name then .mk .kv das [.mk .str (k :: kas) kks, mergeInto dv value] :: ds
        else d :: ds
      else d :: dedupeAdd name prop value ds
    | d => d :: dedupeAdd name prop value ds

/-- `util::dedupe_props` -/
def dedupeProps (props : List Node) : List Node :=
  props.foldl (fun defined p =>
    match p with
    | .mk .kv _ [.mk .str (k :: _) _, v] => dedupeAdd k p v defined
    | p => defined ++ [p]) []

/-! ### `transform_attrs` -/

structure AttrAcc where
  props : List Node := []
  mergeArgs : List Node := []
  dynamicProps : List String := []
  directives : List (String × Option Node × Option Node × Node) := []   -- NormalDirective
  slots : Option Node := none
  hasRef : Bool := false
  hasClass : Bool := false
  hasStyle : Bool := false
  hasHydration : Bool := false
  hasDynamicKeys : Bool := false
  deriving Inhabited

structure AttrsResult where
  attrs : Node
  patchFlags : Nat
  dynamicProps : Option (List String)
  slots : Option Node
  directives : List (String × Option Node × Option Node × Node)
  deriving Inhabited

def eqIgnoreAsciiCase (a b : String) : Bool :=
  a.toList.map asciiLower == b.toList.map asciiLower

/-- the listener `$event => (target) = $event` -/
def nModelListener (target : Node) : Node :=
  nArrow [nBindingIdent (nQuoteIdent "$event")] (nAssignParen target (nQuoteIdent "$event"))

/-- value expression of a plain attribute; an element / fragment value has been lowered by the caller (`lowered`) -/
def attrValueExpr (v : Node) (lowered : Option Node) (st : St) : Node × St :=
  match lowered with
  | some e => (e, st)
  | none =>
    match v with
    | .mk .none _ _ => (nBool true, st)
    | .mk .str (s :: _) _ => (nStr (String.ofList (cleanText s.toList)), st)
    | .mk .jsxExprContainer _ [e] => (e, st)            -- incl. the empty expression `{}` (Expr::JSXEmpty)
    | v => (v, st.panic "unreachable: JSX attribute value literal must be string")

/-- how a v-model argument is given: 0 = default (`modelValue`), 1 = static string, 2 = computed expression -/
def vmodelArgKind (argument : Option Node) : Nat × String × Node :=
  match argument with
  | none => (0, "", nNull)
  | some (.mk .null _ _) => (0, "", nNull)
  | some (.mk .str (s :: _) _) => (1, s, nNull)
  | some e => (2, "", e)

def vmodelStepK (isComponent : Bool) (argKind : Nat × String × Node) (transformed modifiers : Option Node) (value : Node)
    (acc : AttrAcc) : AttrAcc :=
  let acc :=
    if isComponent then
      let (key, acc) :=
        match argKind with
        | (0, _, _) => (nStr "modelValue", { acc with dynamicProps := insertUnique "modelValue" acc.dynamicProps })
        | (1, s, _) => (nStr s, { acc with dynamicProps := insertUnique s acc.dynamicProps })
        | (_, _, e) => (nComputed e, acc)
      let acc := { acc with props := acc.props ++ [nKV key value] }
      match modifiers with
      | some m =>
        let mkey :=
          match argKind with
          | (0, _, _) => nStr "modelModifiers"
          | (1, s, _) => nStr (s ++ "Modifiers")
          | (_, _, e) => nComputed (nBin "+" e (nStr "Modifiers"))
        { acc with props := acc.props ++ [nKV mkey m] }
      | none => acc
    else
      { acc with directives := acc.directives ++ [("model", transformed, modifiers, value)] }
  let (lkey, acc) :=
    match argKind with
    | (0, _, _) =>
      (nStr "onUpdate:modelValue", { acc with dynamicProps := insertUnique "onUpdate:modelValue" acc.dynamicProps })
    | (1, s, _) =>
      (nStr ("onUpdate:" ++ s), { acc with dynamicProps := insertUnique ("onUpdate:" ++ s) acc.dynamicProps })
    | (_, _, e) => (nComputed (nBin "+" (nStr "onUpdate") e), { acc with hasDynamicKeys := true })
  { acc with props := acc.props ++ [nKV lkey (nModelListener value)] }

def vmodelStep (o : Opts) (isComponent : Bool) (argument transformed modifiers : Option Node) (value : Node)
    (acc : AttrAcc) : AttrAcc :=
  let _ := o
  vmodelStepK isComponent (vmodelArgKind argument) transformed modifiers value acc

/-- hydration-event fact of a non-constant plain attribute -/
def hydrationStep (isComponent : Bool) (attrName : String) (acc : AttrAcc) : AttrAcc :=
  if !isComponent && isOn attrName.toList && !eqIgnoreAsciiCase attrName "onclick" && attrName != "onUpdate:modelValue"
  then { acc with hasHydration := true } else acc

/-- class / style / dynamic-prop fact of a non-constant plain attribute -/
def coverStep (isComponent : Bool) (attrName : String) (acc : AttrAcc) : AttrAcc :=
  if attrName == "class" && !isComponent then { acc with hasClass := true }
  else if attrName == "style" && !isComponent then { acc with hasStyle := true }
  else if attrName == "key" || attrName == "ref" then acc
  else { acc with dynamicProps := insertUnique attrName acc.dynamicProps }

/-- patch-flag analysis of one plain attribute -/
def plainAttrFlags (isComponent : Bool) (attrName : String) (valueN : Node) (isTransformOn : Bool) (acc : AttrAcc) : AttrAcc :=
  if isTransformOn then { acc with hasDynamicKeys := true }
  else if attrName == "ref" then { acc with hasRef := true }
  else if !(if isNone valueN then false else isAttrValueConstant valueN) then
    coverStep isComponent attrName (hydrationStep isComponent attrName acc)
  else acc

/-- one step of the fold in `transform_attrs` -/
def attrStep (o : Opts) (isComponent : Bool) (a : Node) (lowered : Option Node) (acc : AttrAcc) (st : St) : AttrAcc × St :=
  match a with
  | .mk .jsxAttr _ [nameN, valueN] =>
    let name := attrNameOf nameN
    if isDirectiveAttrName name then
      let (d, st) := parseDirective name valueN isComponent st
      match d with
      | .normal n arg mods v => ({ acc with directives := acc.directives ++ [(n, arg, mods, v)] }, st)
      | .html e =>
        ({ acc with props := acc.props ++ [nKV (nStr "innerHTML") e],
                    dynamicProps := insertUnique "innerHTML" acc.dynamicProps }, st)
      | .text e =>
        ({ acc with props := acc.props ++ [nKV (nStr "textContent") e],
                    dynamicProps := insertUnique "textContent" acc.dynamicProps }, st)
      | .vmodel arg targ mods v => (vmodelStep o isComponent arg targ mods v acc, st)
      | .slots e => ({ acc with slots := e }, st)
    else
      let attrName :=
        match name with
        | .plain s => s
        | .ns ns n => ns ++ ":" ++ n
        | .bad => ""
      let (attrValue, st) := attrValueExpr valueN lowered st
      let isTransformOn := o.transformOn && (attrName == "on" || attrName == "nativeOn")
      let acc := plainAttrFlags isComponent attrName valueN isTransformOn acc
      if isTransformOn then
        let (helper, st) :=
          match st.transformOnHelper with
          | some h => (h, st)
          | none =>
            let (h, st) := st.fresh "_transformOn"
            (h, { st with transformOnHelper := some h })
        -- attributes written before `on` are flushed first (source order)
        let acc :=
          if !acc.props.isEmpty then
            { acc with mergeArgs := acc.mergeArgs ++ [nObject (if o.mergeProps then dedupeProps acc.props else acc.props)],
                       props := [] }
          else acc
        ({ acc with mergeArgs := acc.mergeArgs ++ [nCall helper [nArg attrValue]] }, st)
      else
        ({ acc with props := acc.props ++ [nKV (nStr attrName) attrValue] }, st)
  | .mk .spreadElement _ [e] =>
    let acc := { acc with hasDynamicKeys := true }
    let acc :=
      if !acc.props.isEmpty && o.mergeProps then
        { acc with mergeArgs := acc.mergeArgs ++ [nObject (dedupeProps acc.props)], props := [] }
      else acc
    match e with
    | .mk .object oas [.mk .list las oprops] =>
      if o.mergeProps then ({ acc with mergeArgs := acc.mergeArgs ++ [.mk .object oas [.mk .list las oprops]] }, st)
      else ({ acc with props := acc.props ++ oprops }, st)
    | e =>
      if o.mergeProps then ({ acc with mergeArgs := acc.mergeArgs ++ [e] }, st)
      else ({ acc with props := acc.props ++ [nSpreadElement e] }, st)
  | _ => (acc, st.panic "ill-formed attribute")

/-- the props expression assembled after the fold -/
def assembleProps (o : Opts) (props mergeArgs : List Node) (st : St) : Node × St :=
  if !mergeArgs.isEmpty then
    let mergeArgs :=
      if !props.isEmpty then
        mergeArgs ++ [nObject (if o.mergeProps then dedupeProps props else props)]
      else mergeArgs
    match mergeArgs with
    | [e] => (e, st)
    | _ =>
      let (mp, st) := st.importFromVue "mergeProps"
      (nCall mp (mergeArgs.map nArg), st)
  else if !props.isEmpty then
    match props with
    | [.mk .spreadElement _ [e]] => (e, st)
    | _ => (nObject (if o.mergeProps then dedupeProps props else props), st)
  else (nNull, st)

/-- patch-flag decision at the end of `transform_attrs` -/
def patchFlagsOf (acc : AttrAcc) : Nat :=
  let f :=
    if acc.hasDynamicKeys then PF_FULL_PROPS
    else
      (if acc.hasClass then PF_CLASS else 0) + (if acc.hasStyle then PF_STYLE else 0)
        + (if !acc.dynamicProps.isEmpty then PF_PROPS else 0) + (if acc.hasHydration then PF_HYDRATE_EVENTS else 0)
  if (f == 0 || f == PF_HYDRATE_EVENTS) && (acc.hasRef || !acc.directives.isEmpty) then f + PF_NEED_PATCH else f

end VueJsx
