/-
  Syntax: one rose tree for the visitor's input AND output (SWC uses one `Expr` for both).

  A node is `⟨kind, atoms, kids⟩`.  It is produced from SWC's own serde serialisation of its AST by the
  abstraction α (`/verif/tools/alpha.py`), by ONE generic rule:
    * `kind`  = the node's serde `type` tag,
    * `atoms` = its scalar fields (strings, numbers, booleans) in declaration order,
    * `kids`  = its non-scalar fields in declaration order (= SWC's visit order); an absent optional child is
                the node `none`, a `Vec<_>` is a `list` node (a `Vec<Stmt>` is a `stmts` node),
  with these exceptions: spans, `raw` texts and the hygiene `ctxt` of non-identifiers are dropped;
  an `Identifier` is `⟨ident, [name, bind], _⟩` with `bind` the binding class computed from its SyntaxContext
  (`u` unresolved, `e` empty context, `n` a plain name (IdentName), `b<k>` user binding context k,
  `g<k>` a context that does not occur in the input = k-th generated private identifier);
  a `CallExpression` carries `syn`/`usr` (span is / is not DUMMY_SP); an `ExprOrSpread` is `arg`/`spreadArg`.

  This file imports nothing, so that the driver links as a plain executable.
-/

namespace VueJsx

/-- Node kinds the model inspects or generates; every other SWC node type is `other tag`. -/
inductive K where
  | module | importDecl | importSpec | importDefault | importStar
  | varDecl | declarator | fnDecl | fnExpr | param | block | ret | exprStmt
  | ident | str | num | bool | null | bigint | regex
  | array | object | kv | shorthandProp | getterProp | setterProp | methodProp | assignProp | spreadElement | computed
  | call | optCall | arrow | assign | assignPat | cond | bin | unary | member | paren
  | jsxElement | jsxFragment | jsxOpening | jsxClosing | jsxOpeningFrag | jsxClosingFrag
  | jsxAttr | jsxExprContainer | jsxEmpty | jsxSpreadChild | jsxMember | jsxNsName | jsxText
  | arg | spreadArg | list | stmts | none
  | tsTypeAnn | tsKeyword | tsTypeLit | tsUnion | tsIntersection | tsTypeRef | tsQualified | tsIndexed
  | tsFnType | tsCtorType | tsParen | tsOptional | tsArray | tsTuple | tsTupleElem | tsLitType | tsTplLit
  | tsPropSig | tsMethodSig | tsGetterSig | tsSetterSig | tsCallSig | tsCtorSig | tsIndexSig
  | tsIface | tsIfaceBody | tsAlias | tsExprWithTypeArgs | tsTypeParamInst
  | arrayPat | objectPat | restPat
  | ill            -- produced only by the model, for an input shape it does not cover (never by α)
  | other (tag : String)
  deriving DecidableEq, Repr, Inhabited

inductive Node where
  | mk (kind : K) (atoms : List String) (kids : List Node)
  deriving Repr, Inhabited

namespace Node
def kind : Node → K | mk k _ _ => k
def atoms : Node → List String | mk _ a _ => a
def kids : Node → List Node | mk _ _ c => c
end Node

mutual
def Node.beq : Node → Node → Bool
  | .mk k1 a1 c1, .mk k2 a2 c2 => k1 == k2 && a1 == a2 && Node.beqList c1 c2
def Node.beqList : List Node → List Node → Bool
  | [], [] => true
  | x :: xs, y :: ys => Node.beq x y && Node.beqList xs ys
  | _, _ => false
end
instance : BEq Node := ⟨Node.beq⟩

/-- SWC serde tag ↔ kind -/
def kindTable : List (String × K) := [
  ("Module", .module), ("ImportDeclaration", .importDecl), ("ImportSpecifier", .importSpec),
  ("ImportDefaultSpecifier", .importDefault), ("ImportNamespaceSpecifier", .importStar),
  ("VariableDeclaration", .varDecl), ("VariableDeclarator", .declarator), ("FunctionDeclaration", .fnDecl),
  ("FunctionExpression", .fnExpr), ("Parameter", .param), ("BlockStatement", .block), ("ReturnStatement", .ret),
  ("ExpressionStatement", .exprStmt),
  ("Identifier", .ident), ("StringLiteral", .str), ("NumericLiteral", .num), ("BooleanLiteral", .bool),
  ("NullLiteral", .null), ("BigIntLiteral", .bigint), ("RegExpLiteral", .regex),
  ("ArrayExpression", .array), ("ObjectExpression", .object), ("KeyValueProperty", .kv),
  ("GetterProperty", .getterProp), ("SetterProperty", .setterProp), ("MethodProperty", .methodProp),
  ("AssignmentProperty", .assignProp), ("SpreadElement", .spreadElement), ("Computed", .computed),
  ("CallExpression", .call), ("OptCall", .optCall), ("ArrowFunctionExpression", .arrow),
  ("AssignmentExpression", .assign), ("AssignmentPattern", .assignPat), ("ConditionalExpression", .cond),
  ("BinaryExpression", .bin), ("UnaryExpression", .unary), ("MemberExpression", .member),
  ("ParenthesisExpression", .paren),
  ("JSXElement", .jsxElement), ("JSXFragment", .jsxFragment), ("JSXOpeningElement", .jsxOpening),
  ("JSXClosingElement", .jsxClosing), ("JSXOpeningFragment", .jsxOpeningFrag), ("JSXClosingFragment", .jsxClosingFrag),
  ("JSXAttribute", .jsxAttr), ("JSXExpressionContainer", .jsxExprContainer), ("JSXEmptyExpression", .jsxEmpty),
  ("JSXSpreadChild", .jsxSpreadChild), ("JSXMemberExpression", .jsxMember), ("JSXNamespacedName", .jsxNsName),
  ("JSXText", .jsxText),
  ("arg", .arg), ("spreadArg", .spreadArg), ("list", .list), ("stmts", .stmts), ("none", .none),
  ("TsTypeAnnotation", .tsTypeAnn), ("TsKeywordType", .tsKeyword), ("TsTypeLiteral", .tsTypeLit),
  ("TsUnionType", .tsUnion), ("TsIntersectionType", .tsIntersection), ("TsTypeReference", .tsTypeRef),
  ("TsQualifiedName", .tsQualified), ("TsIndexedAccessType", .tsIndexed), ("TsFunctionType", .tsFnType),
  ("TsConstructorType", .tsCtorType), ("TsParenthesizedType", .tsParen), ("TsOptionalType", .tsOptional),
  ("TsArrayType", .tsArray), ("TsTupleType", .tsTuple), ("TsTupleElement", .tsTupleElem),
  ("TsLiteralType", .tsLitType), ("TemplateLiteral", .tsTplLit),
  ("TsPropertySignature", .tsPropSig), ("TsMethodSignature", .tsMethodSig), ("TsGetterSignature", .tsGetterSig),
  ("TsSetterSignature", .tsSetterSig), ("TsCallSignatureDeclaration", .tsCallSig),
  ("TsConstructSignatureDeclaration", .tsCtorSig), ("TsIndexSignature", .tsIndexSig),
  ("TsInterfaceDeclaration", .tsIface), ("TsInterfaceBody", .tsIfaceBody), ("TsTypeAliasDeclaration", .tsAlias),
  ("TsExpressionWithTypeArguments", .tsExprWithTypeArgs), ("TsTypeParameterInstantiation", .tsTypeParamInst),
  ("ArrayPattern", .arrayPat), ("ObjectPattern", .objectPat), ("RestElement", .restPat),
  ("ill", .ill)]

def kindOfTag (s : String) : K :=
  match kindTable.find? (fun p => p.1 == s) with
  | some p => p.2
  | none => .other s

def tagOfKind (k : K) : String :=
  match k with
  | .other s => s
  | k => match kindTable.find? (fun p => p.2 == k) with
    | some p => p.1
    | none => "?"

/-! ### constructors used all over the model -/

def nNone : Node := .mk .none [] []
def nList (xs : List Node) : Node := .mk .list [] xs
def nStmts (xs : List Node) : Node := .mk .stmts [] xs
def nIdent (name bind : String) : Node := .mk .ident [name, bind] []
def nStr (s : String) : Node := .mk .str [s] []
def nNum (n : Nat) : Node := .mk .num [toString n] []
def nBool (b : Bool) : Node := .mk .bool [if b then "true" else "false"] []
def nNull : Node := .mk .null [] []
def nArg (e : Node) : Node := .mk .arg [] [e]
def nSpreadArg (e : Node) : Node := .mk .spreadArg [] [e]
def nArray (elems : List Node) : Node := .mk .array [] [nList elems]
def nObject (props : List Node) : Node := .mk .object [] [nList props]
def nKV (key value : Node) : Node := .mk .kv [] [key, value]
/-- a synthetic (span = DUMMY_SP) call `callee(args…)`; `args` are `arg`/`spreadArg` nodes -/
def nCall (callee : Node) (args : List Node) : Node := .mk .call ["syn"] [callee, nList args, nNone]
def nSpreadElement (e : Node) : Node := .mk .spreadElement [] [e]

/-! ### S-expression text:  `(Tag atom* kid*)`, atom = `'` followed by a percent-encoded string -/

def hexDigit (n : Nat) : Char :=
  if n < 10 then Char.ofNat (48 + n) else Char.ofNat (55 + n)

def isSafeByte (b : UInt8) : Bool :=
  (48 ≤ b && b ≤ 57) || (65 ≤ b && b ≤ 90) || (97 ≤ b && b ≤ 122) || b == 95 || b == 45 || b == 46
    || b == 36 || b == 58 || b == 64

def encodeAtom (s : String) : String := Id.run do
  let mut out := "'"
  for b in s.toUTF8.data do
    if isSafeByte b then out := out.push (Char.ofNat b.toNat)
    else out := (out.push '%').push (hexDigit (b.toNat / 16)) |>.push (hexDigit (b.toNat % 16))
  return out

partial def printNode (n : Node) : String :=
  match n with
  | .mk k as ks =>
    let a := as.foldl (fun acc s => acc ++ " " ++ encodeAtom s) ""
    let c := ks.foldl (fun acc s => acc ++ " " ++ printNode s) ""
    "(" ++ tagOfKind k ++ a ++ c ++ ")"

def hexVal (c : Char) : Nat :=
  if '0' ≤ c && c ≤ '9' then c.toNat - 48
  else if 'A' ≤ c && c ≤ 'F' then c.toNat - 55
  else if 'a' ≤ c && c ≤ 'f' then c.toNat - 87
  else 0

/-- decode a percent-encoded atom body (chars after the quote) -/
def decodeAtom (cs : Array Char) (i j : Nat) : String := Id.run do
  let mut bytes : ByteArray := ByteArray.empty
  let mut k := i
  while k < j do
    let c := cs[k]!
    if c == '%' && k + 2 < j + 0 + 1 then
      bytes := bytes.push (UInt8.ofNat (hexVal cs[k+1]! * 16 + hexVal cs[k+2]!))
      k := k + 3
    else
      bytes := bytes.push (UInt8.ofNat c.toNat)
      k := k + 1
  match String.fromUTF8? bytes with
  | some s => return s
  | none => return "�"

/-- parser over an array of chars; returns node and next index -/
partial def parseNodeAt (cs : Array Char) (i0 : Nat) : Option (Node × Nat) := do
  let mut i := i0
  while i < cs.size && cs[i]! == ' ' do i := i + 1
  if i ≥ cs.size || cs[i]! != '(' then none
  i := i + 1
  let t0 := i
  while i < cs.size && cs[i]! != ' ' && cs[i]! != ')' && cs[i]! != '(' do i := i + 1
  let tag := String.ofList (cs.extract t0 i).toList
  let mut atoms : Array String := #[]
  let mut kids : Array Node := #[]
  let mut done := false
  while !done do
    while i < cs.size && cs[i]! == ' ' do i := i + 1
    if i ≥ cs.size then none
    let c := cs[i]!
    if c == ')' then
      i := i + 1
      done := true
    else if c == '\'' then
      let a0 := i + 1
      i := a0
      while i < cs.size && cs[i]! != ' ' && cs[i]! != ')' && cs[i]! != '(' do i := i + 1
      atoms := atoms.push (decodeAtom cs a0 i)
    else if c == '(' then
      let (k, j) ← parseNodeAt cs i
      kids := kids.push k
      i := j
    else none
  return (.mk (kindOfTag tag) atoms.toList kids.toList, i)

def parseNode (s : String) : Option Node :=
  match parseNodeAt s.toList.toArray 0 with
  | some (n, _) => some n
  | none => none

end VueJsx
