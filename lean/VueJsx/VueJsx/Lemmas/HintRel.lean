/-
  HintRel: "equal except for optimisation hints", the relation of C12, stated directly on output trees.

  `HintRel a b` holds when `b` is `a` with — at some synthetic calls that have at least three arguments — everything after
  the third argument deleted (provided it has the shape of a patch flag and/or a dynamic-prop list) and, in the third
  argument of such a call, the trailing reserved `_: <number>` entry of a slots object (or of the slots object in the
  else-branch of the `_isSlot(..) ? .. : {..}` conditional) deleted.  Nothing else may differ: kinds, atoms, order and
  number of all other children are the same.  This is the formal content of "the only differences are the extra
  patch-flag and dynamic-prop arguments of vnode calls and the reserved `_` entry of slot objects".
-/
import VueJsx.Visitor
import VueJsx.Sem

namespace VueJsx

def isStrArg : Node → Bool
  | .mk .arg _ [.mk .str _ _] => true
  | _ => false

/-- what `optimize` may append after the third argument of a vnode call: a patch flag, a dynamic-prop list, or both -/
def isHintsTail : List Node → Bool
  | [] => true
  | [.mk .arg _ [.mk .num _ _]] => true
  | [.mk .arg _ [.mk .array _ [.mk .list _ es]]] => es.all isStrArg
  | [.mk .arg _ [.mk .num _ _], .mk .arg _ [.mk .array _ [.mk .list _ es]]] => es.all isStrArg
  | _ => false

mutual
inductive HintRel : Node → Node → Prop
  /-- same kind, same atoms, children related one by one -/
  | node (k : K) (as : List String) {ks1 ks2 : List Node} : HintRelL ks1 ks2 → HintRel (.mk k as ks1) (.mk k as ks2)
  /-- a synthetic call with three arguments on the right and the same three (related) plus hints on the left -/
  | vnode (as las aas : List String) (c ta : Node) {a1 a2 b1 b2 k1 k2 : Node} {hs : List Node} :
      HintRel a1 a2 → HintRel b1 b2 → KidsRel k1 k2 → isHintsTail hs = true →
      HintRel (.mk .call ("syn" :: as) [c, .mk .list las (a1 :: b1 :: .mk .arg aas [k1] :: hs), ta])
              (.mk .call ("syn" :: as) [c, .mk .list las [a2, b2, .mk .arg aas [k2]], ta])
inductive HintRelL : List Node → List Node → Prop
  | nil : HintRelL [] []
  | cons {x y : Node} {xs ys : List Node} : HintRel x y → HintRelL xs ys → HintRelL (x :: xs) (y :: ys)
/-- the third argument of a vnode call: related as usual, or a slots object that lost its trailing `_` entry -/
inductive KidsRel : Node → Node → Prop
  | same {k1 k2 : Node} : HintRel k1 k2 → KidsRel k1 k2
  | slots (as las : List String) {ps1 ps2 : List Node} {h : Node} : HintRelL ps1 ps2 → isHintEntry h = true →
      KidsRel (.mk .object as [.mk .list las (ps1 ++ [h])]) (.mk .object as [.mk .list las ps2])
  | cond (as oas las : List String) {t1 t2 c1 c2 : Node} {ps1 ps2 : List Node} {h : Node} :
      HintRel t1 t2 → HintRel c1 c2 → HintRelL ps1 ps2 → isHintEntry h = true →
      KidsRel (.mk .cond as [t1, c1, .mk .object oas [.mk .list las (ps1 ++ [h])]])
              (.mk .cond as [t2, c2, .mk .object oas [.mk .list las ps2]])
end

/-! ### reflexivity, lists -/

mutual
theorem HintRel.refl : ∀ n : Node, HintRel n n
  | .mk k as ks => .node k as (HintRelL.refl ks)
theorem HintRelL.refl : ∀ l : List Node, HintRelL l l
  | [] => .nil
  | x :: xs => .cons (HintRel.refl x) (HintRelL.refl xs)
end

theorem HintRelL.append {a1 a2 b1 b2 : List Node} (h1 : HintRelL a1 a2) (h2 : HintRelL b1 b2) : HintRelL (a1 ++ b1) (a2 ++ b2) := by
  induction a1 generalizing a2 with
  | nil => cases h1; simpa using h2
  | cons x xs ih => cases h1 with | cons hx hxs => exact .cons hx (ih hxs)

theorem HintRelL.length {a b : List Node} (h : HintRelL a b) : a.length = b.length := by
  induction a generalizing b with
  | nil => cases h; rfl
  | cons x xs ih => cases h with | cons _ hxs => simp [ih hxs]

theorem HintRelL.isEmpty {a b : List Node} (h : HintRelL a b) : a.isEmpty = b.isEmpty := by
  cases h <;> rfl

theorem HintRelL.single {x y : Node} (h : HintRel x y) : HintRelL [x] [y] := .cons h .nil

theorem HintRelL.getElem? {a b : List Node} (h : HintRelL a b) (i : Nat) :
    (a[i]? = none ∧ b[i]? = none) ∨ ∃ x y, a[i]? = some x ∧ b[i]? = some y ∧ HintRel x y := by
  induction a generalizing b i with
  | nil => cases h; simp
  | cons x xs ih =>
    cases h with
    | cons hx hxs =>
      cases i with
      | zero => exact .inr ⟨_, _, by simp, by simp, hx⟩
      | succ j => simpa using ih hxs j

theorem HintRelL.take {a b : List Node} (h : HintRelL a b) (n : Nat) : HintRelL (a.take n) (b.take n) := by
  induction a generalizing b n with
  | nil => cases h; simpa using HintRelL.nil
  | cons x xs ih =>
    cases h with
    | cons hx hxs =>
      cases n with
      | zero => simpa using HintRelL.nil
      | succ m => simpa using HintRelL.cons hx (ih hxs m)

theorem HintRelL.drop {a b : List Node} (h : HintRelL a b) (n : Nat) : HintRelL (a.drop n) (b.drop n) := by
  induction a generalizing b n with
  | nil => cases h; simpa using HintRelL.nil
  | cons x xs ih =>
    cases h with
    | cons hx hxs =>
      cases n with
      | zero => simpa using HintRelL.cons hx hxs
      | succ m => simpa using ih hxs m

theorem HintRelL.map {α : Type} (f g : α → Node) (l : List α) (h : ∀ x ∈ l, HintRel (f x) (g x)) : HintRelL (l.map f) (l.map g) := by
  induction l with
  | nil => exact .nil
  | cons x xs ih => exact .cons (h x (by simp)) (ih (fun y hy => h y (by simp [hy])))

/-- related option values -/
def OptRel : Option Node → Option Node → Prop
  | none, none => True
  | some x, some y => HintRel x y
  | _, _ => False

theorem OptRel.refl (o : Option Node) : OptRel o o := by
  cases o <;> simp [OptRel, HintRel.refl]

/-! ### inversion helpers: related nodes have the same kind and atoms; a related non-call node has related children -/

theorem HintRel.kind {a b : Node} (h : HintRel a b) : a.kind = b.kind := by
  cases h <;> rfl

theorem HintRel.atoms {a b : Node} (h : HintRel a b) : a.atoms = b.atoms := by
  cases h <;> rfl

theorem HintRel.kids_of_noncall {k1 k2 : K} {as1 as2 : List String} {ks1 ks2 : List Node}
    (h : HintRel (.mk k1 as1 ks1) (.mk k2 as2 ks2)) (hk : k1 ≠ .call) : k1 = k2 ∧ as1 = as2 ∧ HintRelL ks1 ks2 := by
  cases h with
  | node k as hl => exact ⟨rfl, rfl, hl⟩
  | vnode => exact absurd rfl hk

end VueJsx
