import VueJsx.Text

namespace VueJsx.Text

def isBreak (c : Char) : Bool := c == '\n' || c == '\r'
/-- JSX-insignificant whitespace: space, tab, LF, CR -/
def isJsxWs (c : Char) : Bool := c == ' ' || c == '\t' || c == '\n' || c == '\r'

theorem consHead_ne_nil (x : Char) (ls) : consHead x ls ≠ [] := by
  cases ls <;> simp [consHead]

theorem splitAux_ne_nil (b : Bool) (s : List Char) : splitAux b s ≠ [] := by
  induction s generalizing b with
  | nil => simp [splitAux]
  | cons x xs ih =>
    simp only [splitAux]
    split
    · split
      · exact ih _
      · simp
    · split
      · simp
      · exact consHead_ne_nil _ _

theorem splitAux_no_break (b : Bool) (s : List Char) (h : ∀ c ∈ s, isBreak c = false) : splitAux b s = [s] := by
  induction s generalizing b with
  | nil => simp [splitAux]
  | cons x xs ih =>
    have hx : isBreak x = false := h x (by simp)
    have hxs : ∀ c ∈ xs, isBreak c = false := fun c hc => h c (by simp [hc])
    simp [isBreak] at hx
    simp [splitAux, hx, ih _ hxs, consHead]

end VueJsx.Text

namespace VueJsx.Text

def notWs (c : Char) : Bool := !isJsxWs c

theorem map_tab_no_break (s : List Char) (h : ∀ c ∈ s, isBreak c = false) :
    ∀ c ∈ s.map tabToSpace, isBreak c = false := by
  intro c hc
  simp at hc
  obtain ⟨a, ha, rfl⟩ := hc
  have := h a ha
  unfold tabToSpace
  split
  · simp [isBreak]
  · exact this

theorem cleanText_no_break (s : List Char) (h : ∀ c ∈ s, isBreak c = false) :
    cleanText s = s.map tabToSpace := by
  unfold cleanText splitLines
  rw [splitAux_no_break _ _ (map_tab_no_break s h)]
  cases hs : s.map tabToSpace with
  | nil => simp [trimLines, trimLine, joinSp]
  | cons x xs => simp [trimLines, trimLine, joinSp]

/-! ### non-whitespace characters are preserved, in order -/

theorem filter_dropLeading_space (l : List Char) : (dropLeading ' ' l).filter notWs = l.filter notWs := by
  induction l with
  | nil => simp [dropLeading]
  | cons x xs ih =>
    simp only [dropLeading]
    split
    · rename_i hx
      have : x = ' ' := by simpa using hx
      subst this
      simp [ih, notWs, isJsxWs]
    · rfl

theorem filter_dropTrailing_space (l : List Char) : (dropTrailing ' ' l).filter notWs = l.filter notWs := by
  unfold dropTrailing
  rw [List.filter_reverse, filter_dropLeading_space, ← List.filter_reverse, List.reverse_reverse]

theorem filter_trimLine (a b : Bool) (l : List Char) : (trimLine a b l).filter notWs = l.filter notWs := by
  unfold trimLine
  cases a <;> cases b <;> simp [filter_dropLeading_space, filter_dropTrailing_space]

theorem filter_joinSp (ls : List (List Char)) : (joinSp ls).filter notWs = (ls.map (List.filter notWs)).flatten := by
  induction ls with
  | nil => simp [joinSp]
  | cons l rest ih =>
    cases rest with
    | nil => simp [joinSp]
    | cons l2 rest2 =>
      simp only [joinSp, List.filter_append, List.map_cons, List.flatten_cons]
      rw [List.filter_cons]
      simp only [notWs, isJsxWs]
      simp
      simpa [joinSp, notWs, isJsxWs] using ih

theorem flatten_filter_nonempty (ls : List (List Char)) :
    ((ls.filter (fun l => !l.isEmpty)).map (List.filter notWs)).flatten = (ls.map (List.filter notWs)).flatten := by
  induction ls with
  | nil => simp
  | cons l rest ih =>
    cases l with
    | nil => simpa using ih
    | cons x xs => simp [List.filter_cons, ih]

theorem flatten_trimLines (b : Bool) (ls : List (List Char)) :
    ((trimLines b ls).map (List.filter notWs)).flatten = (ls.map (List.filter notWs)).flatten := by
  induction ls generalizing b with
  | nil => simp [trimLines]
  | cons l rest ih =>
    cases rest with
    | nil => simp [trimLines, filter_trimLine]
    | cons l2 rest2 =>
      simp only [trimLines, List.map_cons, List.flatten_cons, filter_trimLine]
      have := ih false
      simp only [List.map_cons, List.flatten_cons] at this
      rw [this]

theorem flatten_consHead (x : Char) (ls : List (List Char)) :
    ((consHead x ls).map (List.filter notWs)).flatten = (if notWs x then [x] else []) ++ (ls.map (List.filter notWs)).flatten := by
  cases ls with
  | nil => simp [consHead, List.filter_cons]
  | cons l rest => simp [consHead, List.filter_cons]; split <;> simp

theorem flatten_splitAux (b : Bool) (s : List Char) :
    ((splitAux b s).map (List.filter notWs)).flatten = s.filter notWs := by
  induction s generalizing b with
  | nil => simp [splitAux]
  | cons x xs ih =>
    simp only [splitAux]
    split
    · rename_i hx
      have : x = '\n' := by simpa using hx
      subst this
      split <;> simp [ih, notWs, isJsxWs]
    · split
      · rename_i _ hx
        have : x = '\r' := by simpa using hx
        subst this
        simp [ih, notWs, isJsxWs]
      · rw [flatten_consHead, ih, List.filter_cons]
        split <;> simp

theorem filter_map_tab (s : List Char) : (s.map tabToSpace).filter notWs = s.filter notWs := by
  induction s with
  | nil => simp
  | cons x xs ih =>
    simp only [List.map_cons, List.filter_cons, ih]
    unfold tabToSpace
    split
    · rename_i hx
      have : x = '\t' := by simpa using hx
      subst this
      simp [notWs, isJsxWs]
    · rfl

/-- every character that is not a space, tab, LF or CR survives cleaning, in order, and nothing else is added -/
theorem cleanText_preserves_nonws (s : List Char) : (cleanText s).filter notWs = s.filter notWs := by
  unfold cleanText splitLines
  rw [filter_joinSp, flatten_filter_nonempty, flatten_trimLines, flatten_splitAux, filter_map_tab]

end VueJsx.Text

namespace VueJsx.Text

theorem mem_consHead {x : Char} {ls : List (List Char)} {l : List Char} {c : Char}
    (hl : l ∈ consHead x ls) (hc : c ∈ l) : c = x ∨ ∃ l' ∈ ls, c ∈ l' := by
  cases ls with
  | nil => simp [consHead] at hl; subst hl; simp at hc; exact Or.inl hc
  | cons l0 rest =>
    simp [consHead] at hl
    rcases hl with rfl | hl
    · simp at hc
      rcases hc with rfl | hc
      · exact Or.inl rfl
      · exact Or.inr ⟨l0, by simp, hc⟩
    · exact Or.inr ⟨l, by simp [hl], hc⟩

theorem mem_splitAux (b : Bool) (s : List Char) :
    ∀ l ∈ splitAux b s, ∀ c ∈ l, c ∈ s ∧ isBreak c = false := by
  induction s generalizing b with
  | nil => simp [splitAux]
  | cons x xs ih =>
    intro l hl c hc
    simp only [splitAux] at hl
    split at hl
    · split at hl
      · have := ih _ l hl c hc; exact ⟨by simp [this.1], this.2⟩
      · simp at hl
        rcases hl with rfl | hl
        · simp at hc
        · have := ih _ l hl c hc; exact ⟨by simp [this.1], this.2⟩
    · split at hl
      · simp at hl
        rcases hl with rfl | hl
        · simp at hc
        · have := ih _ l hl c hc; exact ⟨by simp [this.1], this.2⟩
      · rename_i h1 h2
        rcases mem_consHead hl hc with rfl | ⟨l', hl', hc'⟩
        · refine ⟨by simp, ?_⟩
          simp [isBreak]
          exact ⟨by simpa using h1, by simpa using h2⟩
        · have := ih _ l' hl' c hc'; exact ⟨by simp [this.1], this.2⟩

theorem mem_dropLeading {c x : Char} {l : List Char} (h : c ∈ dropLeading x l) : c ∈ l := by
  induction l with
  | nil => simp [dropLeading] at h
  | cons y ys ih =>
    simp only [dropLeading] at h
    split at h
    · simp [ih h]
    · exact h

theorem mem_dropTrailing {c x : Char} {l : List Char} (h : c ∈ dropTrailing x l) : c ∈ l := by
  unfold dropTrailing at h
  simp at h
  simpa using mem_dropLeading h

theorem mem_trimLine {a b : Bool} {c : Char} {l : List Char} (h : c ∈ trimLine a b l) : c ∈ l := by
  unfold trimLine at h
  cases a <;> cases b <;> simp at h
  · exact mem_dropLeading (mem_dropTrailing h)
  · exact mem_dropLeading h
  · exact mem_dropTrailing h
  · exact h

theorem mem_trimLines {b : Bool} {ls : List (List Char)} {l : List Char} (h : l ∈ trimLines b ls) :
    ∃ l0 ∈ ls, ∀ c ∈ l, c ∈ l0 := by
  induction ls generalizing b with
  | nil => simp [trimLines] at h
  | cons l1 rest ih =>
    cases rest with
    | nil =>
      simp [trimLines] at h
      subst h
      exact ⟨l1, by simp, fun c hc => mem_trimLine hc⟩
    | cons l2 rest2 =>
      simp only [trimLines, List.mem_cons] at h
      rcases h with rfl | h
      · exact ⟨l1, by simp, fun c hc => mem_trimLine hc⟩
      · have h' : l ∈ trimLines false (l2 :: rest2) := by
          cases rest2 <;> simpa [trimLines] using h
        obtain ⟨l0, hl0, hsub⟩ := ih h'
        exact ⟨l0, by simp [hl0], hsub⟩

theorem mem_joinSp {c : Char} {ls : List (List Char)} (h : c ∈ joinSp ls) : c = ' ' ∨ ∃ l ∈ ls, c ∈ l := by
  induction ls with
  | nil => simp [joinSp] at h
  | cons l rest ih =>
    cases rest with
    | nil => simp [joinSp] at h; exact Or.inr ⟨l, by simp, h⟩
    | cons l2 rest2 =>
      simp only [joinSp, List.mem_append, List.mem_cons] at h
      rcases h with h | rfl | h
      · exact Or.inr ⟨l, by simp, h⟩
      · exact Or.inl rfl
      · rcases ih h with rfl | ⟨l', hl', hc⟩
        · exact Or.inl rfl
        · exact Or.inr ⟨l', by simp [hl'], hc⟩

/-- cleaned text contains no line break and no tab -/
theorem cleanText_no_break_out (s : List Char) : ∀ c ∈ cleanText s, isBreak c = false ∧ c ≠ '\t' := by
  intro c hc
  unfold cleanText at hc
  rcases mem_joinSp hc with rfl | ⟨l, hl, hcl⟩
  · simp [isBreak]
  · simp only [List.mem_filter] at hl
    obtain ⟨l0, hl0, hsub⟩ := mem_trimLines hl.1
    have := mem_splitAux false _ l0 hl0 c (hsub c hcl)
    refine ⟨this.2, ?_⟩
    have hm := this.1
    simp at hm
    obtain ⟨a, _, rfl⟩ := hm
    unfold tabToSpace
    split <;> simp_all

end VueJsx.Text
