/-
  HintDecisions: every test the lowering makes on (already lowered) sub-expressions gives the same answer on
  `HintRel`-related inputs — none of them looks inside a synthetic call — and every sub-expression it extracts from
  related inputs is related again.
-/
import VueJsx.Lemmas.HintRel

namespace VueJsx
open Text

/-- related optional lists -/
def OptRelL : Option (List Node) → Option (List Node) → Prop
  | none, none => True
  | some x, some y => HintRelL x y
  | _, _ => False

/-! ### tests that read kind and atoms only -/

theorem HintRel.identName {a b : Node} (h : HintRel a b) : identName a = identName b := by
  cases h with
  | vnode => simp [VueJsx.identName]
  | node k as hl => cases k <;> cases as <;> simp [VueJsx.identName]

theorem HintRel.identBind {a b : Node} (h : HintRel a b) : identBind a = identBind b := by
  cases h with
  | vnode => simp [VueJsx.identBind]
  | node k as hl =>
    cases k <;> try (simp [VueJsx.identBind]; done)
    rcases as with _ | ⟨x, _ | ⟨y, r⟩⟩ <;> simp [VueJsx.identBind]

theorem HintRel.isIdent {a b : Node} (h : HintRel a b) : isIdent a = isIdent b := by
  cases h with
  | vnode => simp [VueJsx.isIdent]
  | node k as hl => cases k <;> simp [VueJsx.isIdent]

theorem HintRel.isNone {a b : Node} (h : HintRel a b) : isNone a = isNone b := by
  cases h with
  | vnode => simp [VueJsx.isNone]
  | node k as hl => cases k <;> simp [VueJsx.isNone]

theorem HintRel.isUnresolvedIdent {a b : Node} (h : HintRel a b) : isUnresolvedIdent a = isUnresolvedIdent b := by
  simp [VueJsx.isUnresolvedIdent, h.identBind]

/-- an identifier-kinded node is related only to a node with the same atoms (its children may differ) -/
theorem HintRel.ident_inv {as : List String} {ks : List Node} {b : Node} (h : HintRel (.mk .ident as ks) b) :
    ∃ ks', b = .mk .ident as ks' ∧ HintRelL ks ks' := by
  cases h with
  | node k as hl => exact ⟨_, rfl, hl⟩

/-! ### names -/

theorem attrNameOf_rel {a b : Node} (h : HintRel a b) : attrNameOf a = attrNameOf b := by
  cases h with
  | vnode => simp [attrNameOf]
  | node k as hl =>
    cases k <;> try (simp [attrNameOf]; done)
    · cases as <;> simp [attrNameOf]
    · rcases hl with _ | ⟨h1, _ | ⟨h2, _ | ⟨h3, hl⟩⟩⟩
      · simp [attrNameOf]
      · simp [attrNameOf]
      · simp [attrNameOf, h1.identName, h2.identName]
      · simp [attrNameOf]

theorem tagLocalName_rel {a b : Node} (h : HintRel a b) : tagLocalName a = tagLocalName b := by
  cases h with
  | vnode => simp [tagLocalName]
  | node k as hl =>
    cases k <;> try (simp [tagLocalName]; done)
    · cases as <;> simp [tagLocalName]
    · rcases hl with _ | ⟨h1, _ | ⟨h2, _ | ⟨h3, hl⟩⟩⟩
      · simp [tagLocalName]
      · simp [tagLocalName]
      · simp [tagLocalName, h2.identName]
      · simp [tagLocalName]
    · rcases hl with _ | ⟨h1, _ | ⟨h2, _ | ⟨h3, hl⟩⟩⟩
      · simp [tagLocalName]
      · simp [tagLocalName]
      · simp [tagLocalName, h2.identName]
      · simp [tagLocalName]

theorem isComponent_rel (env : Env) {a b : Node} (h : HintRel a b) : isComponent env a = isComponent env b := by
  have ht := tagLocalName_rel h
  cases h with
  | vnode => simp [isComponent, tagLocalName]
  | node k as hl =>
    unfold isComponent
    rw [ht]
    cases k <;> try rfl
    -- jsxNsName: the qualified name is read from the two identifier children
    rcases hl with _ | ⟨h1, _ | ⟨h2, _ | ⟨h3, hl⟩⟩⟩
    · rfl
    · rfl
    · simp only [h1.identName, h2.identName]
    · rfl

/-! ### extraction -/

theorem containerExpr_rel {a b : Node} (h : HintRel a b) : OptRel (containerExpr a) (containerExpr b) := by
  cases h with
  | vnode => simp [containerExpr, OptRel]
  | node k as hl =>
    cases k <;> try (simp [containerExpr, OptRel]; done)
    rcases hl with _ | ⟨h1, _ | ⟨h2, hl⟩⟩ <;> try (simp [containerExpr, OptRel]; done)
    cases h1 with
    | vnode => simpa [containerExpr, OptRel] using HintRel.vnode _ _ _ _ _ ‹_› ‹_› ‹_› ‹_›
    | node k2 as2 hl2 =>
      cases k2 <;> simp [containerExpr, OptRel] <;> exact HintRel.node _ _ hl2

theorem arrayElems_rel {a b : Node} (h : HintRel a b) : OptRelL (arrayElems a) (arrayElems b) := by
  cases h with
  | vnode => simp [arrayElems, OptRelL]
  | node k as hl =>
    cases k <;> try (simp [arrayElems, OptRelL]; done)
    rcases hl with _ | ⟨h1, _ | ⟨h2, hl⟩⟩ <;> try (simp [arrayElems, OptRelL]; done)
    cases h1 with
    | vnode => simp [arrayElems, OptRelL]
    | node k2 as2 hl2 =>
      cases k2 <;> simp [arrayElems, OptRelL] <;> exact hl2

theorem plainElem_rel {a b : List Node} (h : HintRelL a b) (i : Nat) : OptRel (plainElem a i) (plainElem b i) := by
  unfold plainElem
  rcases h.getElem? i with ⟨h1, h2⟩ | ⟨x, y, h1, h2, hxy⟩
  · simp [h1, h2, OptRel]
  · rw [h1, h2]
    cases hxy with
    | vnode => simp [OptRel]
    | node k as hl =>
      cases k <;> try (simp [OptRel]; done)
      rcases hl with _ | ⟨h1, _ | ⟨h2, hl⟩⟩ <;> simp [OptRel]
      assumption

/-- the string of a plain string-literal array element -/
def strArgOf : Node → Option String
  | .mk .arg _ [.mk .str (s :: _) _] => some s
  | _ => none

theorem parseModifiers_eq (elems : List Node) : parseModifiers elems = setOfList (elems.filterMap strArgOf) := rfl

theorem strArgOf_rel {x y : Node} (h : HintRel x y) : strArgOf x = strArgOf y := by
  cases h with
  | vnode => simp [strArgOf]
  | node k as hl =>
    cases k <;> try (simp [strArgOf]; done)
    rcases hl with _ | ⟨h1, _ | ⟨h2, hl⟩⟩ <;> try (simp [strArgOf]; done)
    cases h1 with
    | vnode => simp [strArgOf]
    | node k2 as2 hl2 =>
      cases k2 <;> try (simp [strArgOf]; done)
      cases as2 <;> simp [strArgOf]

theorem filterMap_strArg_rel {a b : List Node} (h : HintRelL a b) : a.filterMap strArgOf = b.filterMap strArgOf := by
  induction a generalizing b with
  | nil => cases h; rfl
  | cons x xs ih =>
    cases h with
    | cons hx hxs =>
      simp only [List.filterMap_cons]
      rw [strArgOf_rel hx, ih hxs]

theorem parseModifiers_rel {a b : List Node} (h : HintRelL a b) : parseModifiers a = parseModifiers b := by
  rw [parseModifiers_eq, parseModifiers_eq, filterMap_strArg_rel h]

/-! ### constant analysis (`is_constant`): never looks inside a call -/

theorem isConstant_array_two (as : List String) (x y : Node) (r : List Node) : isConstant (.mk .array as (x :: y :: r)) = false := by
  rw [isConstant] <;> simp
theorem isConstant_object_two (as : List String) (x y : Node) (r : List Node) : isConstant (.mk .object as (x :: y :: r)) = false := by
  rw [isConstant] <;> simp

/-- the test `allConstProps` makes on a property key -/
def constKey (k : Node) : Bool := match k with | .mk .computed _ [e] => isConstant e | _ => true

theorem allConstProps_kv (as : List String) (k v : Node) (rest : List Node) :
    allConstProps (.mk .kv as [k, v] :: rest) = (constKey k && isConstant v && allConstProps rest) := by
  unfold constKey
  split
  · rw [allConstProps]
  · rw [allConstProps]
    intro atoms e he
    rename_i hne
    exact hne atoms e he

theorem isConstant_rel_aux (n : Nat) :
    (∀ a b, sizeOf a ≤ n → HintRel a b → isConstant a = isConstant b) ∧
    (∀ a b, sizeOf a ≤ n → HintRelL a b → allConstElems a = allConstElems b) ∧
    (∀ a b, sizeOf a ≤ n → HintRelL a b → allConstProps a = allConstProps b) := by
  induction n with
  | zero =>
    refine ⟨?_, ?_, ?_⟩
    · intro a b hs; cases a; simp at hs
    · intro a b hs; cases a <;> simp at hs
    · intro a b hs; cases a <;> simp at hs
  | succ n ih =>
    obtain ⟨ih1, ih2, ih3⟩ := ih
    refine ⟨?_, ?_, ?_⟩
    · intro a b hs h
      cases h with
      | vnode => simp [isConstant]
      | node k as hl =>
        cases k <;> try (simp [isConstant]; done)
        · rcases as with _ | ⟨a1, _ | ⟨a2, ar⟩⟩ <;> simp [isConstant]
        · rcases hl with _ | ⟨h1, _ | ⟨h2, hl⟩⟩
          · simp [isConstant]
          rotate_left
          · rw [isConstant_array_two, isConstant_array_two]
          cases h1 with
          | vnode => simp [isConstant]
          | node k2 as2 hl2 =>
            cases k2 <;> try (simp [isConstant]; done)
            rw [isConstant, isConstant]
            exact ih2 _ _ (by simp at hs ⊢; omega) hl2
        · rcases hl with _ | ⟨h1, _ | ⟨h2, hl⟩⟩
          · simp [isConstant]
          rotate_left
          · rw [isConstant_object_two, isConstant_object_two]
          cases h1 with
          | vnode => simp [isConstant]
          | node k2 as2 hl2 =>
            cases k2 <;> try (simp [isConstant]; done)
            rw [isConstant, isConstant]
            exact ih3 _ _ (by simp at hs ⊢; omega) hl2
    · intro a b hs h
      cases h with
      | nil => rfl
      | cons hx hxs =>
        have ihx := ih2 _ _ (by simp at hs ⊢; omega) hxs
        cases hx with
        | vnode => simp [allConstElems]
        | node k as hl =>
          cases k <;> try (simp [allConstElems]; done)
          rcases hl with _ | ⟨h1, _ | ⟨h2, hl⟩⟩ <;> try (simp [allConstElems]; done)
          rw [allConstElems, allConstElems, ihx, ih1 _ _ (by simp at hs ⊢; omega) h1]
    · intro a b hs h
      cases h with
      | nil => rfl
      | cons hx hxs =>
        have ihx := ih3 _ _ (by simp at hs ⊢; omega) hxs
        cases hx with
        | vnode => simp [allConstProps]
        | node k as hl =>
          cases k <;> try (simp [allConstProps]; done)
          · rcases as with _ | ⟨a1, _ | ⟨a2, ar⟩⟩ <;> simp [allConstProps, ihx]
          · rcases hl with _ | ⟨h1, _ | ⟨h2, _ | ⟨h3, hl⟩⟩⟩ <;> try (simp [allConstProps]; done)
            rw [allConstProps_kv, allConstProps_kv, ihx, ih1 _ _ (by simp at hs ⊢; omega) h2]
            congr 2
            cases h1 with
            | vnode => simp [constKey]
            | node k3 as3 hl3 =>
              cases k3 <;> try (simp [constKey]; done)
              rcases hl3 with _ | ⟨g1, _ | ⟨g2, hl⟩⟩ <;> try (simp [constKey]; done)
              simp only [constKey]
              exact ih1 _ _ (by simp at hs ⊢; omega) g1

theorem isConstant_rel {a b : Node} (h : HintRel a b) : isConstant a = isConstant b :=
  (isConstant_rel_aux (sizeOf a)).1 a b (Nat.le_refl _) h

theorem isAttrValueConstant_rel {a b : Node} (h : HintRel a b) : isAttrValueConstant a = isAttrValueConstant b := by
  cases h with
  | vnode => simp [isAttrValueConstant]
  | node k as hl =>
    cases k <;> try (simp [isAttrValueConstant]; done)
    rcases hl with _ | ⟨h1, _ | ⟨h2, hl⟩⟩ <;> try (simp [isAttrValueConstant]; done)
    have hc := isConstant_rel h1
    cases h1 with
    | vnode => simp [isAttrValueConstant, isConstant]
    | node k2 as2 hl2 =>
      cases k2 <;> simp [isAttrValueConstant] <;> exact hc

end VueJsx
