/-
  HintSim: simulation lemmas for C12.  Running a lowering function on `HintRel`-related inputs in related states
  (everything equal except the slot-flag stack; pending captured-copy declarations related) gives related results.
  Directive parsing first.
-/
import VueJsx.Lemmas.HintDecisions

namespace VueJsx
open Text

/-- every field of the visitor state except the slot-flag stack and the pending `const` declarations -/
def St.core (s : St) :=
  (s.imports, s.transformOnHelper, s.defineComponent, s.interfaces, s.typeAliases, s.pragma, s.slotHelper, s.injectingVars,
   s.slotCounter, s.assignmentLeft, s.diags, s.gen, s.panicked)

/-- two visitor states that differ at most in the slot-flag stack (only `optimize` touches it) and whose pending
    `const` declarations are related -/
def StSim (s1 s2 : St) : Prop := s1.core = s2.core ∧ HintRelL s1.injectingConsts s2.injectingConsts

theorem StSim.refl (s : St) : StSim s s := ⟨rfl, HintRelL.refl _⟩

theorem StSim.err {s1 s2 : St} (h : StSim s1 s2) (m : String) : StSim (s1.err m) (s2.err m) := by
  obtain ⟨hc, hl⟩ := h
  cases s1; cases s2
  simp only [St.core, St.err, Prod.mk.injEq] at *
  simp_all [StSim, St.core]

theorem StSim.panic {s1 s2 : St} (h : StSim s1 s2) (m : String) : StSim (s1.panic m) (s2.panic m) := by
  obtain ⟨hc, hl⟩ := h
  cases s1; cases s2
  simp only [St.core, Prod.mk.injEq] at *
  obtain ⟨h1, h2, h3, h4, h5, h6, h7, h8, h9, h10, h11, h12, h13⟩ := hc
  subst h1 h2 h3 h4 h5 h6 h7 h8 h9 h10 h11 h12 h13
  unfold St.panic
  simp only
  split <;> exact ⟨rfl, hl⟩

theorem OptRel.elim {o1 o2 : Option Node} (h : OptRel o1 o2) :
    (o1 = none ∧ o2 = none) ∨ ∃ x y, o1 = some x ∧ o2 = some y ∧ HintRel x y := by
  cases o1 <;> cases o2 <;> simp_all [OptRel]

theorem OptRelL.elim {o1 o2 : Option (List Node)} (h : OptRelL o1 o2) :
    (o1 = none ∧ o2 = none) ∨ ∃ x y, o1 = some x ∧ o2 = some y ∧ HintRelL x y := by
  cases o1 <;> cases o2 <;> simp_all [OptRelL]

theorem OptRel.isNone {o1 o2 : Option Node} (h : OptRel o1 o2) : o1.isNone = o2.isNone := by
  cases o1 <;> cases o2 <;> simp_all [OptRel]

theorem OptRel.isSome {o1 o2 : Option Node} (h : OptRel o1 o2) : o1.isSome = o2.isSome := by
  cases o1 <;> cases o2 <;> simp_all [OptRel]

theorem OptRel.some {x y : Node} (h : HintRel x y) : OptRel (some x) (some y) := h
theorem OptRel.none : OptRel none none := trivial

/-! ### a few related constants / builders -/

theorem rel_nStr (s : String) : HintRel (nStr s) (nStr s) := HintRel.refl _
theorem rel_nVoid0 : HintRel nVoid0 nVoid0 := HintRel.refl _
theorem rel_nNull : HintRel nNull nNull := HintRel.refl _

/-! ### `v-html` / `v-text` -/

/-- the part of `vHtmlOrText` after the string-literal case -/
def vHtmlCore (what : String) (c : Option Node) (_v : Node) (st : St) : Node × St :=
  match c with
  | some e =>
    match arrayElems e with
    | some elems =>
      match plainElem elems 0 with
      | some first => (first, st)
      | none => (e, st)
    | none => (e, st)
  | none => (nBool true, st.err ("Error: You have to use JSX Expression inside your `v-" ++ what ++ "`."))

theorem vHtmlOrText_eq (w : String) (v : Node) (st : St) :
    vHtmlOrText w v st = if v.kind = .str then (v, st) else vHtmlCore w (containerExpr v) v st := by
  cases v with
  | mk k as ks => cases k <;> simp [vHtmlOrText, vHtmlCore, Node.kind] <;> rfl

theorem vHtmlOrText_rel (w : String) {v1 v2 : Node} (hv : HintRel v1 v2) {s1 s2 : St} (hs : StSim s1 s2) :
    HintRel (vHtmlOrText w v1 s1).1 (vHtmlOrText w v2 s2).1 ∧ StSim (vHtmlOrText w v1 s1).2 (vHtmlOrText w v2 s2).2 := by
  rw [vHtmlOrText_eq, vHtmlOrText_eq, hv.kind]
  split
  · exact ⟨hv, hs⟩
  · unfold vHtmlCore
    rcases (containerExpr_rel hv).elim with ⟨h1, h2⟩ | ⟨e1, e2, h1, h2, he⟩
    · rw [h1, h2]; exact ⟨HintRel.refl _, hs.err _⟩
    · rw [h1, h2]
      rcases (arrayElems_rel he).elim with ⟨g1, g2⟩ | ⟨l1, l2, g1, g2, hl⟩
      · simp only [g1, g2]; exact ⟨he, hs⟩
      · simp only [g1, g2]
        rcases (plainElem_rel hl 0).elim with ⟨p1, p2⟩ | ⟨x1, x2, p1, p2, hx⟩
        · simp only [p1, p2]; exact ⟨he, hs⟩
        · simp only [p1, p2]; exact ⟨hx, hs⟩

/-! ### parsed directives -/

def DirRel : Dir → Dir → Prop
  | .normal n1 a1 m1 v1, .normal n2 a2 m2 v2 => n1 = n2 ∧ OptRel a1 a2 ∧ m1 = m2 ∧ HintRel v1 v2
  | .text e1, .text e2 => HintRel e1 e2
  | .html e1, .html e2 => HintRel e1 e2
  | .vmodel a1 t1 m1 v1, .vmodel a2 t2 m2 v2 => OptRel a1 a2 ∧ OptRel t1 t2 ∧ m1 = m2 ∧ HintRel v1 v2
  | .slots e1, .slots e2 => OptRel e1 e2
  | _, _ => False

theorem parseVSlots_rel {v1 v2 : Node} (hv : HintRel v1 v2) : DirRel (parseVSlots v1) (parseVSlots v2) := by
  unfold parseVSlots
  rcases (containerExpr_rel hv).elim with ⟨h1, h2⟩ | ⟨e1, e2, h1, h2, he⟩
  · rw [h1, h2]; simp [DirRel, OptRel]
  · rw [h1, h2]; simpa [DirRel, OptRel] using he

theorem nullArg_rel (c : Bool) {a1 a2 : Option Node} (h : OptRel a1 a2) :
    OptRel (if c && a1.isNone then some nNull else a1) (if c && a2.isNone then some nNull else a2) := by
  rw [h.isNone]
  split
  · exact HintRel.refl _
  · exact h

/-- `parseVModel` after the attribute value was extracted: value / argument / modifiers of the (array or plain) form -/
def vmodelTuple (isComponent : Bool) (attrValue : Node) (argument : Option Node) (rest : List String) (st : St) :
    St × Node × Option Node × Option (List String) :=
  let nullArg (a : Option Node) : Option Node := if isComponent && a.isNone then some nNull else a
  match arrayElems attrValue with
  | some elems =>
    let (v, st) : Node × St :=
      match plainElem elems 0 with
      | some v => (v, st)
      | none => (nEmptyIdent, st.err "Error: The first element of the `v-model` array must be the bound expression.")
    match plainElem elems 1 with
    | some second =>
      match arrayElems second with
      | some mods => (st, v, nullArg argument, some (parseModifiers mods))
      | none =>
        let argument := if argument.isNone then some second else argument
        match (plainElem elems 2).bind arrayElems with
        | some mods => (st, v, argument, some (parseModifiers mods))
        | none => (st, v, argument, some (setOfList rest))
    | none => (st, v, nullArg argument, some (setOfList rest))
  | none => (st, attrValue, argument, some (setOfList rest))

def vmodelFinish (isComponent : Bool) (t : St × Node × Option Node × Option (List String)) : Dir × St :=
  let (st, value, argument, modifiers) := t
  let (value, st) : Node × St :=
    if isAssignmentTarget value then (value, st)
    else (nEmptyIdent, st.err "Error: The value of `v-model` must be an assignable expression (an identifier or a member expression).")
  let nonEmpty := match modifiers with | some m => !m.isEmpty | none => false
  let transformed :=
    if !isComponent && nonEmpty then (match argument with | some a => some a | none => some nVoid0)
    else argument
  (.vmodel argument transformed (modifiers.bind (transformModifiers · isComponent)) value, st)

theorem parseVModel_eq (value : Node) (c : Bool) (argument : Option Node) (rest : List String) (st : St) :
    parseVModel value c argument rest st =
      vmodelFinish c (match containerExpr value with
        | some e => vmodelTuple c e argument rest st
        | none => vmodelTuple c nEmptyIdent argument rest (st.err "Error: You have to use JSX Expression inside your `v-model`.")) := by
  unfold parseVModel vmodelFinish vmodelTuple
  cases containerExpr value <;> rfl

/-- componentwise relation of the tuples -/
def TupRel (t1 t2 : St × Node × Option Node × Option (List String)) : Prop :=
  StSim t1.1 t2.1 ∧ HintRel t1.2.1 t2.2.1 ∧ OptRel t1.2.2.1 t2.2.2.1 ∧ t1.2.2.2 = t2.2.2.2

theorem vmodelTuple_rel (c : Bool) {e1 e2 : Node} (he : HintRel e1 e2) {a1 a2 : Option Node} (ha : OptRel a1 a2) (r : List String)
    {s1 s2 : St} (hs : StSim s1 s2) : TupRel (vmodelTuple c e1 a1 r s1) (vmodelTuple c e2 a2 r s2) := by
  unfold vmodelTuple
  rcases (arrayElems_rel he).elim with ⟨g1, g2⟩ | ⟨l1, l2, g1, g2, hl⟩
  · simp only [g1, g2]; exact ⟨hs, he, ha, rfl⟩
  · simp only [g1, g2]
    -- the first element and the state after it
    have hfirst : ∃ v1 v2 t1 t2,
        (match plainElem l1 0 with
          | some v => (v, s1)
          | none => (nEmptyIdent, s1.err "Error: The first element of the `v-model` array must be the bound expression.")) = (v1, t1) ∧
        (match plainElem l2 0 with
          | some v => (v, s2)
          | none => (nEmptyIdent, s2.err "Error: The first element of the `v-model` array must be the bound expression.")) = (v2, t2) ∧
        HintRel v1 v2 ∧ StSim t1 t2 := by
      rcases (plainElem_rel hl 0).elim with ⟨p1, p2⟩ | ⟨x1, x2, p1, p2, hx⟩
      · exact ⟨_, _, _, _, by rw [p1], by rw [p2], HintRel.refl _, hs.err _⟩
      · exact ⟨_, _, _, _, by rw [p1], by rw [p2], hx, hs⟩
    obtain ⟨v1, v2, t1, t2, e1', e2', hv, ht⟩ := hfirst
    simp only [e1', e2']
    rcases (plainElem_rel hl 1).elim with ⟨q1, q2⟩ | ⟨y1, y2, q1, q2, hy⟩
    · simp only [q1, q2]; exact ⟨ht, hv, nullArg_rel c ha, rfl⟩
    · simp only [q1, q2]
      rcases (arrayElems_rel hy).elim with ⟨m1, m2⟩ | ⟨ms1, ms2, m1, m2, hm⟩
      · simp only [m1, m2]
        have harg : OptRel (if a1.isNone then some y1 else a1) (if a2.isNone then some y2 else a2) := by
          rw [ha.isNone]; split
          · exact hy
          · exact ha
        have h2 : ((plainElem l1 2).bind arrayElems = none ∧ (plainElem l2 2).bind arrayElems = none) ∨
            ∃ n1 n2, (plainElem l1 2).bind arrayElems = some n1 ∧ (plainElem l2 2).bind arrayElems = some n2 ∧ HintRelL n1 n2 := by
          rcases (plainElem_rel hl 2).elim with ⟨r1, r2⟩ | ⟨z1, z2, r1, r2, hz⟩
          · left; simp [r1, r2]
          · simp only [r1, r2, Option.bind_some]
            exact (arrayElems_rel hz).elim
        rcases h2 with ⟨n1, n2⟩ | ⟨n1, n2, k1, k2, hn⟩
        · simp only [n1, n2]; exact ⟨ht, hv, harg, rfl⟩
        · simp only [k1, k2]; exact ⟨ht, hv, harg, by rw [parseModifiers_rel hn]⟩
      · simp only [m1, m2]; exact ⟨ht, hv, nullArg_rel c ha, by rw [parseModifiers_rel hm]⟩

theorem transformedArg_rel (b : Bool) (a1 a2 : Option Node) : OptRel a1 a2 →
    OptRel (if b then (match a1 with | some a => some a | none => some nVoid0) else a1)
           (if b then (match a2 with | some a => some a | none => some nVoid0) else a2) := by
  intro ha
  cases b
  · simpa using ha
  · cases a1 <;> cases a2 <;> simp_all [OptRel]
    exact HintRel.refl _

/-- assignability is decided by kinds (and the kinds under parentheses / TypeScript wrappers), which related trees share -/
theorem isAssignmentTarget_rel : ∀ (n : Nat) (a b : Node), sizeOf a ≤ n → HintRel a b → isAssignmentTarget a = isAssignmentTarget b := by
  intro n
  induction n with
  | zero => intro a b hsz _; cases a; simp at hsz
  | succ n ih =>
    intro a b hsz h
    cases h with
    | vnode => simp [isAssignmentTarget]
    | node k as hl =>
      rename_i ks1 ks2
      cases k <;> try (simp [isAssignmentTarget]; done)
      case paren =>
        rcases hl with _ | ⟨h1, _ | ⟨h2, hl⟩⟩
        · simp [isAssignmentTarget]
        · rename_i x y
          simp only [isAssignmentTarget]
          exact ih x y (by simp at hsz; omega) h1
        · simp [isAssignmentTarget]
      case other tag =>
        rcases hl with _ | ⟨h1, _ | ⟨h2, _ | ⟨h3, hl⟩⟩⟩
        · by_cases t1 : tag = "SuperPropExpression" <;> simp [isAssignmentTarget, t1]
        · rename_i x y
          have hx := ih x y (by simp at hsz; omega) h1
          unfold isAssignmentTarget
          split <;> (try simp_all) <;> split <;> simp_all
        · rename_i x y x2 y2
          have hx := ih x y (by simp at hsz; omega) h1
          unfold isAssignmentTarget
          split <;> (try simp_all) <;> split <;> simp_all
        · unfold isAssignmentTarget
          split <;> (try simp_all) <;> split <;> simp_all

theorem vmodelFinish_rel (c : Bool) {t1 t2 : St × Node × Option Node × Option (List String)} (h : TupRel t1 t2) :
    DirRel (vmodelFinish c t1).1 (vmodelFinish c t2).1 ∧ StSim (vmodelFinish c t1).2 (vmodelFinish c t2).2 := by
  obtain ⟨s1, v1, a1, m1⟩ := t1
  obtain ⟨s2, v2, a2, m2⟩ := t2
  obtain ⟨hs, hv, ha, hm⟩ := h
  simp only at hs hv ha hm
  subst hm
  unfold vmodelFinish
  simp only
  rw [isAssignmentTarget_rel _ v1 v2 (Nat.le_refl _) hv]
  by_cases hb : isAssignmentTarget v2 = true
  · simp only [hb, if_true]
    refine ⟨?_, hs⟩
    simp only [DirRel]
    exact ⟨ha, transformedArg_rel _ _ _ ha, trivial, hv⟩
  · simp only [hb, Bool.false_eq_true, if_false]
    refine ⟨?_, hs.err _⟩
    simp only [DirRel]
    exact ⟨ha, transformedArg_rel _ _ _ ha, trivial, HintRel.refl _⟩

theorem parseVModel_rel {v1 v2 : Node} (hv : HintRel v1 v2) (c : Bool) {a1 a2 : Option Node} (ha : OptRel a1 a2) (r : List String)
    {s1 s2 : St} (hs : StSim s1 s2) :
    DirRel (parseVModel v1 c a1 r s1).1 (parseVModel v2 c a2 r s2).1 ∧ StSim (parseVModel v1 c a1 r s1).2 (parseVModel v2 c a2 r s2).2 := by
  rw [parseVModel_eq, parseVModel_eq]
  apply vmodelFinish_rel
  rcases (containerExpr_rel hv).elim with ⟨h1, h2⟩ | ⟨e1, e2, h1, h2, he⟩
  · rw [h1, h2]; exact vmodelTuple_rel c (HintRel.refl _) ha r (hs.err _)
  · rw [h1, h2]; exact vmodelTuple_rel c he ha r hs

/-! ### custom directives -/

/-- value / argument / modifiers of a custom directive (the last branch of `parseDirective`) -/
def normalTuple (value : Node) (argument : Option Node) (rest : List String) : Node × Option Node × Option (List String) :=
  match containerExpr value with
  | some e =>
    match arrayElems e with
    | some elems =>
      let v := (plainElem elems 0).getD nVoid0
      match plainElem elems 1 with
      | some second =>
        match arrayElems second with
        | some mods => (v, argument, some (parseModifiers mods))
        | none =>
          let argument := if argument.isNone then some second else argument
          match (plainElem elems 2).bind arrayElems with
          | some mods => (v, argument, some (parseModifiers mods))
          | none => (v, argument, some (setOfList rest))
      | none => (v, argument, some (setOfList rest))
    | none => (e, argument, some (setOfList rest))
  | none => (if value.kind = .str then value else nVoid0, argument, some (setOfList rest))

def normalFinish (dname : String) (t : Node × Option Node × Option (List String)) : Dir :=
  let (v, argument, modifiers) := t
  let nonEmpty := match modifiers with | some m => !m.isEmpty | none => false
  let argument :=
    if nonEmpty then (match argument with | some a => some a | none => some nVoid0) else argument
  .normal dname argument (modifiers.bind (transformModifiers · false)) v

theorem strOrVoid_eq (value : Node) :
    (match value with | .mk .str as ks => Node.mk .str as ks | _ => nVoid0) = (if value.kind = .str then value else nVoid0) := by
  cases value with
  | mk k as ks => cases k <;> simp [Node.kind]

theorem parseDirective_eq (name : AttrName) (value : Node) (c : Bool) (st : St) :
    parseDirective name value c st =
      (if (dirNameParts name).1 == "html" then ((Dir.html (vHtmlOrText "html" value st).1), (vHtmlOrText "html" value st).2)
       else if (dirNameParts name).1 == "text" then ((Dir.text (vHtmlOrText "text" value st).1), (vHtmlOrText "text" value st).2)
       else if (dirNameParts name).1 == "model" then parseVModel value c ((dirNameParts name).2.1.map nStr) (dirNameParts name).2.2 st
       else if (dirNameParts name).1 == "slots" then (parseVSlots value, st)
       else (normalFinish (dirNameParts name).1 (normalTuple value ((dirNameParts name).2.1.map nStr) (dirNameParts name).2.2), st)) := by
  unfold parseDirective normalFinish normalTuple
  obtain ⟨dname, argS, rest⟩ := dirNameParts name
  simp only
  split
  · rfl
  · split
    · rfl
    · split
      · rfl
      · split
        · rfl
        · cases containerExpr value with
          | some e => rfl
          | none =>
            simp only
            rw [← strOrVoid_eq]
            cases value with
            | mk k as ks => cases k <;> rfl

def Tup3Rel (t1 t2 : Node × Option Node × Option (List String)) : Prop :=
  HintRel t1.1 t2.1 ∧ OptRel t1.2.1 t2.2.1 ∧ t1.2.2 = t2.2.2

theorem normalTuple_rel {v1 v2 : Node} (hv : HintRel v1 v2) (a : Option Node) (r : List String) :
    Tup3Rel (normalTuple v1 a r) (normalTuple v2 a r) := by
  unfold normalTuple
  have ha : OptRel a a := OptRel.refl a
  rcases (containerExpr_rel hv).elim with ⟨h1, h2⟩ | ⟨e1, e2, h1, h2, he⟩
  · rw [h1, h2, hv.kind]
    refine ⟨?_, ha, rfl⟩
    simp only
    split
    · exact hv
    · exact HintRel.refl _
  · rw [h1, h2]
    rcases (arrayElems_rel he).elim with ⟨g1, g2⟩ | ⟨l1, l2, g1, g2, hl⟩
    · simp only [g1, g2]; exact ⟨he, ha, rfl⟩
    · simp only [g1, g2]
      have hfirst : HintRel ((plainElem l1 0).getD nVoid0) ((plainElem l2 0).getD nVoid0) := by
        rcases (plainElem_rel hl 0).elim with ⟨p1, p2⟩ | ⟨x1, x2, p1, p2, hx⟩
        · rw [p1, p2]; exact HintRel.refl _
        · rw [p1, p2]; exact hx
      rcases (plainElem_rel hl 1).elim with ⟨q1, q2⟩ | ⟨y1, y2, q1, q2, hy⟩
      · simp only [q1, q2]; exact ⟨hfirst, ha, rfl⟩
      · simp only [q1, q2]
        rcases (arrayElems_rel hy).elim with ⟨m1, m2⟩ | ⟨ms1, ms2, m1, m2, hm⟩
        · simp only [m1, m2]
          have harg : OptRel (if a.isNone then some y1 else a) (if a.isNone then some y2 else a) := by
            split
            · exact hy
            · exact ha
          have h2 : ((plainElem l1 2).bind arrayElems = none ∧ (plainElem l2 2).bind arrayElems = none) ∨
              ∃ n1 n2, (plainElem l1 2).bind arrayElems = some n1 ∧ (plainElem l2 2).bind arrayElems = some n2 ∧ HintRelL n1 n2 := by
            rcases (plainElem_rel hl 2).elim with ⟨r1, r2⟩ | ⟨z1, z2, r1, r2, hz⟩
            · left; simp [r1, r2]
            · simp only [r1, r2, Option.bind_some]
              exact (arrayElems_rel hz).elim
          rcases h2 with ⟨n1, n2⟩ | ⟨n1, n2, k1, k2, hn⟩
          · simp only [n1, n2]; exact ⟨hfirst, harg, rfl⟩
          · simp only [k1, k2]; exact ⟨hfirst, harg, by rw [parseModifiers_rel hn]⟩
        · simp only [m1, m2]; exact ⟨hfirst, ha, by rw [parseModifiers_rel hm]⟩

theorem normalFinish_rel (d : String) {t1 t2 : Node × Option Node × Option (List String)} (h : Tup3Rel t1 t2) :
    DirRel (normalFinish d t1) (normalFinish d t2) := by
  obtain ⟨v1, a1, m1⟩ := t1
  obtain ⟨v2, a2, m2⟩ := t2
  obtain ⟨hv, ha, hm⟩ := h
  simp only at hv ha hm
  subst hm
  unfold normalFinish
  simp only [DirRel]
  exact ⟨trivial, transformedArg_rel _ _ _ ha, trivial, hv⟩

theorem parseDirective_rel (name : AttrName) {v1 v2 : Node} (hv : HintRel v1 v2) (c : Bool) {s1 s2 : St} (hs : StSim s1 s2) :
    DirRel (parseDirective name v1 c s1).1 (parseDirective name v2 c s2).1 ∧
      StSim (parseDirective name v1 c s1).2 (parseDirective name v2 c s2).2 := by
  rw [parseDirective_eq, parseDirective_eq]
  split
  · exact ⟨(vHtmlOrText_rel "html" hv hs).1, (vHtmlOrText_rel "html" hv hs).2⟩
  · split
    · exact ⟨(vHtmlOrText_rel "text" hv hs).1, (vHtmlOrText_rel "text" hv hs).2⟩
    · split
      · exact parseVModel_rel hv c (OptRel.refl _) _ hs
      · split
        · exact ⟨parseVSlots_rel hv, hs⟩
        · exact ⟨normalFinish_rel _ (normalTuple_rel hv _ _), hs⟩

end VueJsx
