/-
  Frame lemmas: the lowering of JSX (Directive / Attrs / Element) never writes the visitor's read-only fields —
  the pragma found in comments, the recorded binding of Vue's `defineComponent`, the type registries.
-/
import VueJsx.Element

namespace VueJsx

/-- the fields the JSX lowering only reads -/
def St.ro (st : St) : Option String × Option String × List ((String × String) × Node) × List ((String × String) × Node) :=
  (st.pragma, st.defineComponent, st.interfaces, st.typeAliases)

@[simp] theorem fresh_ro (st : St) (n : String) : (st.fresh n).2.ro = st.ro := rfl
@[simp] theorem err_ro (st : St) (m : String) : (st.err m).ro = st.ro := rfl
@[simp] theorem panic_ro (st : St) (m : String) : (st.panic m).ro = st.ro := by
  unfold St.panic; split <;> rfl
@[simp] theorem importFromVue_ro (st : St) (item : String) : (st.importFromVue item).2.ro = st.ro := by
  unfold St.importFromVue; split <;> rfl

@[simp] theorem vHtmlOrText_ro (w : String) (v : Node) (st : St) : (vHtmlOrText w v st).2.ro = st.ro := by
  unfold vHtmlOrText
  split
  · rfl
  · split
    · split
      · split <;> rfl
      · rfl
    · rfl

@[simp] theorem parseVModel_ro (v : Node) (c : Bool) (a : Option Node) (r : List String) (st : St) :
    (parseVModel v c a r st).2.ro = st.ro := by
  unfold parseVModel
  simp only
  split <;> (repeat' split) <;> simp_all [St.ro, St.err]


@[simp] theorem parseDirective_ro (n : AttrName) (v : Node) (c : Bool) (st : St) : (parseDirective n v c st).2.ro = st.ro := by
  unfold parseDirective
  simp only
  split
  · simp
  · split
    · simp
    · split
      · simp
      · split <;> rfl

@[simp] theorem attrValueExpr_ro (v : Node) (l : Option Node) (st : St) : (attrValueExpr v l st).2.ro = st.ro := by
  unfold attrValueExpr
  split
  · rfl
  · split <;> simp

theorem plainPart_ro (o : Opts) (c : Bool) (attrName : String) (valueN attrValue : Node) (acc : AttrAcc) (st : St) :
      (let isTransformOn := o.transformOn && (attrName == "on" || attrName == "nativeOn")
       let acc := plainAttrFlags c attrName valueN isTransformOn acc
       if isTransformOn then
         let (helper, st) :=
           (match st.transformOnHelper with
            | some h => (h, st)
            | none => let (h, st) := st.fresh "_transformOn"; (h, { st with transformOnHelper := some h }))
         let acc :=
           if !acc.props.isEmpty then
             { acc with mergeArgs := acc.mergeArgs ++ [nObject (if o.mergeProps then dedupeProps acc.props else acc.props)],
                        props := [] }
           else acc
         (({ acc with mergeArgs := acc.mergeArgs ++ [nCall helper [nArg attrValue]] } : AttrAcc), st)
       else (({ acc with props := acc.props ++ [nKV (nStr attrName) attrValue] } : AttrAcc), st)).2.ro = st.ro := by
  simp only
  by_cases ht : (o.transformOn && (attrName == "on" || attrName == "nativeOn")) = true
  · simp only [ht, if_true]
    cases hh : st.transformOnHelper <;> simp [St.ro, St.fresh]
  · simp only [ht]
    simp

@[simp] theorem attrStep_ro (o : Opts) (c : Bool) (a : Node) (l : Option Node) (acc : AttrAcc) (st : St) :
    (attrStep o c a l acc st).2.ro = st.ro := by
  unfold attrStep
  split
  · simp only
    split
    · split <;> simp
    · exact (plainPart_ro o c _ _ _ acc _).trans (attrValueExpr_ro _ _ _)
  · simp only
    split <;> split <;> rfl
  · simp

@[simp] theorem assembleProps_ro (o : Opts) (p m : List Node) (st : St) : (assembleProps o p m st).2.ro = st.ro := by
  unfold assembleProps
  split
  · simp only
    split <;> simp
  · split
    · split <;> rfl
    · rfl

@[simp] theorem getPragma_ro (o : Opts) (st : St) : (getPragma o st).2.ro = st.ro := by
  unfold getPragma
  split
  · split <;> simp
  · simp

@[simp] theorem memberRootCheck_ro (m : Node) (st : St) : (memberRootCheck m st).ro = st.ro := by
  rcases memberRootCheck_cases m st with h | h <;> rw [h] <;> rfl

@[simp] theorem transformTag_ro (env : Env) (n : Node) (st : St) : (transformTag env n st).2.ro = st.ro := by
  unfold transformTag
  split
  · split
    · rfl
    · split
      · simp
      · split
        · rfl
        · split <;> simp
  · simp
  · rfl
  · rfl

@[simp] theorem genSlotIdent_ro (st : St) : (genSlotIdent st).2.ro = st.ro := rfl

theorem foldl_ro {α : Type} (f : α × St → Node → α × St) (hf : ∀ acc e, (f acc e).2.ro = acc.2.ro) :
    ∀ (elems : List Node) (acc : α × St), (elems.foldl f acc).2.ro = acc.2.ro
  | [], _ => rfl
  | e :: rest, acc => by
    simp only [List.foldl]
    rw [foldl_ro f hf rest, hf]

@[simp] theorem buildIife_ro (elems : List Node) (st : St) : (buildIife elems st).2.ro = st.ro := by
  unfold buildIife
  split
  · rfl
  · rw [foldl_ro]
    · rfl
    · intro acc e
      obtain ⟨out, st'⟩ := acc
      simp only
      split
      · split
        · rfl
        · rfl
      · rfl

@[simp] theorem stackFill_ro (st : St) : (stackFill st).ro = st.ro := rfl

@[simp] theorem ite_snd_ro {α : Type} (c : Prop) [Decidable c] (x y : α × St) (st : St) (hx : x.2.ro = st.ro) (hy : y.2.ro = st.ro) :
    (if c then x else y).2.ro = st.ro := by
  split <;> assumption

@[simp] theorem resolveDirective_ro (n : String) (t : Node) (a : List Node) (st : St) : (resolveDirective n t a st).2.ro = st.ro := by
  unfold resolveDirective
  split
  · simp
  · split
    · simp only
      apply ite_snd_ro _ _ _ _ (by simp)
      apply ite_snd_ro _ _ _ _ (by simp)
      split
      · apply ite_snd_ro _ _ _ _ (by simp)
        apply ite_snd_ro _ _ _ _ (by simp)
        simp
      · simp
      · simp
    · simp

@[simp] theorem dirEntries_ro (t : Node) (a : List Node) : ∀ (ds : List (String × Option Node × Option Node × Node)) (st : St),
    (dirEntries t a ds st).2.ro = st.ro
  | [], st => by simp [dirEntries]
  | (n, arg, m, v) :: rest, st => by
    simp only [dirEntries]
    rw [dirEntries_ro t a rest]; simp

@[simp] theorem popFlag_ro (o : Opts) (st : St) : (popFlag o st).2.ro = st.ro := by
  unfold popFlag
  split
  · split <;> rfl
  · rfl

@[simp] theorem pushFlag_ro (o : Opts) (st : St) : (pushFlag o st).ro = st.ro := by
  unfold pushFlag; split <;> rfl

theorem slotHelper_ro (st : St) :
    (match st.slotHelper with
      | some h => (h, st)
      | none => let (h, st) := st.fresh "_isSlot"; (h, { st with slotHelper := some h })).2.ro = st.ro := by
  cases st.slotHelper <;> rfl

@[simp] theorem finishChildren_ro (o : Opts) (e : List Node) (c : Bool) (s : Option Node) (f : Nat) (st : St) :
    (finishChildren o e c s f st).2.ro = st.ro := by
  unfold finishChildren
  split
  · rfl
  · split
    · -- a sole identifier
      split
      · simp only
        split
        · exact (slotHelper_ro _).trans (buildIife_ro _ _)
        · exact buildIife_ro _ _
      · rfl
    · -- a sole call
      split
      · split
        · simp only
          refine (buildIife_ro _ _).trans ?_
          exact (slotHelper_ro _).trans (genSlotIdent_ro _)
        · rfl
      · split <;> rfl
    · rfl
    · rfl
    · rfl
    · split <;> rfl
  · split <;> rfl


mutual
theorem trElement_ro (o : Opts) (env : Env) : ∀ (n : Node) (st : St), (trElement o env n st).2.ro = st.ro
  | .mk k as ks, st => by
    unfold trElement
    split
    next st' _ _ a0 a1 nameN a2 attrs x a3 children y heq =>
      simp only
      have hs1 : sizeOf attrs < 1 + sizeOf k + sizeOf as + sizeOf ks := by
        have := congrArg sizeOf heq; simp at this; omega
      have hs2 : sizeOf children < 1 + sizeOf k + sizeOf as + sizeOf ks := by
        have := congrArg sizeOf heq; simp at this; omega
      have h1 := transformAttrs_ro o env attrs (isComponent env nameN) (pushFlag o st')
      have h2 : ∀ s, (trChildList o env children s).2.ro = s.ro := fun s => trChildList_ro o env children s
      split
      · simp only [getPragma_ro, finishChildren_ro, popFlag_ro, h2, transformTag_ro, h1, pushFlag_ro]
      · simp only [dirEntries_ro, importFromVue_ro, getPragma_ro, finishChildren_ro, popFlag_ro, h2, transformTag_ro, h1, pushFlag_ro]
    next => simp
termination_by n => 2 * sizeOf n
theorem trFragment_ro (o : Opts) (env : Env) : ∀ (n : Node) (st : St), (trFragment o env n st).2.ro = st.ro
  | .mk k as ks, st => by
    unfold trFragment
    split
    next st' _ _ a0 x a1 children y heq =>
      have hs2 : sizeOf children < 1 + sizeOf k + sizeOf as + sizeOf ks := by
        have := congrArg sizeOf heq; simp at this; omega
      have h2 : ∀ s, (trChildList o env children s).2.ro = s.ro := fun s => trChildList_ro o env children s
      simp only [finishChildren_ro, popFlag_ro, h2, importFromVue_ro, getPragma_ro, pushFlag_ro]
    next => simp
termination_by n => 2 * sizeOf n
theorem trAttrs_ro (o : Opts) (env : Env) (c : Bool) : ∀ (attrs : List Node) (acc : AttrAcc) (st : St),
    (trAttrs o env c attrs acc st).2.ro = st.ro
  | [], acc, st => by simp [trAttrs]
  | a :: rest, acc, st => by
    rw [trAttrs.eq_def]
    simp only
    have ih : ∀ ac s, (trAttrs o env c rest ac s).2.ro = s.ro := fun ac s => trAttrs_ro o env c rest ac s
    rw [ih, attrStep_ro]
    split
    next aas nameN eas eks =>
      split
      · rfl
      · have hs : sizeOf (Node.mk K.jsxElement eas eks) < sizeOf (Node.mk K.jsxAttr aas [nameN, Node.mk K.jsxElement eas eks] :: rest) := by simp; omega
        simp only; exact trElement_ro o env (.mk .jsxElement eas eks) st
    next aas nameN eas eks =>
      split
      · rfl
      · have hs : sizeOf (Node.mk K.jsxFragment eas eks) < sizeOf (Node.mk K.jsxAttr aas [nameN, Node.mk K.jsxFragment eas eks] :: rest) := by simp; omega
        simp only; exact trFragment_ro o env (.mk .jsxFragment eas eks) st
    next => rfl
termination_by attrs => 2 * sizeOf attrs
theorem transformAttrs_ro (o : Opts) (env : Env) : ∀ (attrs : List Node) (c : Bool) (st : St),
    (transformAttrs o env attrs c st).2.ro = st.ro
  | [], c, st => by simp [transformAttrs]
  | a :: rest, c, st => by
    simp only [transformAttrs, assembleProps_ro]
    exact trAttrs_ro o env c (a :: rest) {} st
termination_by attrs => 2 * sizeOf attrs + 1
theorem trChildList_ro (o : Opts) (env : Env) : ∀ (cs : List Node) (st : St), (trChildList o env cs st).2.ro = st.ro
  | [], st => by simp [trChildList]
  | c :: rest, st => by
    have ih : ∀ s, (trChildList o env rest s).2.ro = s.ro := fun s => trChildList_ro o env rest s
    rw [trChildList.eq_def]
    simp only
    split
    · split
      · exact ih st
      · simp only; rw [ih]; simp
    · split
      · exact ih st
      · simp only; rw [ih]; split <;> simp
    · simp only; rw [ih]; split <;> simp
    next as' ks' =>
      have hs : sizeOf (Node.mk K.jsxElement as' ks') < sizeOf (Node.mk K.jsxElement as' ks' :: rest) := by simp; omega
      simp only; rw [ih]; exact trElement_ro o env (.mk .jsxElement as' ks') st
    next as' ks' =>
      have hs : sizeOf (Node.mk K.jsxFragment as' ks') < sizeOf (Node.mk K.jsxFragment as' ks' :: rest) := by simp; omega
      simp only; rw [ih]; exact trFragment_ro o env (.mk .jsxFragment as' ks') st
    · simp only; rw [panic_ro, ih]
termination_by cs => 2 * sizeOf cs
end

end VueJsx
