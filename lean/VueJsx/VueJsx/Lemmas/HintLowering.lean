/-
  HintLowering: the C12 simulation theorem for the mutual lowering functions (`trElement`, `trFragment`, `trAttrs`,
  `trChildList`): on `HintRel`-related inputs, with `optimize` on the left and off on the right, the results are related.
-/
import VueJsx.Lemmas.HintElement

namespace VueJsx
open Text

/-! ### views of JSX nodes -/

def elementParts : Node → Option (Node × List Node × List Node)
  | .mk .jsxElement _ [.mk .jsxOpening _ [nameN, .mk .list _ attrs, _], .mk .list _ children, _] => some (nameN, attrs, children)
  | _ => none

def fragmentParts : Node → Option (List Node)
  | .mk .jsxFragment _ [_, .mk .list _ children, _] => some children
  | _ => none

theorem listParts_rel {a b : Node} (h : HintRel a b) :
    (∃ las l1 l2, a = .mk .list las l1 ∧ b = .mk .list las l2 ∧ HintRelL l1 l2) ∨ (a.kind ≠ .list ∧ b.kind ≠ .list) := by
  cases h with
  | vnode => right; simp [Node.kind]
  | node k as hl =>
    by_cases hk : k = .list
    · subst hk; exact .inl ⟨_, _, _, rfl, rfl, hl⟩
    · right; simp [Node.kind, hk]

theorem elementParts_rel {a b : Node} (h : HintRel a b) :
    (elementParts a = none ∧ elementParts b = none) ∨
    ∃ n1 n2 at1 at2 c1 c2, elementParts a = some (n1, at1, c1) ∧ elementParts b = some (n2, at2, c2) ∧
      HintRel n1 n2 ∧ HintRelL at1 at2 ∧ HintRelL c1 c2 ∧ sizeOf at1 < sizeOf a ∧ sizeOf c1 < sizeOf a := by
  cases h with
  | vnode => simp [elementParts]
  | node k as hl =>
    cases k <;> try (simp [elementParts]; done)
    rcases hl with _ | ⟨h1, _ | ⟨h2, _ | ⟨h3, _ | ⟨h4, hl⟩⟩⟩⟩ <;> try (simp [elementParts]; done)
    -- [opening, children, closing]
    cases h1 with
    | vnode => simp [elementParts]
    | node k1 as1 hl1 =>
      cases k1 <;> try (simp [elementParts]; done)
      rcases hl1 with _ | ⟨g1, _ | ⟨g2, _ | ⟨g3, _ | ⟨g4, hl1⟩⟩⟩⟩ <;> try (simp [elementParts]; done)
      cases g2 with
      | vnode => simp [elementParts]
      | node k2 as2 hl2 =>
        cases k2 <;> try (simp [elementParts]; done)
        cases h2 with
        | vnode => simp [elementParts]
        | node k3 as3 hl3 =>
          cases k3 <;> try (simp [elementParts]; done)
          refine .inr ⟨_, _, _, _, _, _, rfl, rfl, g1, hl2, hl3, ?_, ?_⟩ <;> (simp; omega)

theorem fragmentParts_rel {a b : Node} (h : HintRel a b) :
    (fragmentParts a = none ∧ fragmentParts b = none) ∨
    ∃ c1 c2, fragmentParts a = some c1 ∧ fragmentParts b = some c2 ∧ HintRelL c1 c2 ∧ sizeOf c1 < sizeOf a := by
  cases h with
  | vnode => simp [fragmentParts]
  | node k as hl =>
    cases k <;> try (simp [fragmentParts]; done)
    rcases hl with _ | ⟨h1, _ | ⟨h2, _ | ⟨h3, _ | ⟨h4, hl⟩⟩⟩⟩ <;> try (simp [fragmentParts]; done)
    cases h2 with
    | vnode => simp [fragmentParts]
    | node k3 as3 hl3 =>
      cases k3 <;> try (simp [fragmentParts]; done)
      refine .inr ⟨_, _, rfl, rfl, hl3, ?_⟩
      simp; omega

/-! ### unfolding the mutual lowering functions through the views -/

def hintArgs (o : Opts) (args : List Node) (ar : AttrsResult) : List Node :=
  if o.optimize then
    let args := if ar.patchFlags != 0 then args ++ [nArg (nNum ar.patchFlags)] else args
    match ar.dynamicProps with
    | some dp => if !dp.isEmpty then args ++ [nArg (nArray (dp.map fun p => nArg (nStr p)))] else args
    | none => args
  else args

def elementCore (o : Opts) (env : Env) (nameN : Node) (attrs children : List Node) (st : St) : Node × St :=
  let st := pushFlag o st
  let isComp := isComponent env nameN
  let (ar, st) := transformAttrs o env attrs isComp st
  let (tag, st) := transformTag env nameN st
  let (elems, st) := trChildList o env children st
  let (slotFlag, st) := popFlag o st
  let (kids, st) := finishChildren o elems isComp ar.slots slotFlag st
  let args := hintArgs o [nArg tag, nArg ar.attrs, nArg kids] ar
  let (pragma, st) := getPragma o st
  let vnode := nCall pragma args
  if ar.directives.isEmpty then (vnode, st)
  else
    let (wd, st) := st.importFromVue "withDirectives"
    let (entries, st) := dirEntries nameN attrs ar.directives st
    (nCall wd [nArg vnode, nArg (nArray entries)], st)

theorem trElement_eq (o : Opts) (env : Env) (n : Node) (st : St) :
    trElement o env n st =
      (match elementParts n with
       | some (nameN, attrs, children) => elementCore o env nameN attrs children st
       | none => (.mk .ill [] [n], st.panic "ill-formed JSX element")) := by
  unfold trElement
  split
  · simp only [elementParts]; rfl
  · rename_i hne
    have : elementParts n = none := by
      unfold elementParts
      split
      · exact (hne _ _ _ _ _ _ _ _ _ rfl).elim
      · rfl
    rw [this]

def fragmentCore (o : Opts) (env : Env) (children : List Node) (st : St) : Node × St :=
  let st := pushFlag o st
  let (pragma, st) := getPragma o st
  let (frag, st) := st.importFromVue FRAGMENT
  let (elems, st) := trChildList o env children st
  let (slotFlag, st) := popFlag o st
  let (kids, st) := finishChildren o elems false none slotFlag st
  (nCall pragma [nArg frag, nArg nNull, nArg kids], st)

theorem trFragment_eq (o : Opts) (env : Env) (n : Node) (st : St) :
    trFragment o env n st =
      (match fragmentParts n with
       | some children => fragmentCore o env children st
       | none => (.mk .ill [] [n], st.panic "ill-formed JSX fragment")) := by
  unfold trFragment
  split
  · simp only [fragmentParts]; rfl
  · rename_i hne
    have : fragmentParts n = none := by
      unfold fragmentParts
      split
      · exact (hne _ _ _ _ _ rfl).elim
      · rfl
    rw [this]

/-- the lowering of an element / fragment used directly as a plain attribute's value (first half of a `trAttrs` step) -/
def lowerAttr (o : Opts) (env : Env) (a : Node) (st : St) : Option Node × St :=
  match attrParts a with
  | some (nameN, v) =>
    if v.kind = .jsxElement then
      (if isDirectiveAttrName (attrNameOf nameN) then (none, st) else let (e, st) := trElement o env v st; (some e, st))
    else if v.kind = .jsxFragment then
      (if isDirectiveAttrName (attrNameOf nameN) then (none, st) else let (e, st) := trFragment o env v st; (some e, st))
    else (none, st)
  | none => (none, st)

theorem trAttrs_cons_lower (o : Opts) (env : Env) (c : Bool) (a : Node) (rest : List Node) (acc : AttrAcc) (st : St) :
    trAttrs o env c (a :: rest) acc st =
      (let (lowered, st) := lowerAttr o env a st
       let (acc, st) := attrStep o c a lowered acc st
       trAttrs o env c rest acc st) := by
  conv => lhs; unfold trAttrs
  cases a with
  | mk k as ks =>
    cases k <;> try (simp [lowerAttr, attrParts]; done)
    rcases ks with _ | ⟨n, _ | ⟨v, _ | ⟨z, r⟩⟩⟩ <;> try (simp [lowerAttr, attrParts]; done)
    cases v with
    | mk k2 as2 ks2 =>
      cases k2 <;> simp [lowerAttr, attrParts, Node.kind]

theorem trAttrs_nil (o : Opts) (env : Env) (c : Bool) (acc : AttrAcc) (st : St) : trAttrs o env c [] acc st = (acc, st) := by
  unfold trAttrs; rfl

theorem attrParts_size {a n v : Node} (h : attrParts a = some (n, v)) : sizeOf v < sizeOf a := by
  cases a with
  | mk k as ks =>
    cases k <;> try (simp [attrParts] at h; done)
    rcases ks with _ | ⟨n', _ | ⟨v', _ | ⟨z, r⟩⟩⟩ <;> try (simp [attrParts] at h; done)
    simp [attrParts] at h
    obtain ⟨_, rfl⟩ := h
    simp; omega

inductive ChildView where
  | text (t : String) | empty | expr (e : Node) | spread (e : Node) | element | fragment | bad

def childView : Node → ChildView
  | .mk .jsxText (t :: _) _ => .text t
  | .mk .jsxExprContainer _ [e] =>
    match e with
    | .mk .jsxEmpty _ _ => .empty
    | e => .expr e
  | .mk .jsxSpreadChild _ [e] => .spread e
  | .mk .jsxElement _ _ => .element
  | .mk .jsxFragment _ _ => .fragment
  | _ => .bad

def fillIfBound (o : Opts) (e : Node) (st : St) : St :=
  if o.optimize && isIdent e && !isUnresolvedIdent e then stackFill st else st

theorem trChildList_nil (o : Opts) (env : Env) (st : St) : trChildList o env [] st = ([], st) := by
  unfold trChildList; rfl

theorem trChildList_cons (o : Opts) (env : Env) (c : Node) (rest : List Node) (st : St) :
    trChildList o env (c :: rest) st =
      (match childView c with
       | .text t =>
         let text := String.ofList (cleanText t.toList)
         if text.isEmpty then trChildList o env rest st
         else
           let (ctv, st) := st.importFromVue "createTextVNode"
           let (more, st) := trChildList o env rest st
           (nArg (nCall ctv [nArg (nStr text)]) :: more, st)
       | .empty => trChildList o env rest st
       | .expr e =>
         let (more, st) := trChildList o env rest (fillIfBound o e st)
         (nArg e :: more, st)
       | .spread e =>
         let (more, st) := trChildList o env rest (fillIfBound o e st)
         (nSpreadArg e :: more, st)
       | .element =>
         let (e, st) := trElement o env c st
         let (more, st) := trChildList o env rest st
         (nArg e :: more, st)
       | .fragment =>
         let (e, st) := trFragment o env c st
         let (more, st) := trChildList o env rest st
         (nArg e :: more, st)
       | .bad =>
         let (more, st) := trChildList o env rest st
         (more, st.panic "ill-formed JSX child")) := by
  conv => lhs; unfold trChildList
  cases c with
  | mk k as ks =>
    cases k <;> try (simp [childView]; done)
    · -- jsxExprContainer
      rcases ks with _ | ⟨e, _ | ⟨y, r⟩⟩ <;> try (simp [childView]; done)
      cases e with
      | mk k2 as2 ks2 => cases k2 <;> simp [childView, fillIfBound]
    · -- jsxSpreadChild
      rcases ks with _ | ⟨e, _ | ⟨y, r⟩⟩ <;> simp [childView, fillIfBound]
    · -- jsxText
      cases as <;> simp [childView]

def ChildViewRel : ChildView → ChildView → Prop
  | .text t1, .text t2 => t1 = t2
  | .empty, .empty => True
  | .expr e1, .expr e2 => HintRel e1 e2
  | .spread e1, .spread e2 => HintRel e1 e2
  | .element, .element => True
  | .fragment, .fragment => True
  | .bad, .bad => True
  | _, _ => False

theorem childView_rel {a b : Node} (h : HintRel a b) : ChildViewRel (childView a) (childView b) := by
  cases h with
  | vnode => simp [childView, ChildViewRel]
  | node k as hl =>
    cases k <;> try (simp [childView, ChildViewRel]; done)
    · rcases hl with _ | ⟨h1, _ | ⟨h2, hl⟩⟩ <;> try (simp [childView, ChildViewRel]; done)
      cases h1 with
      | vnode => simpa [childView, ChildViewRel] using HintRel.vnode _ _ _ _ _ ‹_› ‹_› ‹_› ‹_›
      | node k2 as2 hl2 => cases k2 <;> simp [childView, ChildViewRel] <;> exact HintRel.node _ _ hl2
    · rcases hl with _ | ⟨h1, _ | ⟨h2, hl⟩⟩ <;> try (simp [childView, ChildViewRel]; done)
      simpa [childView, ChildViewRel] using h1
    · cases as <;> simp [childView, ChildViewRel]

theorem fillIfBound_rel (o : Opts) (e1 e2 : Node) {s1 s2 : St} (hs : StSim s1 s2) :
    StSim (fillIfBound { o with optimize := true } e1 s1) (fillIfBound { o with optimize := false } e2 s2) := by
  unfold fillIfBound
  simp only [Bool.true_and, Bool.false_and, Bool.false_eq_true, if_false]
  split
  · exact stackFill_rel_left hs
  · exact hs

/-- what the element lowering needs from the recursive calls on its attribute list and child list -/
def AttrsHyp (o : Opts) (env : Env) (c : Bool) (at1 at2 : List Node) : Prop :=
  ∀ acc1 acc2 s1 s2, AccSim acc1 acc2 → StSim s1 s2 →
    AccSim (trAttrs { o with optimize := true } env c at1 acc1 s1).1 (trAttrs { o with optimize := false } env c at2 acc2 s2).1 ∧
    StSim (trAttrs { o with optimize := true } env c at1 acc1 s1).2 (trAttrs { o with optimize := false } env c at2 acc2 s2).2

def KidsHyp (o : Opts) (env : Env) (c1 c2 : List Node) : Prop :=
  ∀ s1 s2, StSim s1 s2 →
    HintRelL (trChildList { o with optimize := true } env c1 s1).1 (trChildList { o with optimize := false } env c2 s2).1 ∧
    StSim (trChildList { o with optimize := true } env c1 s1).2 (trChildList { o with optimize := false } env c2 s2).2

structure ResSim (r1 r2 : AttrsResult) : Prop where
  attrs : HintRel r1.attrs r2.attrs
  flags : r1.patchFlags = r2.patchFlags
  dyn : r1.dynamicProps = r2.dynamicProps
  slots : OptRel r1.slots r2.slots
  dirs : DirsRel r1.directives r2.directives

theorem AccSim.empty : AccSim {} {} := ⟨rfl, .nil, .nil, .nil, trivial⟩

theorem transformAttrs_rel (o : Opts) (env : Env) (c : Bool) {at1 at2 : List Node} (hat : HintRelL at1 at2) (hA : AttrsHyp o env c at1 at2)
    {s1 s2 : St} (hs : StSim s1 s2) :
    ResSim (transformAttrs { o with optimize := true } env at1 c s1).1 (transformAttrs { o with optimize := false } env at2 c s2).1 ∧
      StSim (transformAttrs { o with optimize := true } env at1 c s1).2 (transformAttrs { o with optimize := false } env at2 c s2).2 := by
  cases hat with
  | nil => exact ⟨by simp only [transformAttrs]; exact ⟨HintRel.refl _, rfl, rfl, trivial, .nil⟩, by simpa only [transformAttrs] using hs⟩
  | cons hx hxs =>
    simp only [transformAttrs]
    obtain ⟨r1, r2⟩ := hA {} {} s1 s2 AccSim.empty hs
    rcases e1 : trAttrs { o with optimize := true } env c (_ :: _) {} s1 with ⟨acc1, t1⟩
    rcases e2 : trAttrs { o with optimize := false } env c (_ :: _) {} s2 with ⟨acc2, t2⟩
    rw [e1, e2] at r1 r2
    dsimp only at r1 r2 ⊢
    obtain ⟨p1, p2⟩ := assembleProps_rel o r1.2.1 r1.2.2.1 r2
    rcases f1 : assembleProps { o with optimize := true } acc1.props acc1.mergeArgs t1 with ⟨x1, u1⟩
    rcases f2 : assembleProps { o with optimize := false } acc2.props acc2.mergeArgs t2 with ⟨x2, u2⟩
    have f1' : assembleProps o acc1.props acc1.mergeArgs t1 = (x1, u1) := f1
    have f2' : assembleProps o acc2.props acc2.mergeArgs t2 = (x2, u2) := f2
    rw [f1', f2'] at p1 p2
    dsimp only at p1 p2 ⊢
    refine ⟨⟨p1, patchFlagsOf_rel r1, ?_, r1.2.2.2.2, r1.2.2.2.1⟩, p2⟩
    have := r1.1
    simp only [AttrAcc.flags, Prod.mk.injEq] at this
    simp [this.1]

theorem isHintsTail_hintArgs (f : Nat) (dp : Option (List String)) :
    ∃ hs, (∀ (o : Opts) args ar, o.optimize = true → ar.patchFlags = f → ar.dynamicProps = dp → hintArgs o args ar = args ++ hs) ∧ isHintsTail hs = true := by
  by_cases hf : f = 0
  · subst hf
    cases dp with
    | none => exact ⟨[], by intro o args ar ho h1 h2; simp [hintArgs, ho, h1, h2], rfl⟩
    | some l =>
      by_cases hl : l.isEmpty
      · exact ⟨[], by intro o args ar ho h1 h2; simp [hintArgs, ho, h1, h2, hl], rfl⟩
      · refine ⟨[nArg (nArray (l.map fun p => nArg (nStr p)))], by intro o args ar ho h1 h2; simp [hintArgs, ho, h1, h2, hl], ?_⟩
        simp [isHintsTail, nArg, nArray, nList]
        intro x _; simp [isStrArg, nStr]
  · cases dp with
    | none => exact ⟨[nArg (nNum f)], by intro o args ar ho h1 h2; simp [hintArgs, ho, h1, h2, hf], by simp [isHintsTail, nArg, nNum]⟩
    | some l =>
      by_cases hl : l.isEmpty
      · exact ⟨[nArg (nNum f)], by intro o args ar ho h1 h2; simp [hintArgs, ho, h1, h2, hf, hl], by simp [isHintsTail, nArg, nNum]⟩
      · refine ⟨[nArg (nNum f), nArg (nArray (l.map fun p => nArg (nStr p)))], by intro o args ar ho h1 h2; simp [hintArgs, ho, h1, h2, hf, hl], ?_⟩
        simp [isHintsTail, nArg, nArray, nList, nNum]
        intro x _; simp [isStrArg, nStr]

theorem elementCore_rel (o : Opts) (env : Env) {n1 n2 : Node} (hn : HintRel n1 n2) {at1 at2 c1 c2 : List Node}
    (hat : HintRelL at1 at2) (hA : AttrsHyp o env (isComponent env n2) at1 at2) (hC : KidsHyp o env c1 c2)
    {s1 s2 : St} (hs : StSim s1 s2) :
    HintRel (elementCore { o with optimize := true } env n1 at1 c1 s1).1 (elementCore { o with optimize := false } env n2 at2 c2 s2).1 ∧
      StSim (elementCore { o with optimize := true } env n1 at1 c1 s1).2 (elementCore { o with optimize := false } env n2 at2 c2 s2).2 := by
  unfold elementCore
  rw [isComponent_rel env hn]
  dsimp only
  -- attributes
  obtain ⟨a1, a2⟩ := transformAttrs_rel o env _ hat hA (pushFlag_rel { o with optimize := true } { o with optimize := false } hs)
  rcases ea1 : transformAttrs { o with optimize := true } env at1 (isComponent env n2) (pushFlag { o with optimize := true } s1) with ⟨ar1, t1⟩
  rcases ea2 : transformAttrs { o with optimize := false } env at2 (isComponent env n2) (pushFlag { o with optimize := false } s2) with ⟨ar2, t2⟩
  rw [ea1, ea2] at a1 a2
  dsimp only at a1 a2 ⊢
  -- tag
  obtain ⟨g1, g2⟩ := transformTag_rel env hn a2
  rcases eg1 : transformTag env n1 t1 with ⟨tag1, u1⟩
  rcases eg2 : transformTag env n2 t2 with ⟨tag2, u2⟩
  rw [eg1, eg2] at g1 g2
  dsimp only at g1 g2 ⊢
  -- children
  obtain ⟨k1, k2⟩ := hC u1 u2 g2
  rcases ek1 : trChildList { o with optimize := true } env c1 u1 with ⟨el1, v1⟩
  rcases ek2 : trChildList { o with optimize := false } env c2 u2 with ⟨el2, v2⟩
  rw [ek1, ek2] at k1 k2
  dsimp only at k1 k2 ⊢
  have hp := popFlag_rel { o with optimize := true } { o with optimize := false } k2
  rcases ep1 : popFlag { o with optimize := true } v1 with ⟨f1, w1⟩
  rcases ep2 : popFlag { o with optimize := false } v2 with ⟨f2, w2⟩
  rw [ep1, ep2] at hp
  dsimp only at hp ⊢
  obtain ⟨q1, q2⟩ := finishChildren_rel o k1 (isComponent env n2) a1.slots f1 f2 hp
  rcases eq1 : finishChildren { o with optimize := true } el1 (isComponent env n2) ar1.slots f1 w1 with ⟨kids1, x1⟩
  rcases eq2 : finishChildren { o with optimize := false } el2 (isComponent env n2) ar2.slots f2 w2 with ⟨kids2, x2⟩
  rw [eq1, eq2] at q1 q2
  dsimp only at q1 q2 ⊢
  -- the factory
  obtain ⟨p1, p2⟩ := getPragma_rel o q2
  rcases eP1 : getPragma { o with optimize := true } x1 with ⟨pr1, y1⟩
  rcases eP2 : getPragma { o with optimize := false } x2 with ⟨pr2, y2⟩
  have eP1' : getPragma o x1 = (pr1, y1) := eP1
  have eP2' : getPragma o x2 = (pr2, y2) := eP2
  rw [eP1', eP2'] at p1 p2
  dsimp only at p1 p2 ⊢
  subst p1
  -- the vnode call
  obtain ⟨hs', hh1, hh2⟩ := isHintsTail_hintArgs ar1.patchFlags ar1.dynamicProps
  have hv : HintRel (nCall pr1 (hintArgs { o with optimize := true } [nArg tag1, nArg ar1.attrs, nArg kids1] ar1))
      (nCall pr1 (hintArgs { o with optimize := false } [nArg tag2, nArg ar2.attrs, nArg kids2] ar2)) := by
    rw [hh1 { o with optimize := true } _ ar1 rfl rfl rfl]
    have : hintArgs { o with optimize := false } [nArg tag2, nArg ar2.attrs, nArg kids2] ar2 = [nArg tag2, nArg ar2.attrs, nArg kids2] := by
      simp [hintArgs]
    rw [this]
    exact HintRel.vnode [] [] [] pr1 nNone (rel_nArg g1) (rel_nArg a1.attrs) q1 hh2
  rw [a1.dirs.isEmpty]
  split
  · exact ⟨hv, p2⟩
  · obtain ⟨i1, i2⟩ := p2.importFromVue "withDirectives"
    rcases f1' : y1.importFromVue "withDirectives" with ⟨wd1, z1⟩
    rcases f2' : y2.importFromVue "withDirectives" with ⟨wd2, z2⟩
    rw [f1', f2'] at i1 i2
    dsimp only at i1 i2 ⊢
    subst i1
    obtain ⟨d1, d2⟩ := dirEntries_rel hn hat a1.dirs i2
    rcases ed1 : dirEntries n1 at1 ar1.directives z1 with ⟨en1, zz1⟩
    rcases ed2 : dirEntries n2 at2 ar2.directives z2 with ⟨en2, zz2⟩
    rw [ed1, ed2] at d1 d2
    dsimp only at d1 d2 ⊢
    exact ⟨rel_nCall _ (.cons (rel_nArg hv) (.cons (rel_nArg (rel_nArray d1)) .nil)), d2⟩

theorem fragmentCore_rel (o : Opts) (env : Env) {c1 c2 : List Node} (hC : KidsHyp o env c1 c2) {s1 s2 : St} (hs : StSim s1 s2) :
    HintRel (fragmentCore { o with optimize := true } env c1 s1).1 (fragmentCore { o with optimize := false } env c2 s2).1 ∧
      StSim (fragmentCore { o with optimize := true } env c1 s1).2 (fragmentCore { o with optimize := false } env c2 s2).2 := by
  unfold fragmentCore
  dsimp only
  obtain ⟨p1, p2⟩ := getPragma_rel o (pushFlag_rel { o with optimize := true } { o with optimize := false } hs)
  rcases eP1 : getPragma { o with optimize := true } (pushFlag { o with optimize := true } s1) with ⟨pr1, y1⟩
  rcases eP2 : getPragma { o with optimize := false } (pushFlag { o with optimize := false } s2) with ⟨pr2, y2⟩
  have eP1' : getPragma o (pushFlag { o with optimize := true } s1) = (pr1, y1) := eP1
  have eP2' : getPragma o (pushFlag { o with optimize := false } s2) = (pr2, y2) := eP2
  rw [eP1', eP2'] at p1 p2
  dsimp only at p1 p2 ⊢
  subst p1
  obtain ⟨i1, i2⟩ := p2.importFromVue FRAGMENT
  rcases f1' : y1.importFromVue FRAGMENT with ⟨fr1, z1⟩
  rcases f2' : y2.importFromVue FRAGMENT with ⟨fr2, z2⟩
  rw [f1', f2'] at i1 i2
  dsimp only at i1 i2 ⊢
  subst i1
  obtain ⟨k1, k2⟩ := hC z1 z2 i2
  rcases ek1 : trChildList { o with optimize := true } env c1 z1 with ⟨el1, v1⟩
  rcases ek2 : trChildList { o with optimize := false } env c2 z2 with ⟨el2, v2⟩
  rw [ek1, ek2] at k1 k2
  dsimp only at k1 k2 ⊢
  have hp := popFlag_rel { o with optimize := true } { o with optimize := false } k2
  rcases ep1 : popFlag { o with optimize := true } v1 with ⟨f1, w1⟩
  rcases ep2 : popFlag { o with optimize := false } v2 with ⟨f2, w2⟩
  rw [ep1, ep2] at hp
  dsimp only at hp ⊢
  obtain ⟨q1, q2⟩ := finishChildren_rel o k1 false (OptRel.refl none) f1 f2 hp
  rcases eq1 : finishChildren { o with optimize := true } el1 false none f1 w1 with ⟨kids1, x1⟩
  rcases eq2 : finishChildren { o with optimize := false } el2 false none f2 w2 with ⟨kids2, x2⟩
  rw [eq1, eq2] at q1 q2
  dsimp only at q1 q2 ⊢
  exact ⟨HintRel.vnode [] [] [] pr1 nNone (HintRel.refl _) (HintRel.refl _) q1 rfl, q2⟩

/-- the simulation for all four mutual functions, by induction on a size bound -/
theorem lowering_rel_aux (o : Opts) (env : Env) (n : Nat) :
    (∀ a b s1 s2, sizeOf a ≤ n → HintRel a b → StSim s1 s2 →
      HintRel (trElement { o with optimize := true } env a s1).1 (trElement { o with optimize := false } env b s2).1 ∧
      StSim (trElement { o with optimize := true } env a s1).2 (trElement { o with optimize := false } env b s2).2) ∧
    (∀ a b s1 s2, sizeOf a ≤ n → HintRel a b → StSim s1 s2 →
      HintRel (trFragment { o with optimize := true } env a s1).1 (trFragment { o with optimize := false } env b s2).1 ∧
      StSim (trFragment { o with optimize := true } env a s1).2 (trFragment { o with optimize := false } env b s2).2) ∧
    (∀ c (a b : List Node), sizeOf a ≤ n → HintRelL a b → AttrsHyp o env c a b) ∧
    (∀ (a b : List Node), sizeOf a ≤ n → HintRelL a b → KidsHyp o env a b) := by
  induction n with
  | zero =>
    refine ⟨?_, ?_, ?_, ?_⟩
    · intro a b s1 s2 hs; cases a; simp at hs
    · intro a b s1 s2 hs; cases a; simp at hs
    · intro c a b hs; cases a <;> simp at hs
    · intro a b hs; cases a <;> simp at hs
  | succ n ih =>
    obtain ⟨ihE, ihF, ihA, ihC⟩ := ih
    refine ⟨?_, ?_, ?_, ?_⟩
    · -- element
      intro a b s1 s2 hsz h hs
      rw [trElement_eq, trElement_eq]
      rcases elementParts_rel h with ⟨e1, e2⟩ | ⟨n1, n2, at1, at2, c1, c2, e1, e2, hn, hat, hc, z1, z2⟩
      · rw [e1, e2]; exact ⟨.node _ _ (.cons h .nil), hs.panic _⟩
      · rw [e1, e2]
        exact elementCore_rel o env hn hat (ihA _ at1 at2 (by omega) hat) (ihC c1 c2 (by omega) hc) hs
    · -- fragment
      intro a b s1 s2 hsz h hs
      rw [trFragment_eq, trFragment_eq]
      rcases fragmentParts_rel h with ⟨e1, e2⟩ | ⟨c1, c2, e1, e2, hc, z1⟩
      · rw [e1, e2]; exact ⟨.node _ _ (.cons h .nil), hs.panic _⟩
      · rw [e1, e2]
        exact fragmentCore_rel o env (ihC c1 c2 (by omega) hc) hs
    · -- attribute list
      intro c a b hsz hl acc1 acc2 s1 s2 hacc hs
      cases hl with
      | nil => rw [trAttrs_nil, trAttrs_nil]; exact ⟨hacc, hs⟩
      | @cons x y xs ys hx hxs =>
        rw [trAttrs_cons_lower, trAttrs_cons_lower]
        -- the element / fragment value, if any
        have hlow : OptRel (lowerAttr { o with optimize := true } env x s1).1 (lowerAttr { o with optimize := false } env y s2).1 ∧
            StSim (lowerAttr { o with optimize := true } env x s1).2 (lowerAttr { o with optimize := false } env y s2).2 := by
          unfold lowerAttr
          rcases attrParts_rel hx with ⟨h1, h2⟩ | ⟨n1, n2, v1, v2, h1, h2, hn, hv⟩
          · rw [h1, h2]; exact ⟨trivial, hs⟩
          · rw [h1, h2]
            have hvs : sizeOf v1 ≤ n := by
              have := attrParts_size h1
              simp at hsz; omega
            dsimp only
            rw [hv.kind, attrNameOf_rel hn]
            split
            · split
              · exact ⟨trivial, hs⟩
              · obtain ⟨r1, r2⟩ := ihE v1 v2 s1 s2 hvs hv hs
                exact ⟨r1, r2⟩
            · split
              · split
                · exact ⟨trivial, hs⟩
                · obtain ⟨r1, r2⟩ := ihF v1 v2 s1 s2 hvs hv hs
                  exact ⟨r1, r2⟩
              · exact ⟨trivial, hs⟩
        obtain ⟨l1, l2⟩ := hlow
        rcases el1 : lowerAttr { o with optimize := true } env x s1 with ⟨lo1, t1⟩
        rcases el2 : lowerAttr { o with optimize := false } env y s2 with ⟨lo2, t2⟩
        rw [el1, el2] at l1 l2
        dsimp only at l1 l2 ⊢
        obtain ⟨p1, p2⟩ := attrStep_rel o c hx l1 hacc l2
        rcases es1 : attrStep { o with optimize := true } c x lo1 acc1 t1 with ⟨ac1, u1⟩
        rcases es2 : attrStep { o with optimize := false } c y lo2 acc2 t2 with ⟨ac2, u2⟩
        have es1' : attrStep o c x lo1 acc1 t1 = (ac1, u1) := es1
        have es2' : attrStep o c y lo2 acc2 t2 = (ac2, u2) := es2
        rw [es1', es2'] at p1 p2
        dsimp only at p1 p2 ⊢
        exact ihA c xs ys (by simp at hsz; omega) hxs ac1 ac2 u1 u2 p1 p2
    · -- child list
      intro a b hsz hl s1 s2 hs
      cases hl with
      | nil => rw [trChildList_nil, trChildList_nil]; exact ⟨.nil, hs⟩
      | @cons x y xs ys hx hxs =>
        have hrest := ihC xs ys (by simp at hsz; omega) hxs
        have hxsz : sizeOf x ≤ n := by simp at hsz; omega
        rw [trChildList_cons, trChildList_cons]
        have hview := childView_rel hx
        cases hv1 : childView x <;> cases hv2 : childView y <;> rw [hv1, hv2] at hview <;> simp only [ChildViewRel] at hview <;>
          try exact hview.elim
        · -- text
          subst hview
          dsimp only
          split
          · exact hrest s1 s2 hs
          · obtain ⟨i1, i2⟩ := hs.importFromVue "createTextVNode"
            rcases f1 : s1.importFromVue "createTextVNode" with ⟨ctv1, z1⟩
            rcases f2 : s2.importFromVue "createTextVNode" with ⟨ctv2, z2⟩
            rw [f1, f2] at i1 i2
            dsimp only at i1 i2 ⊢
            subst i1
            obtain ⟨r1, r2⟩ := hrest z1 z2 i2
            exact ⟨.cons (HintRel.refl _) r1, r2⟩
        · -- empty expression
          exact hrest s1 s2 hs
        · -- expression
          dsimp only
          obtain ⟨r1, r2⟩ := hrest _ _ (fillIfBound_rel o _ _ hs)
          exact ⟨.cons (rel_nArg hview) r1, r2⟩
        · -- spread child
          dsimp only
          obtain ⟨r1, r2⟩ := hrest _ _ (fillIfBound_rel o _ _ hs)
          exact ⟨.cons (rel_nSpreadArg hview) r1, r2⟩
        · -- element
          dsimp only
          obtain ⟨e1, e2⟩ := ihE x y s1 s2 hxsz hx hs
          obtain ⟨r1, r2⟩ := hrest _ _ e2
          exact ⟨.cons (rel_nArg e1) r1, r2⟩
        · -- fragment
          dsimp only
          obtain ⟨e1, e2⟩ := ihF x y s1 s2 hxsz hx hs
          obtain ⟨r1, r2⟩ := hrest _ _ e2
          exact ⟨.cons (rel_nArg e1) r1, r2⟩
        · -- ill-formed child
          dsimp only
          obtain ⟨r1, r2⟩ := hrest s1 s2 hs
          exact ⟨r1, r2.panic _⟩

theorem trElement_rel (o : Opts) (env : Env) {a b : Node} (h : HintRel a b) {s1 s2 : St} (hs : StSim s1 s2) :
    HintRel (trElement { o with optimize := true } env a s1).1 (trElement { o with optimize := false } env b s2).1 ∧
      StSim (trElement { o with optimize := true } env a s1).2 (trElement { o with optimize := false } env b s2).2 :=
  (lowering_rel_aux o env (sizeOf a)).1 a b s1 s2 (Nat.le_refl _) h hs

theorem trFragment_rel (o : Opts) (env : Env) {a b : Node} (h : HintRel a b) {s1 s2 : St} (hs : StSim s1 s2) :
    HintRel (trFragment { o with optimize := true } env a s1).1 (trFragment { o with optimize := false } env b s2).1 ∧
      StSim (trFragment { o with optimize := true } env a s1).2 (trFragment { o with optimize := false } env b s2).2 :=
  (lowering_rel_aux o env (sizeOf a)).2.1 a b s1 s2 (Nat.le_refl _) h hs

end VueJsx
