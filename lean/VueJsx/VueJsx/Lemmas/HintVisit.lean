/-
  HintVisit: the C12 simulation through the whole traversal (`visit`, the hooks, the module assembly).
-/
import VueJsx.Lemmas.HintLowering
import VueJsx.Props.C07

namespace VueJsx
open Text

/-! ### pending declarations -/

theorem StSim.clearPending {s1 s2 : St} (h : StSim s1 s2) : StSim s1.clearPending s2.clearPending := by
  obtain ⟨hc, hl⟩ := h
  refine ⟨?_, .nil⟩
  cases s1; cases s2
  simp only [St.core, St.clearPending, Prod.mk.injEq] at *
  simp_all

theorem StSim.restore {t1 t2 s1 s2 : St} (ht : StSim t1 t2) (hs : StSim s1 s2) :
    StSim { t1 with injectingConsts := s1.injectingConsts, injectingVars := s1.injectingVars }
          { t2 with injectingConsts := s2.injectingConsts, injectingVars := s2.injectingVars } := by
  obtain ⟨hc, _⟩ := ht
  obtain ⟨hc2, hl2⟩ := hs
  refine ⟨?_, hl2⟩
  cases t1; cases t2; cases s1; cases s2
  simp only [St.core, Prod.mk.injEq] at *
  simp_all

theorem StSim.restoreAppend {t1 t2 s1 s2 : St} (ht : StSim t1 t2) (hs : StSim s1 s2) :
    StSim { t1 with injectingConsts := s1.injectingConsts ++ t1.injectingConsts, injectingVars := s1.injectingVars ++ t1.injectingVars }
          { t2 with injectingConsts := s2.injectingConsts ++ t2.injectingConsts, injectingVars := s2.injectingVars ++ t2.injectingVars } := by
  obtain ⟨hc, hl⟩ := ht
  obtain ⟨hc2, hl2⟩ := hs
  refine ⟨?_, hl2.append hl⟩
  cases t1; cases t2; cases s1; cases s2
  simp only [St.core, Prod.mk.injEq] at *
  simp_all

theorem rel_nVarDecl (kind : String) {d1 d2 : List Node} (h : HintRelL d1 d2) : HintRel (nVarDecl kind d1) (nVarDecl kind d2) :=
  .node _ _ (.cons (rel_nList h) .nil)

theorem StSim.consts {s1 s2 : St} (h : StSim s1 s2) : HintRelL s1.injectingConsts s2.injectingConsts := h.2

theorem StSim.dropConsts {s1 s2 : St} (h : StSim s1 s2) :
    StSim { s1 with injectingConsts := [] } { s2 with injectingConsts := [] } := by
  obtain ⟨hc, _⟩ := h
  refine ⟨?_, .nil⟩
  cases s1; cases s2
  simp only [St.core, Prod.mk.injEq] at *
  simp_all

theorem StSim.dropVars {s1 s2 : St} (h : StSim s1 s2) :
    StSim { s1 with injectingVars := [], slotCounter := 1 } { s2 with injectingVars := [], slotCounter := 1 } := by
  obtain ⟨hc, hl⟩ := h
  refine ⟨?_, by cases s1; cases s2; exact hl⟩
  cases s1; cases s2
  simp only [St.core, Prod.mk.injEq] at *
  simp_all

def drainConsts (items : List Node) (st : St) : List Node × St :=
  if !st.injectingConsts.isEmpty then
    (nVarDecl "const" st.injectingConsts :: items, { st with injectingConsts := [] })
  else (items, st)

def drainVars (items : List Node) (st : St) : List Node × St :=
  if !st.injectingVars.isEmpty then
    (nVarDecl "let" st.injectingVars :: items, { st with injectingVars := [], slotCounter := 1 })
  else (items, st)

theorem drainInto_eq (items : List Node) (st : St) :
    drainInto items st = drainVars (drainConsts items st).1 (drainConsts items st).2 := by
  unfold drainInto drainVars drainConsts
  by_cases h : (!st.injectingConsts.isEmpty) = true
  · simp only [h, if_true]
  · simp only [h]

theorem drainConsts_rel {i1 i2 : List Node} (hi : HintRelL i1 i2) {s1 s2 : St} (hs : StSim s1 s2) :
    HintRelL (drainConsts i1 s1).1 (drainConsts i2 s2).1 ∧ StSim (drainConsts i1 s1).2 (drainConsts i2 s2).2 := by
  unfold drainConsts
  rw [hs.consts.isEmpty]
  split
  · exact ⟨.cons (rel_nVarDecl _ hs.consts) hi, hs.dropConsts⟩
  · exact ⟨hi, hs⟩

theorem drainVars_rel {i1 i2 : List Node} (hi : HintRelL i1 i2) {s1 s2 : St} (hs : StSim s1 s2) :
    HintRelL (drainVars i1 s1).1 (drainVars i2 s2).1 ∧ StSim (drainVars i1 s1).2 (drainVars i2 s2).2 := by
  unfold drainVars
  rw [hs.fields.2.2.2.2.1]
  split
  · exact ⟨.cons (rel_nVarDecl _ (HintRelL.refl _)) hi, hs.dropVars⟩
  · exact ⟨hi, hs⟩

theorem drainInto_rel {i1 i2 : List Node} (hi : HintRelL i1 i2) {s1 s2 : St} (hs : StSim s1 s2) :
    HintRelL (drainInto i1 s1).1 (drainInto i2 s2).1 ∧ StSim (drainInto i1 s1).2 (drainInto i2 s2).2 := by
  rw [drainInto_eq, drainInto_eq]
  obtain ⟨h1, h2⟩ := drainConsts_rel hi hs
  exact drainVars_rel h1 h2

/-! ### `visit_mut_arrow_expr` -/

def arrowParts : Node → Option (List String × Node × Node × Node × Node)
  | .mk .arrow as [params, body, tp, rt] => some (as, params, body, tp, rt)
  | _ => none

/-- the block body an expression-bodied arrow gets when declarations are pending -/
def arrowBuild (as : List String) (params body tp rt : Node) (st : St) : Node × St :=
  let r1 := drainConstsA st
  let r2 := drainVarsA r1.1 r1.2
  (.mk .arrow as [params, nBlock (r2.1 ++ [nReturn body]), tp, rt], r2.2)
where
  drainConstsA (st : St) : List Node × St :=
    if !st.injectingConsts.isEmpty then ([nVarDecl "const" st.injectingConsts], { st with injectingConsts := [] }) else ([], st)
  drainVarsA (stmts : List Node) (st : St) : List Node × St :=
    if !st.injectingVars.isEmpty then (stmts ++ [nVarDecl "let" st.injectingVars], { st with injectingVars := [], slotCounter := 1 })
    else (stmts, st)

theorem drainArrow_eq (n : Node) (st : St) :
    drainArrow n st =
      (match arrowParts n with
       | some (as, params, body, tp, rt) =>
         if !st.injectingConsts.isEmpty || !st.injectingVars.isEmpty then
           (if body.kind = .block then (n, st) else arrowBuild as params body tp rt st)
         else (n, st)
       | none => (n, st)) := by
  cases n with
  | mk k as ks =>
    cases k <;> try (simp [drainArrow, arrowParts]; done)
    rcases ks with _ | ⟨p, _ | ⟨b, _ | ⟨t, _ | ⟨r, _ | ⟨z, zs⟩⟩⟩⟩⟩ <;> try (simp [drainArrow, arrowParts]; done)
    simp only [drainArrow, arrowParts]
    split
    · cases b with
      | mk k2 as2 ks2 =>
        cases k2 <;> simp [Node.kind, arrowBuild, arrowBuild.drainConstsA, arrowBuild.drainVarsA]
        all_goals (split <;> split <;> rfl)
    · rfl

theorem arrowParts_rel {a b : Node} (h : HintRel a b) :
    (arrowParts a = none ∧ arrowParts b = none) ∨
    ∃ as p1 p2 b1 b2 t1 t2 r1 r2, arrowParts a = some (as, p1, b1, t1, r1) ∧ arrowParts b = some (as, p2, b2, t2, r2) ∧
      HintRel p1 p2 ∧ HintRel b1 b2 ∧ HintRel t1 t2 ∧ HintRel r1 r2 := by
  cases h with
  | vnode => simp [arrowParts]
  | node k as hl =>
    cases k <;> try (simp [arrowParts]; done)
    rcases hl with _ | ⟨h1, _ | ⟨h2, _ | ⟨h3, _ | ⟨h4, _ | ⟨h5, hl⟩⟩⟩⟩⟩ <;> try (simp [arrowParts]; done)
    exact .inr ⟨_, _, _, _, _, _, _, _, _, rfl, rfl, h1, h2, h3, h4⟩

theorem rel_nBlock {a b : List Node} (h : HintRelL a b) : HintRel (nBlock a) (nBlock b) :=
  .node _ _ (.cons (.node _ _ h) .nil)

theorem rel_nReturn {a b : Node} (h : HintRel a b) : HintRel (nReturn a) (nReturn b) := .node _ _ (.cons h .nil)

theorem arrowBuild_rel (as : List String) {p1 p2 b1 b2 t1 t2 r1 r2 : Node} (hp : HintRel p1 p2) (hb : HintRel b1 b2) (ht : HintRel t1 t2)
    (hr : HintRel r1 r2) {s1 s2 : St} (hs : StSim s1 s2) :
    HintRel (arrowBuild as p1 b1 t1 r1 s1).1 (arrowBuild as p2 b2 t2 r2 s2).1 ∧ StSim (arrowBuild as p1 b1 t1 r1 s1).2 (arrowBuild as p2 b2 t2 r2 s2).2 := by
  unfold arrowBuild
  have hc : HintRelL (arrowBuild.drainConstsA s1).1 (arrowBuild.drainConstsA s2).1 ∧ StSim (arrowBuild.drainConstsA s1).2 (arrowBuild.drainConstsA s2).2 := by
    unfold arrowBuild.drainConstsA
    rw [hs.consts.isEmpty]
    split
    · exact ⟨.cons (rel_nVarDecl _ hs.consts) .nil, hs.dropConsts⟩
    · exact ⟨.nil, hs⟩
  have hv : ∀ {l1 l2 : List Node} {u1 u2 : St}, HintRelL l1 l2 → StSim u1 u2 →
      HintRelL (arrowBuild.drainVarsA l1 u1).1 (arrowBuild.drainVarsA l2 u2).1 ∧ StSim (arrowBuild.drainVarsA l1 u1).2 (arrowBuild.drainVarsA l2 u2).2 := by
    intro l1 l2 u1 u2 hl hu
    unfold arrowBuild.drainVarsA
    rw [hu.fields.2.2.2.2.1]
    split
    · exact ⟨hl.snoc (rel_nVarDecl _ (HintRelL.refl _)), hu.dropVars⟩
    · exact ⟨hl, hu⟩
  obtain ⟨v1, v2⟩ := hv hc.1 hc.2
  exact ⟨.node _ _ (.cons hp (.cons (rel_nBlock (v1.snoc (rel_nReturn hb))) (.cons ht (.cons hr .nil)))), v2⟩

theorem drainArrow_rel {n1 n2 : Node} (hn : HintRel n1 n2) {s1 s2 : St} (hs : StSim s1 s2) :
    HintRel (drainArrow n1 s1).1 (drainArrow n2 s2).1 ∧ StSim (drainArrow n1 s1).2 (drainArrow n2 s2).2 := by
  rw [drainArrow_eq, drainArrow_eq]
  rcases arrowParts_rel hn with ⟨h1, h2⟩ | ⟨as, p1, p2, b1, b2, t1, t2, r1, r2, h1, h2, hp, hb, ht, hr⟩
  · rw [h1, h2]; exact ⟨hn, hs⟩
  · rw [h1, h2]
    dsimp only
    rw [hs.consts.isEmpty, hs.fields.2.2.2.2.1, hb.kind]
    split
    · split
      · exact ⟨hn, hs⟩
      · exact arrowBuild_rel as hp hb ht hr hs
    · exact ⟨hn, hs⟩

/-! ### `visit_mut_expr` after the children -/

theorem StSim.setLeft {s1 s2 : St} (h : StSim s1 s2) (x : Option Node) :
    StSim { s1 with assignmentLeft := x } { s2 with assignmentLeft := x } := by
  obtain ⟨hc, hl⟩ := h
  cases s1; cases s2
  simp only [St.core, Prod.mk.injEq, StSim] at *
  simp_all

def assignLeftOf : Node → Option (String × String)
  | .mk .assign _ [.mk .ident (name :: bind :: _) _, _] => some (name, bind)
  | _ => none

theorem exprHook_eq (o : Opts) (env : Env) (pos : Pos) (n : Node) (st : St) :
    exprHook o env pos n st =
      (if pos != .normal then (n, st)
       else if n.kind = .jsxElement then trElement o env n st
       else if n.kind = .jsxFragment then trFragment o env n st
       else match assignLeftOf n with
         | some (name, bind) => (n, { st with assignmentLeft := some (nIdent name bind) })
         | none => (n, st)) := by
  unfold exprHook
  split
  · rfl
  · cases n with
    | mk k as ks =>
      cases k <;> try (simp [Node.kind, assignLeftOf]; done)
      rcases ks with _ | ⟨l, _ | ⟨r, _ | ⟨z, zs⟩⟩⟩ <;> try (simp [Node.kind, assignLeftOf]; done)
      cases l with
      | mk k2 as2 ks2 =>
        cases k2 <;> try (simp [Node.kind, assignLeftOf]; done)
        rcases as2 with _ | ⟨nm, _ | ⟨bd, rr⟩⟩ <;> simp [Node.kind, assignLeftOf]

theorem assignLeftOf_rel {a b : Node} (h : HintRel a b) : assignLeftOf a = assignLeftOf b := by
  cases h with
  | vnode => simp [assignLeftOf]
  | node k as hl =>
    cases k <;> try (simp [assignLeftOf]; done)
    rcases hl with _ | ⟨h1, _ | ⟨h2, _ | ⟨h3, hl⟩⟩⟩ <;> try (simp [assignLeftOf]; done)
    cases h1 with
    | vnode => simp [assignLeftOf]
    | node k2 as2 hl2 =>
      cases k2 <;> try (simp [assignLeftOf]; done)
      rcases as2 with _ | ⟨nm, _ | ⟨bd, rr⟩⟩ <;> simp [assignLeftOf]

theorem exprHook_rel (o : Opts) (env : Env) (pos : Pos) {n1 n2 : Node} (hn : HintRel n1 n2) {s1 s2 : St} (hs : StSim s1 s2) :
    HintRel (exprHook { o with optimize := true } env pos n1 s1).1 (exprHook { o with optimize := false } env pos n2 s2).1 ∧
      StSim (exprHook { o with optimize := true } env pos n1 s1).2 (exprHook { o with optimize := false } env pos n2 s2).2 := by
  rw [exprHook_eq, exprHook_eq, hn.kind, assignLeftOf_rel hn]
  split
  · exact ⟨hn, hs⟩
  · split
    · exact trElement_rel o env hn hs
    · split
      · exact trFragment_rel o env hn hs
      · split
        · exact ⟨hn, hs.setLeft _⟩
        · exact ⟨hn, hs⟩

/-! ### `visit_mut_jsx_opening_element`: `v-models` -/

theorem HintRelL.filterMap {f : Node → Option Node} (hf : ∀ x y, HintRel x y → OptRel (f x) (f y)) {a b : List Node} (h : HintRelL a b) :
    HintRelL (a.filterMap f) (b.filterMap f) := by
  induction a generalizing b with
  | nil => cases h; exact .nil
  | cons x xs ih =>
    cases h with
    | cons hx hxs =>
      simp only [List.filterMap_cons]
      rcases (hf _ _ hx).elim with ⟨h1, h2⟩ | ⟨u, v, h1, h2, huv⟩
      · rw [h1, h2]; exact ih hxs
      · rw [h1, h2]; exact .cons huv (ih hxs)

def isVModelsAttr : Node → Bool
  | .mk .jsxAttr _ [.mk .ident (n :: _) _, _] => n == "v-models"
  | _ => false

theorem findVModels_cons (a : Node) (rest : List Node) (i : Nat) :
    findVModels (a :: rest) i = if isVModelsAttr a then some i else findVModels rest (i + 1) := by
  cases a with
  | mk k as ks =>
    cases k <;> try (simp [findVModels, isVModelsAttr]; done)
    rcases ks with _ | ⟨n, _ | ⟨v, _ | ⟨z, zs⟩⟩⟩ <;> try (simp [findVModels, isVModelsAttr]; done)
    cases n with
    | mk k2 as2 ks2 =>
      cases k2 <;> try (simp [findVModels, isVModelsAttr]; done)
      cases as2 <;> simp [findVModels, isVModelsAttr]

theorem isVModelsAttr_rel {a b : Node} (h : HintRel a b) : isVModelsAttr a = isVModelsAttr b := by
  cases h with
  | vnode => simp [isVModelsAttr]
  | node k as hl =>
    cases k <;> try (simp [isVModelsAttr]; done)
    rcases hl with _ | ⟨h1, _ | ⟨h2, _ | ⟨h3, hl⟩⟩⟩ <;> try (simp [isVModelsAttr]; done)
    cases h1 with
    | vnode => simp [isVModelsAttr]
    | node k2 as2 hl2 =>
      cases k2 <;> try (simp [isVModelsAttr]; done)
      cases as2 <;> simp [isVModelsAttr]

theorem findVModels_rel {a b : List Node} (h : HintRelL a b) (i : Nat) : findVModels a i = findVModels b i := by
  induction a generalizing b i with
  | nil => cases h; rfl
  | cons x xs ih =>
    cases h with
    | cons hx hxs => rw [findVModels_cons, findVModels_cons, isVModelsAttr_rel hx, ih hxs]

def vmValue (x : Option Node) : Node :=
  match x with
  | some (.mk .jsxAttr _ [_, v]) => v
  | _ => nNone

theorem vmValue_rel {a b : List Node} (h : HintRelL a b) (i : Nat) : HintRel (vmValue a[i]?) (vmValue b[i]?) := by
  rcases h.getElem? i with ⟨h1, h2⟩ | ⟨x, y, h1, h2, hxy⟩
  · rw [h1, h2]; exact HintRel.refl _
  · rw [h1, h2]
    cases hxy with
    | vnode => exact HintRel.refl _
    | node k as hl =>
      cases k <;> try (exact HintRel.refl _)
      rcases hl with _ | ⟨g1, _ | ⟨g2, _ | ⟨g3, hl⟩⟩⟩ <;> try (exact HintRel.refl _)
      exact g2

def decoupleStep (el : Node) : Option Node :=
  match el with
  | .mk .arg _ [.mk .array _ [.mk .list _ inner]] =>
    some (.mk .jsxAttr [] [nIdentName "v-model", .mk .jsxExprContainer [] [nArray inner]])
  | _ => none

theorem decoupleVModels_eq (elems : List Node) : decoupleVModels elems = elems.filterMap decoupleStep := rfl

theorem decoupleStep_rel (x y : Node) (h : HintRel x y) : OptRel (decoupleStep x) (decoupleStep y) := by
  cases h with
  | vnode => simp [decoupleStep, OptRel]
  | node k as hl =>
    cases k <;> try (simp [decoupleStep, OptRel]; done)
    rcases hl with _ | ⟨h1, _ | ⟨h2, hl⟩⟩ <;> try (simp [decoupleStep, OptRel]; done)
    cases h1 with
    | vnode => simp [decoupleStep, OptRel]
    | node k2 as2 hl2 =>
      cases k2 <;> try (simp [decoupleStep, OptRel]; done)
      rcases hl2 with _ | ⟨g1, _ | ⟨g2, hl2⟩⟩ <;> try (simp [decoupleStep, OptRel]; done)
      cases g1 with
      | vnode => simp [decoupleStep, OptRel]
      | node k3 as3 hl3 =>
        cases k3 <;> try (simp [decoupleStep, OptRel]; done)
        simp only [decoupleStep, OptRel]
        exact .node _ _ (.cons (HintRel.refl _) (.cons (.node _ _ (.cons (rel_nArray hl3) .nil)) .nil))

theorem decoupleVModels_rel {a b : List Node} (h : HintRelL a b) : HintRelL (decoupleVModels a) (decoupleVModels b) := by
  rw [decoupleVModels_eq, decoupleVModels_eq]
  exact h.filterMap decoupleStep_rel

def openingParts : Node → Option (List String × Node × List String × List Node × Node)
  | .mk .jsxOpening as [nameN, .mk .list las attrs, ta] => some (as, nameN, las, attrs, ta)
  | _ => none

def openingCore (n : Node) (as : List String) (nameN : Node) (las : List String) (attrs : List Node) (ta : Node) (st : St) : Node × St :=
  match findVModels attrs 0 with
  | none => (n, st)
  | some idx =>
    let value := vmValue attrs[idx]?
    let before := attrs.take idx
    let after := attrs.drop (idx + 1)
    let msg := "Error: you should pass a Two-dimensional Arrays to v-models"
    match containerExpr value with
    | none => (.mk .jsxOpening as [nameN, .mk .list las (before ++ after), ta], st.err msg)
    | some e =>
      match arrayElems e with
      | none => (.mk .jsxOpening as [nameN, .mk .list las (before ++ after), ta], st.err msg)
      | some elems =>
        (.mk .jsxOpening as [nameN, .mk .list las (before ++ decoupleVModels elems ++ after), ta], st)

theorem openingHook_eq (n : Node) (st : St) :
    openingHook n st =
      (match openingParts n with
       | some (as, nameN, las, attrs, ta) => openingCore n as nameN las attrs ta st
       | none => (n, st)) := by
  cases n with
  | mk k as ks =>
    cases k <;> try (simp [openingHook, openingParts]; done)
    rcases ks with _ | ⟨nm, _ | ⟨l, _ | ⟨t, _ | ⟨z, zs⟩⟩⟩⟩ <;> try (simp [openingHook, openingParts]; done)
    cases l with
    | mk k2 as2 ks2 =>
      cases k2 <;> try (simp [openingHook, openingParts]; done)
      simp only [openingHook, openingParts, openingCore, vmValue]
      rfl

theorem openingParts_rel {a b : Node} (h : HintRel a b) :
    (openingParts a = none ∧ openingParts b = none) ∨
    ∃ as las n1 n2 at1 at2 t1 t2, openingParts a = some (as, n1, las, at1, t1) ∧ openingParts b = some (as, n2, las, at2, t2) ∧
      HintRel n1 n2 ∧ HintRelL at1 at2 ∧ HintRel t1 t2 := by
  cases h with
  | vnode => simp [openingParts]
  | node k as hl =>
    cases k <;> try (simp [openingParts]; done)
    rcases hl with _ | ⟨h1, _ | ⟨h2, _ | ⟨h3, _ | ⟨h4, hl⟩⟩⟩⟩ <;> try (simp [openingParts]; done)
    cases h2 with
    | vnode => simp [openingParts]
    | node k2 as2 hl2 =>
      cases k2 <;> try (simp [openingParts]; done)
      exact .inr ⟨_, _, _, _, _, _, _, _, rfl, rfl, h1, hl2, h3⟩

theorem rel_opening (as las : List String) {n1 n2 t1 t2 : Node} {a1 a2 : List Node} (hn : HintRel n1 n2) (ha : HintRelL a1 a2) (ht : HintRel t1 t2) :
    HintRel (.mk .jsxOpening as [n1, .mk .list las a1, t1]) (.mk .jsxOpening as [n2, .mk .list las a2, t2]) :=
  .node _ _ (.cons hn (.cons (.node _ _ ha) (.cons ht .nil)))

theorem openingHook_rel {n1 n2 : Node} (hn : HintRel n1 n2) {s1 s2 : St} (hs : StSim s1 s2) :
    HintRel (openingHook n1 s1).1 (openingHook n2 s2).1 ∧ StSim (openingHook n1 s1).2 (openingHook n2 s2).2 := by
  rw [openingHook_eq, openingHook_eq]
  rcases openingParts_rel hn with ⟨h1, h2⟩ | ⟨as, las, m1, m2, at1, at2, t1, t2, h1, h2, hm, hat, ht⟩
  · rw [h1, h2]; exact ⟨hn, hs⟩
  · rw [h1, h2]
    dsimp only
    unfold openingCore
    rw [findVModels_rel hat 0]
    cases hf : findVModels at2 0 with
    | none => exact ⟨hn, hs⟩
    | some idx =>
      dsimp only
      have hba : HintRelL (List.take idx at1 ++ List.drop (idx + 1) at1) (List.take idx at2 ++ List.drop (idx + 1) at2) :=
        (hat.take idx).append (hat.drop (idx + 1))
      rcases (containerExpr_rel (vmValue_rel hat idx)).elim with ⟨c1, c2⟩ | ⟨e1, e2, c1, c2, he⟩
      · rw [c1, c2]; exact ⟨rel_opening _ _ hm hba ht, hs.err _⟩
      · rw [c1, c2]
        dsimp only
        rcases (arrayElems_rel he).elim with ⟨g1, g2⟩ | ⟨l1, l2, g1, g2, hl⟩
        · rw [g1, g2]; exact ⟨rel_opening _ _ hm hba ht, hs.err _⟩
        · rw [g1, g2]
          exact ⟨rel_opening _ _ hm (((hat.take idx).append (decoupleVModels_rel hl)).append (hat.drop (idx + 1))) ht, hs⟩

/-! ### `visit_mut_import_decl` -/

def importSpecView (s : Node) : Option String :=
  match s with
  | .mk .importSpec _ [local_, .mk .none _ _] => if identName local_ == "defineComponent" then some (identBind local_) else none
  | _ => none

theorem importedDefineComponent_eq (specs : List Node) : importedDefineComponent specs = specs.findSome? importSpecView := rfl

theorem importSpecView_rel {a b : Node} (h : HintRel a b) : importSpecView a = importSpecView b := by
  cases h with
  | vnode => simp [importSpecView]
  | node k as hl =>
    cases k <;> try (simp [importSpecView]; done)
    rcases hl with _ | ⟨h1, _ | ⟨h2, _ | ⟨h3, hl⟩⟩⟩ <;> try (simp [importSpecView]; done)
    have e1 := h1.identName
    have e2 := h1.identBind
    cases h2 with
    | vnode => simp [importSpecView]
    | node k2 as2 hl2 => cases k2 <;> simp [importSpecView, e1, e2]

theorem importedDefineComponent_rel {a b : List Node} (h : HintRelL a b) : importedDefineComponent a = importedDefineComponent b := by
  rw [importedDefineComponent_eq, importedDefineComponent_eq]
  induction a generalizing b with
  | nil => cases h; rfl
  | cons x xs ih =>
    cases h with
    | cons hx hxs => simp only [List.findSome?_cons, importSpecView_rel hx, ih hxs]

/-- what `importHook` reads from the declaration: the source and the binding of a named `defineComponent` specifier -/
def importView (n : Node) : Option (String × Option String) :=
  match n with
  | .mk .importDecl _ (.mk .list _ specs :: .mk .str (src :: _) _ :: _) => some (src, importedDefineComponent specs)
  | _ => none

theorem importHook_eq (n : Node) (st : St) :
    importHook n st =
      (match importView n with
       | some (src, dc) => if src != "vue" then st else (match dc with | some b => { st with defineComponent := some b } | none => st)
       | none => st) := by
  cases n with
  | mk k as ks =>
    cases k <;> try (simp [importHook, importView]; done)
    rcases ks with _ | ⟨l, _ | ⟨s, r⟩⟩ <;> try (simp [importHook, importView]; done)
    cases l with
    | mk k1 as1 ks1 =>
      cases k1 <;> try (simp [importHook, importView]; done)
      cases s with
      | mk k2 as2 ks2 =>
        cases k2 <;> try (simp [importHook, importView]; done)
        cases as2 with
        | nil => simp [importHook, importView]
        | cons src tl =>
          simp only [importHook, importView]
          split
          · rfl
          · split <;> simp_all

theorem importView_rel {a b : Node} (h : HintRel a b) : importView a = importView b := by
  cases h with
  | vnode => simp [importView]
  | node k as hl =>
    cases k <;> try (simp [importView]; done)
    rcases hl with _ | ⟨h1, _ | ⟨h2, hl⟩⟩ <;> try (simp [importView]; done)
    cases h1 with
    | vnode => simp [importView]
    | node k1 as1 hl1 =>
      cases k1 <;> try (simp [importView]; done)
      cases h2 with
      | vnode => simp [importView]
      | node k2 as2 hl2 =>
        cases k2 <;> try (simp [importView]; done)
        cases as2 <;> simp [importView, importedDefineComponent_rel hl1]

theorem StSim.setDc {s1 s2 : St} (h : StSim s1 s2) (x : Option String) :
    StSim { s1 with defineComponent := x } { s2 with defineComponent := x } := by
  obtain ⟨hc, hl⟩ := h
  cases s1; cases s2
  simp only [St.core, Prod.mk.injEq, StSim] at *
  simp_all

theorem importHook_rel {n1 n2 : Node} (hn : HintRel n1 n2) {s1 s2 : St} (hs : StSim s1 s2) : StSim (importHook n1 s1) (importHook n2 s2) := by
  rw [importHook_eq, importHook_eq, importView_rel hn]
  split
  · split
    · exact hs
    · split
      · exact hs.setDc _
      · exact hs
  · exact hs

theorem kindHook_rel (o : Opts) (env : Env) (hrt : o.resolveType = false) {n1 n2 : Node} (hn : HintRel n1 n2) {s1 s2 : St} (hs : StSim s1 s2) :
    HintRel (kindHook { o with optimize := true } env n1 s1).1 (kindHook { o with optimize := false } env n2 s2).1 ∧
      StSim (kindHook { o with optimize := true } env n1 s1).2 (kindHook { o with optimize := false } env n2 s2).2 := by
  have ho := openingHook_rel hn hs
  have hi := importHook_rel hn hs
  cases hn with
  | vnode => exact ⟨by simpa [kindHook, callHook, hrt] using HintRel.vnode _ _ _ _ _ ‹_› ‹_› ‹_› ‹_›, by simpa [kindHook, callHook, hrt] using hs⟩
  | node k as hl =>
    cases k <;> try (exact ⟨by simpa [kindHook] using HintRel.node _ _ hl, by simpa [kindHook] using hs⟩)
    · exact ⟨by simpa [kindHook] using HintRel.node _ _ hl, by simpa [kindHook] using hi⟩
    · exact ⟨by simpa [kindHook, declaratorHook, hrt] using HintRel.node _ _ hl, by simpa [kindHook, declaratorHook, hrt] using hs⟩
    · exact ⟨by simpa [kindHook, callHook, hrt] using HintRel.node _ _ hl, by simpa [kindHook, callHook, hrt] using hs⟩
    · exact ⟨by simpa [kindHook] using ho.1, by simpa [kindHook] using ho.2⟩

/-! ### the traversal -/

theorem visit_stmts_eq (o : Opts) (env : Env) (as : List String) (ks : List Node) (pos : Pos) (st : St) :
    visit o env (.mk .stmts as ks) pos st =
      (.mk .stmts as (drainInto (visitKids o env .stmts pos 0 ks st.clearPending).1 (visitKids o env .stmts pos 0 ks st.clearPending).2).1,
       { (drainInto (visitKids o env .stmts pos 0 ks st.clearPending).1 (visitKids o env .stmts pos 0 ks st.clearPending).2).2 with
           injectingConsts := st.injectingConsts, injectingVars := st.injectingVars }) := by
  unfold visit
  rfl

theorem visit_arrow_cons_eq (o : Opts) (env : Env) (as : List String) (params : Node) (rest : List Node) (pos : Pos) (st : St) :
    visit o env (.mk .arrow as (params :: rest)) pos st =
      (let r1 := visit o env params (kidPos .arrow pos 0) st
       let r2 := visitKids o env .arrow pos 1 rest r1.2.clearPending
       let r3 := drainArrow (.mk .arrow as (r1.1 :: r2.1)) r2.2
       exprHook o env pos r3.1 { r3.2 with injectingConsts := r1.2.injectingConsts ++ r3.2.injectingConsts,
                                            injectingVars := r1.2.injectingVars ++ r3.2.injectingVars }) := by
  conv => lhs; unfold visit

theorem visitKids_nil (o : Opts) (env : Env) (k : K) (pos : Pos) (i : Nat) (st : St) : visitKids o env k pos i [] st = ([], st) := by
  unfold visitKids; rfl

theorem visitKids_cons (o : Opts) (env : Env) (k : K) (pos : Pos) (i : Nat) (c : Node) (cs : List Node) (st : St) :
    visitKids o env k pos i (c :: cs) st =
      ((visit o env c (kidPos k pos i) st).1 :: (visitKids o env k pos (i + 1) cs (visit o env c (kidPos k pos i) st).2).1,
       (visitKids o env k pos (i + 1) cs (visit o env c (kidPos k pos i) st).2).2) := by
  conv => lhs; unfold visitKids

theorem visit_rel_aux (o : Opts) (env : Env) (hrt : o.resolveType = false) (m : Nat) :
    (∀ n pos s1 s2, sizeOf n ≤ m → StSim s1 s2 →
      HintRel (visit { o with optimize := true } env n pos s1).1 (visit { o with optimize := false } env n pos s2).1 ∧
      StSim (visit { o with optimize := true } env n pos s1).2 (visit { o with optimize := false } env n pos s2).2) ∧
    (∀ k pos i (ks : List Node) s1 s2, sizeOf ks ≤ m → StSim s1 s2 →
      HintRelL (visitKids { o with optimize := true } env k pos i ks s1).1 (visitKids { o with optimize := false } env k pos i ks s2).1 ∧
      StSim (visitKids { o with optimize := true } env k pos i ks s1).2 (visitKids { o with optimize := false } env k pos i ks s2).2) := by
  induction m with
  | zero =>
    refine ⟨?_, ?_⟩
    · intro n pos s1 s2 hs; cases n; simp at hs
    · intro k pos i ks s1 s2 hs; cases ks <;> simp at hs
  | succ m ih =>
    obtain ⟨ihV, ihK⟩ := ih
    refine ⟨?_, ?_⟩
    · intro n pos s1 s2 hsz hs
      cases n with
      | mk k as ks =>
        have hks : sizeOf ks ≤ m := by simp at hsz; omega
        by_cases hst : k = .stmts
        · subst hst
          rw [visit_stmts_eq, visit_stmts_eq]
          obtain ⟨k1, k2⟩ := ihK .stmts pos 0 ks _ _ hks hs.clearPending
          obtain ⟨d1, d2⟩ := drainInto_rel k1 k2
          exact ⟨.node _ _ d1, d2.restore hs⟩
        · by_cases har : k = .arrow
          · subst har
            cases ks with
            | nil =>
              rw [visit_arrow_nil, visit_arrow_nil]
              obtain ⟨q1, q2⟩ := kindHook_rel o env hrt (HintRel.refl (Node.mk .arrow as [])) hs
              exact exprHook_rel o env pos q1 q2
            | cons params rest =>
              rw [visit_arrow_cons_eq, visit_arrow_cons_eq]
              dsimp only
              obtain ⟨p1, p2⟩ := ihV params (kidPos .arrow pos 0) s1 s2 (by simp at hsz; omega) hs
              obtain ⟨r1, r2⟩ := ihK .arrow pos 1 rest _ _ (by simp at hsz; omega) p2.clearPending
              obtain ⟨a1, a2⟩ := drainArrow_rel (HintRel.node .arrow as (.cons p1 r1)) r2
              exact exprHook_rel o env pos a1 (a2.restoreAppend p2)
          · rw [visit_generic _ env k as ks pos s1 hst har, visit_generic _ env k as ks pos s2 hst har]
            obtain ⟨k1, k2⟩ := ihK k pos 0 ks s1 s2 hks hs
            obtain ⟨q1, q2⟩ := kindHook_rel o env hrt (HintRel.node k as k1) k2
            exact exprHook_rel o env pos q1 q2
    · intro k pos i ks s1 s2 hsz hs
      cases ks with
      | nil => rw [visitKids_nil, visitKids_nil]; exact ⟨.nil, hs⟩
      | cons c cs =>
        rw [visitKids_cons, visitKids_cons]
        obtain ⟨c1, c2⟩ := ihV c (kidPos k pos i) s1 s2 (by simp at hsz; omega) hs
        obtain ⟨r1, r2⟩ := ihK k pos (i + 1) cs _ _ (by simp at hsz; omega) c2
        exact ⟨.cons c1 r1, r2⟩

theorem visit_rel (o : Opts) (env : Env) (hrt : o.resolveType = false) (n : Node) (pos : Pos) {s1 s2 : St} (hs : StSim s1 s2) :
    HintRel (visit { o with optimize := true } env n pos s1).1 (visit { o with optimize := false } env n pos s2).1 ∧
      StSim (visit { o with optimize := true } env n pos s1).2 (visit { o with optimize := false } env n pos s2).2 :=
  (visit_rel_aux o env hrt (sizeOf n)).1 n pos s1 s2 (Nat.le_refl _) hs

theorem visitKids_rel (o : Opts) (env : Env) (hrt : o.resolveType = false) (k : K) (pos : Pos) (i : Nat) (ks : List Node) {s1 s2 : St} (hs : StSim s1 s2) :
    HintRelL (visitKids { o with optimize := true } env k pos i ks s1).1 (visitKids { o with optimize := false } env k pos i ks s2).1 ∧
      StSim (visitKids { o with optimize := true } env k pos i ks s1).2 (visitKids { o with optimize := false } env k pos i ks s2).2 :=
  (visit_rel_aux o env hrt (sizeOf ks)).2 k pos i ks s1 s2 (Nat.le_refl _) hs

/-! ### the module -/

theorem buildSlotHelper_rel (h iv : Node) {s1 s2 : St} (hs : StSim s1 s2) :
    (buildSlotHelper h iv s1).1 = (buildSlotHelper h iv s2).1 ∧ StSim (buildSlotHelper h iv s1).2 (buildSlotHelper h iv s2).2 := by
  unfold buildSlotHelper
  obtain ⟨f1, f2⟩ := hs.fresh "s"
  rcases e1 : s1.fresh "s" with ⟨id1, t1⟩
  rcases e2 : s2.fresh "s" with ⟨id2, t2⟩
  rw [e1, e2] at f1 f2
  dsimp only at f1 f2 ⊢
  subst f1
  exact ⟨rfl, f2⟩

/-- the slot-helper stage of `finishModule` -/
def finishHelper (items : List Node) (st : St) : List Node × St :=
  match st.slotHelper with
  | some h =>
    let (isVNode, st) := st.importFromVue "isVNode"
    let (decl, st) := buildSlotHelper h isVNode st
    (decl :: items, st)
  | none => (items, st)

/-- the import stage of `finishModule` -/
def finishImports (items : List Node) (st : St) : List Node :=
  let items :=
    match st.transformOnHelper with
    | some h => nImportDecl [.mk .importDefault [] [h]] "@vue/babel-helper-vue-transform-on" :: items
    | none => items
  if !st.imports.isEmpty then
    nImportDecl (st.imports.map fun p => .mk .importSpec ["false"] [p.2, nQuoteIdent p.1]) "vue" :: items
  else items

theorem finishModule_eq (items : List Node) (st : St) :
    finishModule items st =
      (finishImports (finishHelper (drainInto items st).1 (drainInto items st).2).1 (finishHelper (drainInto items st).1 (drainInto items st).2).2,
       (finishHelper (drainInto items st).1 (drainInto items st).2).2) := by
  unfold finishModule finishImports finishHelper
  rcases drainInto items st with ⟨i, s⟩
  dsimp only
  cases s.slotHelper <;> rfl

theorem finishHelper_rel {i1 i2 : List Node} (hi : HintRelL i1 i2) {s1 s2 : St} (hs : StSim s1 s2) :
    HintRelL (finishHelper i1 s1).1 (finishHelper i2 s2).1 ∧ StSim (finishHelper i1 s1).2 (finishHelper i2 s2).2 := by
  unfold finishHelper
  rw [hs.fields.2.2.2.1]
  split
  · obtain ⟨v1, v2⟩ := hs.importFromVue "isVNode"
    rcases e1 : s1.importFromVue "isVNode" with ⟨iv1, t1⟩
    rcases e2 : s2.importFromVue "isVNode" with ⟨iv2, t2⟩
    rw [e1, e2] at v1 v2
    dsimp only at v1 v2 ⊢
    subst v1
    obtain ⟨b1, b2⟩ := buildSlotHelper_rel _ iv1 v2
    rcases f1 : buildSlotHelper _ iv1 t1 with ⟨d1, u1⟩
    rcases f2 : buildSlotHelper _ iv1 t2 with ⟨d2, u2⟩
    rw [f1, f2] at b1 b2
    dsimp only at b1 b2 ⊢
    subst b1
    exact ⟨.cons (HintRel.refl _) hi, b2⟩
  · exact ⟨hi, hs⟩

theorem finishImports_rel {i1 i2 : List Node} (hi : HintRelL i1 i2) {s1 s2 : St} (hs : StSim s1 s2) :
    HintRelL (finishImports i1 s1) (finishImports i2 s2) := by
  unfold finishImports
  rw [hs.fields.1, hs.fields.2.1]
  have h1 : HintRelL (match s2.transformOnHelper with
        | some h => nImportDecl [.mk .importDefault [] [h]] "@vue/babel-helper-vue-transform-on" :: i1
        | none => i1)
      (match s2.transformOnHelper with
        | some h => nImportDecl [.mk .importDefault [] [h]] "@vue/babel-helper-vue-transform-on" :: i2
        | none => i2) := by
    split
    · exact .cons (HintRel.refl _) hi
    · exact hi
  dsimp only
  split
  · exact .cons (HintRel.refl _) h1
  · exact h1

theorem finishModule_rel {i1 i2 : List Node} (hi : HintRelL i1 i2) {s1 s2 : St} (hs : StSim s1 s2) :
    HintRelL (finishModule i1 s1).1 (finishModule i2 s2).1 ∧ StSim (finishModule i1 s1).2 (finishModule i2 s2).2 := by
  rw [finishModule_eq, finishModule_eq]
  obtain ⟨d1, d2⟩ := drainInto_rel hi hs
  obtain ⟨h1, h2⟩ := finishHelper_rel d1 d2
  exact ⟨finishImports_rel h1 h2, h2⟩

theorem transformModule_rel (o : Opts) (env : Env) (hrt : o.resolveType = false) (m : Node) :
    HintRel (transformModule { o with optimize := true } env m).1 (transformModule { o with optimize := false } env m).1 ∧
      StSim (transformModule { o with optimize := true } env m).2 (transformModule { o with optimize := false } env m).2 := by
  generalize ho1 : ({ o with optimize := true } : Opts) = o1
  generalize ho2 : ({ o with optimize := false } : Opts) = o2
  have h1 : o1.resolveType = false := by rw [← ho1]; exact hrt
  have h2 : o2.resolveType = false := by rw [← ho2]; exact hrt
  unfold transformModule
  split
  · rename_i as las items restKids
    simp only [h1, h2, Bool.false_eq_true, if_false]
    subst ho1 ho2
    obtain ⟨a1, a2⟩ := visitKids_rel o env hrt .list .normal 0 items (StSim.refl (scanPragmas env {}))
    rcases e1 : visitKids { o with optimize := true } env .list .normal 0 items (scanPragmas env {}) with ⟨it1, t1⟩
    rcases e2 : visitKids { o with optimize := false } env .list .normal 0 items (scanPragmas env {}) with ⟨it2, t2⟩
    rw [e1, e2] at a1 a2
    dsimp only at a1 a2 ⊢
    obtain ⟨b1, b2⟩ := visitKids_rel o env hrt .module .normal 1 restKids a2
    rcases f1 : visitKids { o with optimize := true } env .module .normal 1 restKids t1 with ⟨rk1, u1⟩
    rcases f2 : visitKids { o with optimize := false } env .module .normal 1 restKids t2 with ⟨rk2, u2⟩
    rw [f1, f2] at b1 b2
    dsimp only at b1 b2 ⊢
    obtain ⟨c1, c2⟩ := finishModule_rel a1 b2
    rcases g1 : finishModule it1 u1 with ⟨fi1, v1⟩
    rcases g2 : finishModule it2 u2 with ⟨fi2, v2⟩
    rw [g1, g2] at c1 c2
    dsimp only at c1 c2 ⊢
    exact ⟨.node _ _ (.cons (.node _ _ c1) b1), c2⟩
  · exact ⟨HintRel.refl _, StSim.refl _⟩

end VueJsx
