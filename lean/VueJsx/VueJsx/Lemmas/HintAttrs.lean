/-
  HintAttrs: simulation lemmas (C12) for the attribute fold: builders, `dedupe_props`, `attrStep`, `assembleProps`.
-/
import VueJsx.Lemmas.HintSim

namespace VueJsx
open Text

/-! ### builders preserve the relation -/

theorem rel_nArg {a b : Node} (h : HintRel a b) : HintRel (nArg a) (nArg b) := .node _ _ (.cons h .nil)
theorem rel_nSpreadArg {a b : Node} (h : HintRel a b) : HintRel (nSpreadArg a) (nSpreadArg b) := .node _ _ (.cons h .nil)
theorem rel_nSpreadElement {a b : Node} (h : HintRel a b) : HintRel (nSpreadElement a) (nSpreadElement b) := .node _ _ (.cons h .nil)
theorem rel_nComputed {a b : Node} (h : HintRel a b) : HintRel (nComputed a) (nComputed b) := .node _ _ (.cons h .nil)
theorem rel_nKV {k1 k2 v1 v2 : Node} (hk : HintRel k1 k2) (hv : HintRel v1 v2) : HintRel (nKV k1 v1) (nKV k2 v2) :=
  .node _ _ (.cons hk (.cons hv .nil))
theorem rel_nList {a b : List Node} (h : HintRelL a b) : HintRel (nList a) (nList b) := .node _ _ h
theorem rel_nObject {a b : List Node} (h : HintRelL a b) : HintRel (nObject a) (nObject b) := .node _ _ (.cons (rel_nList h) .nil)
theorem rel_nArray {a b : List Node} (h : HintRelL a b) : HintRel (nArray a) (nArray b) := .node _ _ (.cons (rel_nList h) .nil)
theorem rel_nCall (f : Node) {a b : List Node} (h : HintRelL a b) : HintRel (nCall f a) (nCall f b) :=
  .node _ _ (.cons (HintRel.refl f) (.cons (rel_nList h) (.cons (HintRel.refl _) .nil)))
theorem rel_nBin (op : String) {a1 a2 b1 b2 : Node} (ha : HintRel a1 a2) (hb : HintRel b1 b2) : HintRel (nBin op a1 b1) (nBin op a2 b2) :=
  .node _ _ (.cons ha (.cons hb .nil))
theorem rel_nCond {t1 t2 c1 c2 a1 a2 : Node} (ht : HintRel t1 t2) (hc : HintRel c1 c2) (ha : HintRel a1 a2) :
    HintRel (nCond t1 c1 a1) (nCond t2 c2 a2) := .node _ _ (.cons ht (.cons hc (.cons ha .nil)))
theorem rel_nAssignParen {t1 t2 v1 v2 : Node} (ht : HintRel t1 t2) (hv : HintRel v1 v2) :
    HintRel (nAssignParen t1 v1) (nAssignParen t2 v2) := .node _ _ (.cons (.node _ _ (.cons ht .nil)) (.cons hv .nil))
theorem rel_nArrow (ps : List Node) {b1 b2 : Node} (hb : HintRel b1 b2) : HintRel (nArrow ps b1) (nArrow ps b2) :=
  .node _ _ (.cons (HintRel.refl _) (.cons hb (.cons (HintRel.refl _) (.cons (HintRel.refl _) .nil))))
theorem rel_nModelListener {t1 t2 : Node} (h : HintRel t1 t2) : HintRel (nModelListener t1) (nModelListener t2) :=
  rel_nArrow _ (rel_nAssignParen h (HintRel.refl _))

theorem HintRelL.snoc {a b : List Node} {x y : Node} (h : HintRelL a b) (hx : HintRel x y) : HintRelL (a ++ [x]) (b ++ [y]) :=
  h.append (.cons hx .nil)

theorem HintRelL.mapArg {a b : List Node} (h : HintRelL a b) : HintRelL (a.map nArg) (b.map nArg) := by
  induction a generalizing b with
  | nil => cases h; exact .nil
  | cons x xs ih => cases h with | cons hx hxs => exact .cons (rel_nArg hx) (ih hxs)

/-! ### `dedupe_props` -/

/-- the parts of a key/value property whose key is a string literal -/
def kvStrParts : Node → Option (List String × String × List String × List Node × Node)
  | .mk .kv das [.mk .str (k :: kas) kks, dv] => some (das, k, kas, kks, dv)
  | _ => none

theorem kvStrParts_rel {a b : Node} (h : HintRel a b) :
    (kvStrParts a = none ∧ kvStrParts b = none) ∨
    ∃ das k kas kks1 kks2 dv1 dv2, kvStrParts a = some (das, k, kas, kks1, dv1) ∧ kvStrParts b = some (das, k, kas, kks2, dv2)
      ∧ HintRelL kks1 kks2 ∧ HintRel dv1 dv2 ∧ a = .mk .kv das [.mk .str (k :: kas) kks1, dv1] ∧ b = .mk .kv das [.mk .str (k :: kas) kks2, dv2] := by
  cases h with
  | vnode => simp [kvStrParts]
  | node k as hl =>
    cases k <;> try (simp [kvStrParts]; done)
    rcases hl with _ | ⟨h1, _ | ⟨h2, _ | ⟨h3, hl⟩⟩⟩ <;> try (simp [kvStrParts]; done)
    cases h1 with
    | vnode => simp [kvStrParts]
    | node k2 as2 hl2 =>
      cases k2 <;> try (simp [kvStrParts]; done)
      cases as2 with
      | nil => simp [kvStrParts]
      | cons s ss => exact .inr ⟨_, _, _, _, _, _, _, rfl, rfl, hl2, h2, rfl, rfl⟩

theorem mergeInto_rel {d1 d2 v1 v2 : Node} (hd : HintRel d1 d2) (hv : HintRel v1 v2) : HintRel (mergeInto d1 v1) (mergeInto d2 v2) := by
  have hgen : HintRel (nArray [nArg d1, nArg v1]) (nArray [nArg d2, nArg v2]) :=
    rel_nArray (.cons (rel_nArg hd) (.cons (rel_nArg hv) .nil))
  cases hd with
  | vnode => simpa [mergeInto] using hgen
  | node k as hl =>
    cases k <;> try (simpa [mergeInto] using hgen)
    rcases hl with _ | ⟨h1, _ | ⟨h2, hl⟩⟩ <;> try (simpa [mergeInto] using hgen)
    cases h1 with
    | vnode => simpa [mergeInto] using hgen
    | node k2 as2 hl2 =>
      cases k2 <;> try (simpa [mergeInto] using hgen)
      simp only [mergeInto]
      exact .node _ _ (.cons (.node _ _ (hl2.snoc (rel_nArg hv))) .nil)

theorem dedupeAdd_eq (name : String) (prop value d : Node) (ds : List Node) :
    dedupeAdd name prop value (d :: ds) =
      (match kvStrParts d with
       | some (das, k, kas, kks, dv) =>
         if k == name then
           (if isMergeKey name then .mk .kv das [.mk .str (k :: kas) kks, mergeInto dv value] :: ds else d :: ds)
         else d :: dedupeAdd name prop value ds
       | none => d :: dedupeAdd name prop value ds) := by
  cases d with
  | mk k as ks =>
    cases k <;> try (simp [dedupeAdd, kvStrParts]; done)
    rcases ks with _ | ⟨x, _ | ⟨y, _ | ⟨z, r⟩⟩⟩ <;> try (simp [dedupeAdd, kvStrParts]; done)
    cases x with
    | mk k2 as2 ks2 =>
      cases k2 <;> try (simp [dedupeAdd, kvStrParts]; done)
      cases as2 <;> simp [dedupeAdd, kvStrParts]

theorem dedupeAdd_rel (name : String) {p1 p2 v1 v2 : Node} (hp : HintRel p1 p2) (hv : HintRel v1 v2) {d1 d2 : List Node} (hd : HintRelL d1 d2) :
    HintRelL (dedupeAdd name p1 v1 d1) (dedupeAdd name p2 v2 d2) := by
  induction d1 generalizing d2 with
  | nil => cases hd; simpa [dedupeAdd] using HintRelL.cons hp .nil
  | cons x xs ih =>
    cases hd with
    | cons hx hxs =>
      rw [dedupeAdd_eq, dedupeAdd_eq]
      rcases kvStrParts_rel hx with ⟨h1, h2⟩ | ⟨das, k, kas, kks1, kks2, dv1, dv2, h1, h2, hk, hdv, -, -⟩
      · rw [h1, h2]; exact .cons hx (ih hxs)
      · rw [h1, h2]
        simp only
        split
        · split
          · exact .cons (.node _ _ (.cons (.node _ _ hk) (.cons (mergeInto_rel hdv hv) .nil))) hxs
          · exact .cons hx hxs
        · exact .cons hx (ih hxs)

/-- one step of the fold in `dedupe_props` -/
def dedupeStep (defined : List Node) (p : Node) : List Node :=
  match kvStrParts p with
  | some (_, k, _, _, v) => dedupeAdd k p v defined
  | none => defined ++ [p]

theorem dedupeProps_eq (props : List Node) : dedupeProps props = props.foldl dedupeStep [] := by
  unfold dedupeProps
  congr 1
  funext defined p
  unfold dedupeStep
  cases p with
  | mk k as ks =>
    cases k <;> try (simp [kvStrParts]; done)
    rcases ks with _ | ⟨x, _ | ⟨y, _ | ⟨z, r⟩⟩⟩ <;> try (simp [kvStrParts]; done)
    cases x with
    | mk k2 as2 ks2 =>
      cases k2 <;> try (simp [kvStrParts]; done)
      cases as2 <;> simp [kvStrParts]

theorem dedupeStep_rel {d1 d2 : List Node} (hd : HintRelL d1 d2) {p1 p2 : Node} (hp : HintRel p1 p2) :
    HintRelL (dedupeStep d1 p1) (dedupeStep d2 p2) := by
  unfold dedupeStep
  rcases kvStrParts_rel hp with ⟨h1, h2⟩ | ⟨das, k, kas, kks1, kks2, dv1, dv2, h1, h2, hk, hdv, -, -⟩
  · rw [h1, h2]; exact hd.snoc hp
  · rw [h1, h2]; exact dedupeAdd_rel k hp hdv hd

theorem foldl_dedupeStep_rel {p1 p2 : List Node} (hp : HintRelL p1 p2) {d1 d2 : List Node} (hd : HintRelL d1 d2) :
    HintRelL (p1.foldl dedupeStep d1) (p2.foldl dedupeStep d2) := by
  induction p1 generalizing p2 d1 d2 with
  | nil => cases hp; simpa using hd
  | cons x xs ih =>
    cases hp with
    | cons hx hxs => simp only [List.foldl_cons]; exact ih hxs (dedupeStep_rel hd hx)

theorem dedupeProps_rel {p1 p2 : List Node} (hp : HintRelL p1 p2) : HintRelL (dedupeProps p1) (dedupeProps p2) := by
  rw [dedupeProps_eq, dedupeProps_eq]
  exact foldl_dedupeStep_rel hp .nil

/-! ### the accumulator of the attribute fold -/

def DirTupRel (d1 d2 : String × Option Node × Option Node × Node) : Prop :=
  d1.1 = d2.1 ∧ OptRel d1.2.1 d2.2.1 ∧ OptRel d1.2.2.1 d2.2.2.1 ∧ HintRel d1.2.2.2 d2.2.2.2

inductive DirsRel : List (String × Option Node × Option Node × Node) → List (String × Option Node × Option Node × Node) → Prop
  | nil : DirsRel [] []
  | cons {x y xs ys} : DirTupRel x y → DirsRel xs ys → DirsRel (x :: xs) (y :: ys)

theorem DirsRel.snoc {a b} {x y} (h : DirsRel a b) (hx : DirTupRel x y) : DirsRel (a ++ [x]) (b ++ [y]) := by
  induction h with
  | nil => exact .cons hx .nil
  | cons h1 _ ih => exact .cons h1 ih

theorem DirsRel.isEmpty {a b} (h : DirsRel a b) : a.isEmpty = b.isEmpty := by cases h <;> rfl

def AttrAcc.flags (a : AttrAcc) := (a.dynamicProps, a.hasRef, a.hasClass, a.hasStyle, a.hasHydration, a.hasDynamicKeys)

def AccSim (a1 a2 : AttrAcc) : Prop :=
  a1.flags = a2.flags ∧ HintRelL a1.props a2.props ∧ HintRelL a1.mergeArgs a2.mergeArgs ∧ DirsRel a1.directives a2.directives
    ∧ OptRel a1.slots a2.slots

/-- an update of the analysis facts only (patch-flag booleans, dynamic-prop list) that does not read anything else -/
def FlagOnly (f : AttrAcc → AttrAcc) : Prop :=
  ∀ a, (f a).props = a.props ∧ (f a).mergeArgs = a.mergeArgs ∧ (f a).directives = a.directives ∧ (f a).slots = a.slots ∧
    ∀ b, a.flags = b.flags → (f a).flags = (f b).flags

theorem AccSim.flagOnly {f : AttrAcc → AttrAcc} (hf : FlagOnly f) {a1 a2 : AttrAcc} (h : AccSim a1 a2) : AccSim (f a1) (f a2) := by
  obtain ⟨hfl, hp, hm, hd, hs⟩ := h
  obtain ⟨p1, m1, d1, s1, fl1⟩ := hf a1
  obtain ⟨p2, m2, d2, s2, _⟩ := hf a2
  exact ⟨fl1 a2 hfl, by rw [p1, p2]; exact hp, by rw [m1, m2]; exact hm, by rw [d1, d2]; exact hd, by rw [s1, s2]; exact hs⟩

theorem flagOnly_hydrationStep (c : Bool) (n : String) : FlagOnly (hydrationStep c n) := by
  intro a
  unfold hydrationStep
  split
  · refine ⟨rfl, rfl, rfl, rfl, ?_⟩
    intro b hb
    cases a; cases b
    simp only [AttrAcc.flags, Prod.mk.injEq] at *
    simp_all
  · refine ⟨rfl, rfl, rfl, rfl, fun b hb => hb⟩

theorem flagOnly_coverStep (c : Bool) (n : String) : FlagOnly (coverStep c n) := by
  intro a
  unfold coverStep
  split
  · refine ⟨rfl, rfl, rfl, rfl, ?_⟩
    intro b hb; cases a; cases b; simp only [AttrAcc.flags, Prod.mk.injEq] at *; simp_all
  · split
    · refine ⟨rfl, rfl, rfl, rfl, ?_⟩
      intro b hb; cases a; cases b; simp only [AttrAcc.flags, Prod.mk.injEq] at *; simp_all
    · split
      · exact ⟨rfl, rfl, rfl, rfl, fun b hb => hb⟩
      · refine ⟨rfl, rfl, rfl, rfl, ?_⟩
        intro b hb; cases a; cases b; simp only [AttrAcc.flags, Prod.mk.injEq] at *; simp_all

theorem FlagOnly.comp {f g : AttrAcc → AttrAcc} (hf : FlagOnly f) (hg : FlagOnly g) : FlagOnly (fun a => f (g a)) := by
  intro a
  obtain ⟨p1, m1, d1, s1, fl1⟩ := hg a
  obtain ⟨p2, m2, d2, s2, fl2⟩ := hf (g a)
  refine ⟨p2.trans p1, m2.trans m1, d2.trans d1, s2.trans s1, ?_⟩
  intro b hb
  exact fl2 (g b) (fl1 b hb)

theorem plainAttrFlags_rel (c : Bool) (n : String) {v1 v2 : Node} (hv : HintRel v1 v2) (t : Bool) {a1 a2 : AttrAcc} (h : AccSim a1 a2) :
    AccSim (plainAttrFlags c n v1 t a1) (plainAttrFlags c n v2 t a2) := by
  unfold plainAttrFlags
  rw [hv.isNone, isAttrValueConstant_rel hv]
  split
  · apply AccSim.flagOnly (f := fun a => { a with hasDynamicKeys := true }) _ h
    intro a
    refine ⟨rfl, rfl, rfl, rfl, ?_⟩
    intro b hb; cases a; cases b; simp only [AttrAcc.flags, Prod.mk.injEq] at *; simp_all
  · split
    · apply AccSim.flagOnly (f := fun a => { a with hasRef := true }) _ h
      intro a
      refine ⟨rfl, rfl, rfl, rfl, ?_⟩
      intro b hb; cases a; cases b; simp only [AttrAcc.flags, Prod.mk.injEq] at *; simp_all
    · generalize (!(if VueJsx.isNone v2 = true then false else isAttrValueConstant v2)) = B
      cases B
      · simpa using h
      · simpa using AccSim.flagOnly ((flagOnly_coverStep c n).comp (flagOnly_hydrationStep c n)) h

/-! ### updates of the accumulator -/

theorem AccSim.pushProp {a1 a2 : AttrAcc} (h : AccSim a1 a2) {x y : Node} (hx : HintRel x y) :
    AccSim { a1 with props := a1.props ++ [x] } { a2 with props := a2.props ++ [y] } := by
  obtain ⟨hf, hp, hm, hd, hs⟩ := h
  exact ⟨hf, hp.snoc hx, hm, hd, hs⟩

theorem AccSim.addDyn {a1 a2 : AttrAcc} (h : AccSim a1 a2) (s : String) :
    AccSim { a1 with dynamicProps := insertUnique s a1.dynamicProps } { a2 with dynamicProps := insertUnique s a2.dynamicProps } := by
  obtain ⟨hf, hp, hm, hd, hs⟩ := h
  refine ⟨?_, hp, hm, hd, hs⟩
  cases a1; cases a2; simp only [AttrAcc.flags, Prod.mk.injEq] at *; simp_all

theorem AccSim.setDynKeys {a1 a2 : AttrAcc} (h : AccSim a1 a2) :
    AccSim { a1 with hasDynamicKeys := true } { a2 with hasDynamicKeys := true } := by
  obtain ⟨hf, hp, hm, hd, hs⟩ := h
  refine ⟨?_, hp, hm, hd, hs⟩
  cases a1; cases a2; simp only [AttrAcc.flags, Prod.mk.injEq] at *; simp_all

theorem AccSim.pushDir {a1 a2 : AttrAcc} (h : AccSim a1 a2) {d1 d2 : String × Option Node × Option Node × Node} (hd' : DirTupRel d1 d2) :
    AccSim { a1 with directives := a1.directives ++ [d1] } { a2 with directives := a2.directives ++ [d2] } := by
  obtain ⟨hf, hp, hm, hd, hs⟩ := h
  exact ⟨hf, hp, hm, hd.snoc hd', hs⟩

theorem AccSim.setSlots {a1 a2 : AttrAcc} (h : AccSim a1 a2) {e1 e2 : Option Node} (he : OptRel e1 e2) :
    AccSim { a1 with slots := e1 } { a2 with slots := e2 } := by
  obtain ⟨hf, hp, hm, hd, hs⟩ := h
  exact ⟨hf, hp, hm, hd, he⟩

theorem vmodelArgKind_rel {a1 a2 : Option Node} (h : OptRel a1 a2) :
    (vmodelArgKind a1).1 = (vmodelArgKind a2).1 ∧ (vmodelArgKind a1).2.1 = (vmodelArgKind a2).2.1 ∧
      HintRel (vmodelArgKind a1).2.2 (vmodelArgKind a2).2.2 := by
  rcases h.elim with ⟨h1, h2⟩ | ⟨x, y, h1, h2, hxy⟩
  · subst h1 h2; simp [vmodelArgKind, HintRel.refl]
  · subst h1 h2
    cases hxy with
    | vnode => simp [vmodelArgKind]; exact HintRel.vnode _ _ _ _ _ ‹_› ‹_› ‹_› ‹_›
    | node k as hl =>
      cases k <;> try (simp [vmodelArgKind]; exact HintRel.node _ _ hl)
      · cases as <;> simp [vmodelArgKind, HintRel.refl]
        exact HintRel.node _ _ hl
      · simp [vmodelArgKind, HintRel.refl]

theorem vmodelStepK_rel (c : Bool) (t : Nat) (s : String) {e1 e2 : Node} (he : HintRel e1 e2) {tr1 tr2 : Option Node} (htr : OptRel tr1 tr2)
    (m : Option Node) {v1 v2 : Node} (hv : HintRel v1 v2) {a1 a2 : AttrAcc} (h : AccSim a1 a2) :
    AccSim (vmodelStepK c (t, s, e1) tr1 m v1 a1) (vmodelStepK c (t, s, e2) tr2 m v2 a2) := by
  have hm : OptRel m m := OptRel.refl m
  have hdir : DirTupRel ("model", tr1, m, v1) ("model", tr2, m, v2) := ⟨rfl, htr, hm, hv⟩
  unfold vmodelStepK
  rcases t with _ | _ | t
  · -- default argument
    cases c <;> cases m <;> simp only [Bool.false_eq_true, if_false, if_true]
    · exact ((h.pushDir hdir).addDyn _).pushProp (rel_nKV (HintRel.refl _) (rel_nModelListener hv))
    · exact ((h.pushDir hdir).addDyn _).pushProp (rel_nKV (HintRel.refl _) (rel_nModelListener hv))
    · exact (((h.addDyn _).pushProp (rel_nKV (HintRel.refl _) hv)).addDyn _).pushProp (rel_nKV (HintRel.refl _) (rel_nModelListener hv))
    · exact ((((h.addDyn _).pushProp (rel_nKV (HintRel.refl _) hv)).pushProp (rel_nKV (HintRel.refl _) (HintRel.refl _))).addDyn _).pushProp
        (rel_nKV (HintRel.refl _) (rel_nModelListener hv))
  · cases c <;> cases m <;> simp only [Bool.false_eq_true, if_false, if_true]
    · exact ((h.pushDir hdir).addDyn _).pushProp (rel_nKV (HintRel.refl _) (rel_nModelListener hv))
    · exact ((h.pushDir hdir).addDyn _).pushProp (rel_nKV (HintRel.refl _) (rel_nModelListener hv))
    · exact (((h.addDyn _).pushProp (rel_nKV (HintRel.refl _) hv)).addDyn _).pushProp (rel_nKV (HintRel.refl _) (rel_nModelListener hv))
    · exact ((((h.addDyn _).pushProp (rel_nKV (HintRel.refl _) hv)).pushProp (rel_nKV (HintRel.refl _) (HintRel.refl _))).addDyn _).pushProp
        (rel_nKV (HintRel.refl _) (rel_nModelListener hv))
  · cases c <;> cases m <;> simp only [Bool.false_eq_true, if_false, if_true]
    · exact ((h.pushDir hdir).setDynKeys).pushProp (rel_nKV (rel_nComputed (rel_nBin _ (HintRel.refl _) he)) (rel_nModelListener hv))
    · exact ((h.pushDir hdir).setDynKeys).pushProp (rel_nKV (rel_nComputed (rel_nBin _ (HintRel.refl _) he)) (rel_nModelListener hv))
    · exact ((h.pushProp (rel_nKV (rel_nComputed he) hv)).setDynKeys).pushProp (rel_nKV (rel_nComputed (rel_nBin _ (HintRel.refl _) he)) (rel_nModelListener hv))
    · exact (((h.pushProp (rel_nKV (rel_nComputed he) hv)).pushProp (rel_nKV (rel_nComputed (rel_nBin _ he (HintRel.refl _))) (HintRel.refl _))).setDynKeys).pushProp
        (rel_nKV (rel_nComputed (rel_nBin _ (HintRel.refl _) he)) (rel_nModelListener hv))

theorem attrValueExpr_rel {v1 v2 : Node} (hv : HintRel v1 v2) {l1 l2 : Option Node} (hl : OptRel l1 l2) {s1 s2 : St} (hs : StSim s1 s2) :
    HintRel (attrValueExpr v1 l1 s1).1 (attrValueExpr v2 l2 s2).1 ∧ StSim (attrValueExpr v1 l1 s1).2 (attrValueExpr v2 l2 s2).2 := by
  rcases hl.elim with ⟨h1, h2⟩ | ⟨x, y, h1, h2, hxy⟩
  · subst h1 h2
    cases hv with
    | vnode => exact ⟨by simpa [attrValueExpr] using HintRel.vnode _ _ _ _ _ ‹_› ‹_› ‹_› ‹_›, by simpa [attrValueExpr] using hs.panic _⟩
    | node k as hl' =>
      cases k <;> try (exact ⟨by simpa [attrValueExpr] using HintRel.node _ _ hl', by simpa [attrValueExpr] using hs.panic _⟩)
      · -- str
        cases as with
        | nil => exact ⟨by simpa [attrValueExpr] using HintRel.node _ _ hl', by simpa [attrValueExpr] using hs.panic _⟩
        | cons a r => exact ⟨by simpa [attrValueExpr] using HintRel.refl _, by simpa [attrValueExpr] using hs⟩
      · -- jsxExprContainer
        rcases hl' with _ | ⟨g1, _ | ⟨g2, hl''⟩⟩
        · exact ⟨by simpa [attrValueExpr] using HintRel.refl _, by simpa [attrValueExpr] using hs.panic _⟩
        · exact ⟨by simpa [attrValueExpr] using g1, by simpa [attrValueExpr] using hs⟩
        · exact ⟨by simpa [attrValueExpr] using HintRel.node _ _ (.cons g1 (.cons g2 hl'')), by simpa [attrValueExpr] using hs.panic _⟩
      · -- none
        exact ⟨by simpa [attrValueExpr] using HintRel.refl _, by simpa [attrValueExpr] using hs⟩
  · subst h1 h2
    exact ⟨by simpa [attrValueExpr] using hxy, by simpa [attrValueExpr] using hs⟩

/-! ### one step of the attribute fold -/

def attrParts : Node → Option (Node × Node)
  | .mk .jsxAttr _ [n, v] => some (n, v)
  | _ => none

def spreadPart : Node → Option Node
  | .mk .spreadElement _ [e] => some e
  | _ => none

def objLitParts : Node → Option (List String × List String × List Node)
  | .mk .object oas [.mk .list las ps] => some (oas, las, ps)
  | _ => none

theorem attrParts_rel {a b : Node} (h : HintRel a b) :
    (attrParts a = none ∧ attrParts b = none) ∨ ∃ n1 n2 v1 v2, attrParts a = some (n1, v1) ∧ attrParts b = some (n2, v2) ∧ HintRel n1 n2 ∧ HintRel v1 v2 := by
  cases h with
  | vnode => simp [attrParts]
  | node k as hl =>
    cases k <;> try (simp [attrParts]; done)
    rcases hl with _ | ⟨h1, _ | ⟨h2, _ | ⟨h3, hl⟩⟩⟩ <;> try (simp [attrParts]; done)
    exact .inr ⟨_, _, _, _, rfl, rfl, h1, h2⟩

theorem spreadPart_rel {a b : Node} (h : HintRel a b) : OptRel (spreadPart a) (spreadPart b) := by
  cases h with
  | vnode => simp [spreadPart, OptRel]
  | node k as hl =>
    cases k <;> try (simp [spreadPart, OptRel]; done)
    rcases hl with _ | ⟨h1, _ | ⟨h2, hl⟩⟩ <;> try (simp [spreadPart, OptRel]; done)
    simpa [spreadPart, OptRel] using h1

theorem objLitParts_rel {a b : Node} (h : HintRel a b) :
    (objLitParts a = none ∧ objLitParts b = none) ∨
      ∃ oas las p1 p2, objLitParts a = some (oas, las, p1) ∧ objLitParts b = some (oas, las, p2) ∧ HintRelL p1 p2 := by
  cases h with
  | vnode => simp [objLitParts]
  | node k as hl =>
    cases k <;> try (simp [objLitParts]; done)
    rcases hl with _ | ⟨h1, _ | ⟨h2, hl⟩⟩ <;> try (simp [objLitParts]; done)
    cases h1 with
    | vnode => simp [objLitParts]
    | node k2 as2 hl2 =>
      cases k2 <;> try (simp [objLitParts]; done)
      exact .inr ⟨_, _, _, _, rfl, rfl, hl2⟩

/-- the prop name of a plain attribute -/
def attrNameStr (name : AttrName) : String :=
  match name with
  | .plain s => s
  | .ns ns n => ns ++ ":" ++ n
  | .bad => ""

/-- the `_transformOn` helper identifier, created on first use -/
def tonHelper (st : St) : Node × St :=
  match st.transformOnHelper with
  | some h => (h, st)
  | none =>
    let (h, st) := st.fresh "_transformOn"
    (h, { st with transformOnHelper := some h })

/-- the plain-attribute / directive arm of `attrStep` -/
def attrCore (o : Opts) (isComponent : Bool) (nameN valueN : Node) (lowered : Option Node) (acc : AttrAcc) (st : St) : AttrAcc × St :=
  let name := attrNameOf nameN
  if isDirectiveAttrName name then
    let (d, st) := parseDirective name valueN isComponent st
    match d with
    | .normal n arg mods v => ({ acc with directives := acc.directives ++ [(n, arg, mods, v)] }, st)
    | .html e =>
      ({ acc with props := acc.props ++ [nKV (nStr "innerHTML") e],
                  dynamicProps := insertUnique "innerHTML" acc.dynamicProps }, st)
    | .text e =>
      ({ acc with props := acc.props ++ [nKV (nStr "textContent") e],
                  dynamicProps := insertUnique "textContent" acc.dynamicProps }, st)
    | .vmodel arg targ mods v => (vmodelStep o isComponent arg targ mods v acc, st)
    | .slots e => ({ acc with slots := e }, st)
  else
    let attrName := attrNameStr name
    let (attrValue, st) := attrValueExpr valueN lowered st
    let isTransformOn := o.transformOn && (attrName == "on" || attrName == "nativeOn")
    let acc := plainAttrFlags isComponent attrName valueN isTransformOn acc
    if isTransformOn then
      let (helper, st) := tonHelper st
      let acc :=
        if !acc.props.isEmpty then
          { acc with mergeArgs := acc.mergeArgs ++ [nObject (if o.mergeProps then dedupeProps acc.props else acc.props)],
                     props := [] }
        else acc
      ({ acc with mergeArgs := acc.mergeArgs ++ [nCall helper [nArg attrValue]] }, st)
    else
      ({ acc with props := acc.props ++ [nKV (nStr attrName) attrValue] }, st)

/-- the spread arm of `attrStep` -/
def spreadCore (o : Opts) (e : Node) (acc : AttrAcc) (st : St) : AttrAcc × St :=
  let acc := { acc with hasDynamicKeys := true }
  let acc :=
    if !acc.props.isEmpty && o.mergeProps then
      { acc with mergeArgs := acc.mergeArgs ++ [nObject (dedupeProps acc.props)], props := [] }
    else acc
  match objLitParts e with
  | some (oas, las, oprops) =>
    if o.mergeProps then ({ acc with mergeArgs := acc.mergeArgs ++ [.mk .object oas [.mk .list las oprops]] }, st)
    else ({ acc with props := acc.props ++ oprops }, st)
  | none =>
    if o.mergeProps then ({ acc with mergeArgs := acc.mergeArgs ++ [e] }, st)
    else ({ acc with props := acc.props ++ [nSpreadElement e] }, st)

theorem attrStep_eq (o : Opts) (c : Bool) (a : Node) (l : Option Node) (acc : AttrAcc) (st : St) :
    attrStep o c a l acc st =
      (match attrParts a with
       | some (n, v) => attrCore o c n v l acc st
       | none =>
         match spreadPart a with
         | some e => spreadCore o e acc st
         | none => (acc, st.panic "ill-formed attribute")) := by
  cases a with
  | mk k as ks =>
    cases k <;> try (simp [attrStep, attrParts, spreadPart]; done)
    · -- spreadElement
      rcases ks with _ | ⟨e, _ | ⟨y, r⟩⟩ <;> try (simp [attrStep, attrParts, spreadPart]; done)
      simp only [attrStep, attrParts, spreadPart, spreadCore]
      cases e with
      | mk k2 as2 ks2 =>
        cases k2 <;> try (simp [objLitParts]; done)
        rcases ks2 with _ | ⟨x, _ | ⟨y, r⟩⟩ <;> try (simp [objLitParts]; done)
        cases x with
        | mk k3 as3 ks3 => cases k3 <;> simp [objLitParts]
    · -- jsxAttr
      rcases ks with _ | ⟨n, _ | ⟨v, _ | ⟨z, r⟩⟩⟩ <;> try (simp [attrStep, attrParts, spreadPart]; done)
      simp only [attrStep, attrParts, attrCore]
      rfl

/-! ### state primitives -/

theorem StSim.fields {s1 s2 : St} (h : StSim s1 s2) :
    s1.imports = s2.imports ∧ s1.transformOnHelper = s2.transformOnHelper ∧ s1.pragma = s2.pragma ∧ s1.slotHelper = s2.slotHelper ∧
    s1.injectingVars = s2.injectingVars ∧ s1.slotCounter = s2.slotCounter ∧ s1.assignmentLeft = s2.assignmentLeft ∧ s1.gen = s2.gen ∧
    s1.diags = s2.diags ∧ s1.panicked = s2.panicked ∧ s1.defineComponent = s2.defineComponent := by
  obtain ⟨hc, _⟩ := h
  simp only [St.core, Prod.mk.injEq] at hc
  obtain ⟨h1, h2, h3, h4, h5, h6, h7, h8, h9, h10, h11, h12, h13⟩ := hc
  exact ⟨h1, h2, h6, h7, h8, h9, h10, h12, h11, h13, h3⟩

theorem StSim.fresh {s1 s2 : St} (h : StSim s1 s2) (n : String) :
    (s1.fresh n).1 = (s2.fresh n).1 ∧ StSim (s1.fresh n).2 (s2.fresh n).2 := by
  obtain ⟨hc, hl⟩ := h
  cases s1; cases s2
  simp only [St.core, St.fresh, Prod.mk.injEq, StSim] at *
  simp_all

theorem StSim.setTon {s1 s2 : St} (h : StSim s1 s2) (x : Option Node) :
    StSim { s1 with transformOnHelper := x } { s2 with transformOnHelper := x } := by
  obtain ⟨hc, hl⟩ := h
  cases s1; cases s2
  simp only [St.core, Prod.mk.injEq, StSim] at *
  simp_all

theorem StSim.importFromVue {s1 s2 : St} (h : StSim s1 s2) (item : String) :
    (s1.importFromVue item).1 = (s2.importFromVue item).1 ∧ StSim (s1.importFromVue item).2 (s2.importFromVue item).2 := by
  unfold St.importFromVue
  rw [h.fields.1]
  split
  · exact ⟨rfl, h⟩
  · obtain ⟨h1, h2⟩ := h.fresh ("_" ++ item)
    rcases e1 : s1.fresh ("_" ++ item) with ⟨id1, t1⟩
    rcases e2 : s2.fresh ("_" ++ item) with ⟨id2, t2⟩
    rw [e1, e2] at h1 h2
    simp only at h1 h2 ⊢
    subst h1
    refine ⟨rfl, ?_⟩
    obtain ⟨hc, hl⟩ := h2
    cases t1; cases t2
    simp only [St.core, Prod.mk.injEq, StSim] at *
    simp_all

theorem AccSim.flushMerge (o : Opts) {a1 a2 : AttrAcc} (h : AccSim a1 a2) :
    AccSim { a1 with mergeArgs := a1.mergeArgs ++ [nObject (if o.mergeProps then dedupeProps a1.props else a1.props)], props := [] }
           { a2 with mergeArgs := a2.mergeArgs ++ [nObject (if o.mergeProps then dedupeProps a2.props else a2.props)], props := [] } := by
  obtain ⟨hf, hp, hm, hd, hs⟩ := h
  refine ⟨hf, .nil, hm.snoc (rel_nObject ?_), hd, hs⟩
  split
  · exact dedupeProps_rel hp
  · exact hp

theorem AccSim.pushMerge {a1 a2 : AttrAcc} (h : AccSim a1 a2) {x y : Node} (hx : HintRel x y) :
    AccSim { a1 with mergeArgs := a1.mergeArgs ++ [x] } { a2 with mergeArgs := a2.mergeArgs ++ [y] } := by
  obtain ⟨hf, hp, hm, hd, hs⟩ := h
  exact ⟨hf, hp, hm.snoc hx, hd, hs⟩

theorem AccSim.appendProps {a1 a2 : AttrAcc} (h : AccSim a1 a2) {x y : List Node} (hx : HintRelL x y) :
    AccSim { a1 with props := a1.props ++ x } { a2 with props := a2.props ++ y } := by
  obtain ⟨hf, hp, hm, hd, hs⟩ := h
  exact ⟨hf, hp.append hx, hm, hd, hs⟩

theorem AccSim.propsIsEmpty {a1 a2 : AttrAcc} (h : AccSim a1 a2) : a1.props.isEmpty = a2.props.isEmpty := h.2.1.isEmpty

theorem spreadCore_rel (o : Opts) {e1 e2 : Node} (he : HintRel e1 e2) {a1 a2 : AttrAcc} (h : AccSim a1 a2) {s1 s2 : St} (hs : StSim s1 s2) :
    AccSim (spreadCore o e1 a1 s1).1 (spreadCore o e2 a2 s2).1 ∧ StSim (spreadCore o e1 a1 s1).2 (spreadCore o e2 a2 s2).2 := by
  unfold spreadCore
  have h0 := h.setDynKeys
  have hflush : AccSim
      (if (!({ a1 with hasDynamicKeys := true } : AttrAcc).props.isEmpty && o.mergeProps) = true then
        { ({ a1 with hasDynamicKeys := true } : AttrAcc) with mergeArgs := ({ a1 with hasDynamicKeys := true } : AttrAcc).mergeArgs ++ [nObject (dedupeProps ({ a1 with hasDynamicKeys := true } : AttrAcc).props)], props := [] }
       else { a1 with hasDynamicKeys := true })
      (if (!({ a2 with hasDynamicKeys := true } : AttrAcc).props.isEmpty && o.mergeProps) = true then
        { ({ a2 with hasDynamicKeys := true } : AttrAcc) with mergeArgs := ({ a2 with hasDynamicKeys := true } : AttrAcc).mergeArgs ++ [nObject (dedupeProps ({ a2 with hasDynamicKeys := true } : AttrAcc).props)], props := [] }
       else { a2 with hasDynamicKeys := true }) := by
    rw [h0.propsIsEmpty]
    split
    · obtain ⟨hf, hp, hm, hd, hsl⟩ := h0
      exact ⟨hf, .nil, hm.snoc (rel_nObject (dedupeProps_rel hp)), hd, hsl⟩
    · exact h0
  simp only
  generalize (if (!({ a1 with hasDynamicKeys := true } : AttrAcc).props.isEmpty && o.mergeProps) = true then _ else _) = b1 at hflush ⊢
  generalize (if (!({ a2 with hasDynamicKeys := true } : AttrAcc).props.isEmpty && o.mergeProps) = true then _ else _) = b2 at hflush ⊢
  rcases objLitParts_rel he with ⟨g1, g2⟩ | ⟨oas, las, p1, p2, g1, g2, hp⟩
  · rw [g1, g2]
    simp only
    split
    · exact ⟨hflush.pushMerge he, hs⟩
    · exact ⟨hflush.pushProp (rel_nSpreadElement he), hs⟩
  · rw [g1, g2]
    simp only
    split
    · exact ⟨hflush.pushMerge (.node _ _ (.cons (.node _ _ hp) .nil)), hs⟩
    · exact ⟨hflush.appendProps hp, hs⟩

theorem tonHelper_rel {s1 s2 : St} (h : StSim s1 s2) : (tonHelper s1).1 = (tonHelper s2).1 ∧ StSim (tonHelper s1).2 (tonHelper s2).2 := by
  unfold tonHelper
  rw [h.fields.2.1]
  split
  · exact ⟨rfl, h⟩
  · obtain ⟨h1, h2⟩ := h.fresh "_transformOn"
    rcases e1 : s1.fresh "_transformOn" with ⟨id1, t1⟩
    rcases e2 : s2.fresh "_transformOn" with ⟨id2, t2⟩
    rw [e1, e2] at h1 h2
    simp only at h1 h2 ⊢
    subst h1
    exact ⟨rfl, h2.setTon _⟩

theorem attrCore_rel (o : Opts) (c : Bool) {n1 n2 : Node} (hn : HintRel n1 n2) {v1 v2 : Node} (hv : HintRel v1 v2)
    {l1 l2 : Option Node} (hl : OptRel l1 l2) {a1 a2 : AttrAcc} (h : AccSim a1 a2) {s1 s2 : St} (hs : StSim s1 s2) :
    AccSim (attrCore o c n1 v1 l1 a1 s1).1 (attrCore o c n2 v2 l2 a2 s2).1 ∧
      StSim (attrCore o c n1 v1 l1 a1 s1).2 (attrCore o c n2 v2 l2 a2 s2).2 := by
  unfold attrCore
  rw [attrNameOf_rel hn]
  dsimp only
  split
  · -- directive
    obtain ⟨hd, hst⟩ := parseDirective_rel (attrNameOf n2) hv c hs
    rcases e1 : parseDirective (attrNameOf n2) v1 c s1 with ⟨d1, t1⟩
    rcases e2 : parseDirective (attrNameOf n2) v2 c s2 with ⟨d2, t2⟩
    rw [e1, e2] at hd hst
    simp only at hd hst ⊢
    cases d1 <;> cases d2 <;> simp only [DirRel] at hd <;> try exact hd.elim
    · -- normal
      obtain ⟨hname, harg, hmods, hval⟩ := hd
      subst hname hmods
      exact ⟨h.pushDir ⟨rfl, harg, OptRel.refl _, hval⟩, hst⟩
    · -- text
      exact ⟨(h.pushProp (rel_nKV (HintRel.refl _) hd)).addDyn _, hst⟩
    · -- html
      exact ⟨(h.pushProp (rel_nKV (HintRel.refl _) hd)).addDyn _, hst⟩
    · -- vmodel
      obtain ⟨harg, htr, hmods, hval⟩ := hd
      subst hmods
      refine ⟨?_, hst⟩
      dsimp only [vmodelStep]
      obtain ⟨k1, k2, k3⟩ := vmodelArgKind_rel harg
      rename_i arg1 targ1 m1 val1 arg2 targ2 val2
      rcases ea1 : vmodelArgKind arg1 with ⟨tg1, sx1, ex1⟩
      rcases ea2 : vmodelArgKind arg2 with ⟨tg2, sx2, ex2⟩
      rw [ea1, ea2] at k1 k2 k3
      obtain ⟨rfl, rfl⟩ : tg1 = tg2 ∧ sx1 = sx2 := ⟨k1, k2⟩
      exact vmodelStepK_rel c _ _ k3 htr _ hval h
    · -- slots
      exact ⟨h.setSlots hd, hst⟩
  · -- plain attribute
    obtain ⟨hav, hst⟩ := attrValueExpr_rel hv hl hs
    rcases e1 : attrValueExpr v1 l1 s1 with ⟨x1, t1⟩
    rcases e2 : attrValueExpr v2 l2 s2 with ⟨x2, t2⟩
    rw [e1, e2] at hav hst
    dsimp only at hav hst ⊢
    generalize attrNameStr (attrNameOf n2) = nm
    generalize (o.transformOn && (nm == "on" || nm == "nativeOn")) = ton
    have hfl := plainAttrFlags_rel c nm hv ton h
    cases ton
    · simpa using ⟨hfl.pushProp (rel_nKV (HintRel.refl _) hav), hst⟩
    · simp only [if_true]
      obtain ⟨hh, hst2⟩ := tonHelper_rel hst
      rcases f1 : tonHelper t1 with ⟨hp1, u1⟩
      rcases f2 : tonHelper t2 with ⟨hp2, u2⟩
      rw [f1, f2] at hh hst2
      simp only at hh hst2 ⊢
      subst hh
      refine ⟨?_, hst2⟩
      rw [hfl.propsIsEmpty]
      split
      · exact (hfl.flushMerge o).pushMerge (rel_nCall _ (.cons (rel_nArg hav) .nil))
      · exact hfl.pushMerge (rel_nCall _ (.cons (rel_nArg hav) .nil))

theorem attrStep_rel (o : Opts) (c : Bool) {x1 x2 : Node} (hx : HintRel x1 x2) {l1 l2 : Option Node} (hl : OptRel l1 l2)
    {a1 a2 : AttrAcc} (h : AccSim a1 a2) {s1 s2 : St} (hs : StSim s1 s2) :
    AccSim (attrStep o c x1 l1 a1 s1).1 (attrStep o c x2 l2 a2 s2).1 ∧ StSim (attrStep o c x1 l1 a1 s1).2 (attrStep o c x2 l2 a2 s2).2 := by
  rw [attrStep_eq, attrStep_eq]
  rcases attrParts_rel hx with ⟨h1, h2⟩ | ⟨n1, n2, v1, v2, h1, h2, hn, hv⟩
  · rw [h1, h2]
    rcases (spreadPart_rel hx).elim with ⟨g1, g2⟩ | ⟨e1, e2, g1, g2, he⟩
    · rw [g1, g2]; exact ⟨h, hs.panic _⟩
    · rw [g1, g2]; exact spreadCore_rel o he h hs
  · rw [h1, h2]; exact attrCore_rel o c hn hv hl h hs

/-! ### the props expression and the patch flag -/

theorem patchFlagsOf_rel {a1 a2 : AttrAcc} (h : AccSim a1 a2) : patchFlagsOf a1 = patchFlagsOf a2 := by
  obtain ⟨hf, hp, hm, hd, hs⟩ := h
  have hde := hd.isEmpty
  cases a1; cases a2
  simp only [AttrAcc.flags, Prod.mk.injEq] at hf
  obtain ⟨h1, h2, h3, h4, h5, h6⟩ := hf
  simp only at hde
  subst h1 h2 h3 h4 h5 h6
  simp only [patchFlagsOf, hde]

theorem spreadOnly_rel {p1 p2 : List Node} (h : HintRelL p1 p2) :
    ((match p1 with | [.mk .spreadElement _ [e]] => some e | _ => none) = none ∧ (match p2 with | [.mk .spreadElement _ [e]] => some e | _ => (none : Option Node)) = none) ∨
    ∃ e1 e2 as, p1 = [.mk .spreadElement as [e1]] ∧ p2 = [.mk .spreadElement as [e2]] ∧ HintRel e1 e2 := by
  rcases h with _ | ⟨hx, _ | ⟨hy, hr⟩⟩
  · simp
  · cases hx with
    | vnode => simp
    | node k as hl =>
      cases k <;> try (simp; done)
      rcases hl with _ | ⟨h1, _ | ⟨h2, hl⟩⟩ <;> try (simp; done)
      exact .inr ⟨_, _, _, rfl, rfl, h1⟩
  · simp

theorem assembleProps_rel (o : Opts) {p1 p2 m1 m2 : List Node} (hp : HintRelL p1 p2) (hm : HintRelL m1 m2) {s1 s2 : St} (hs : StSim s1 s2) :
    HintRel (assembleProps o p1 m1 s1).1 (assembleProps o p2 m2 s2).1 ∧ StSim (assembleProps o p1 m1 s1).2 (assembleProps o p2 m2 s2).2 := by
  unfold assembleProps
  rw [hm.isEmpty, hp.isEmpty]
  have hobj : HintRel (nObject (if o.mergeProps then dedupeProps p1 else p1)) (nObject (if o.mergeProps then dedupeProps p2 else p2)) := by
    apply rel_nObject
    split
    · exact dedupeProps_rel hp
    · exact hp
  split
  · -- merge arguments present
    have hm' : HintRelL (if (!p2.isEmpty) = true then m1 ++ [nObject (if o.mergeProps then dedupeProps p1 else p1)] else m1)
                        (if (!p2.isEmpty) = true then m2 ++ [nObject (if o.mergeProps then dedupeProps p2 else p2)] else m2) := by
      split
      · exact hm.snoc hobj
      · exact hm
    dsimp only
    generalize (if (!p2.isEmpty) = true then m1 ++ [nObject (if o.mergeProps then dedupeProps p1 else p1)] else m1) = q1 at hm' ⊢
    generalize (if (!p2.isEmpty) = true then m2 ++ [nObject (if o.mergeProps then dedupeProps p2 else p2)] else m2) = q2 at hm' ⊢
    rcases hm' with _ | ⟨hx, _ | ⟨hy, hr⟩⟩
    · obtain ⟨i1, i2⟩ := hs.importFromVue "mergeProps"
      rcases f1 : s1.importFromVue "mergeProps" with ⟨mp1, u1⟩
      rcases f2 : s2.importFromVue "mergeProps" with ⟨mp2, u2⟩
      rw [f1, f2] at i1 i2
      dsimp only at i1 i2 ⊢
      subst i1
      exact ⟨rel_nCall _ .nil, i2⟩
    · exact ⟨hx, hs⟩
    · obtain ⟨i1, i2⟩ := hs.importFromVue "mergeProps"
      rcases f1 : s1.importFromVue "mergeProps" with ⟨mp1, u1⟩
      rcases f2 : s2.importFromVue "mergeProps" with ⟨mp2, u2⟩
      rw [f1, f2] at i1 i2
      dsimp only at i1 i2 ⊢
      subst i1
      exact ⟨rel_nCall _ (HintRelL.mapArg (.cons hx (.cons hy hr))), i2⟩
  · split
    · rcases hp with _ | ⟨hx, _ | ⟨hy, hr⟩⟩
      · exact ⟨hobj, hs⟩
      · cases hx with
        | vnode => exact ⟨hobj, hs⟩
        | node k as hl =>
          cases k <;> try (exact ⟨hobj, hs⟩)
          rcases hl with _ | ⟨h1, _ | ⟨h2, hl⟩⟩
          · exact ⟨hobj, hs⟩
          · exact ⟨h1, hs⟩
          · exact ⟨hobj, hs⟩
      · simp only; exact ⟨hobj, hs⟩
    · exact ⟨HintRel.refl _, hs⟩

end VueJsx
