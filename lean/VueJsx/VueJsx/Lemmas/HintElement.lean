/-
  HintElement: simulation lemmas (C12) for tags, slot temporaries, children and the element lowering itself.
-/
import VueJsx.Lemmas.HintAttrs

namespace VueJsx
open Text

/-! ### tags -/

def memberObj (obj : Node) : Node :=
  match obj with
  | .mk .ident ("this" :: _) _ => .mk (.other "ThisExpression") [] []
  | .mk .ident as _ => .mk .ident as []
  | m => jsxMemberToExpr m
def memberProp (prop : Node) : Node :=
  match prop with
  | .mk .ident (name :: _) _ => if isValidPropIdent name then prop else nComputed (nStr name)
  | p => p
theorem jsxMemberToExpr_pair (as : List String) (obj prop : Node) :
    jsxMemberToExpr (.mk .jsxMember as [obj, prop]) = .mk .member [] [memberObj obj, memberProp prop] := by
  conv => lhs; unfold jsxMemberToExpr
  rfl

theorem jsxMemberToExpr_other (k : K) (as : List String) (ks : List Node) (h : k ≠ .jsxMember) :
    jsxMemberToExpr (.mk k as ks) = .mk k as ks := by
  conv => lhs; unfold jsxMemberToExpr
  split
  · rename_i heq; injection heq with h1; exact absurd h1 h
  · rfl

theorem jsxMemberToExpr_badlen (as : List String) (ks : List Node) (h : ks.length ≠ 2) :
    jsxMemberToExpr (.mk .jsxMember as ks) = .mk .jsxMember as ks := by
  conv => lhs; unfold jsxMemberToExpr
  split
  · rename_i heq; injection heq with _ _ h3; subst h3; simp at h
  · rfl

theorem memberProp_rel {a b : Node} (h : HintRel a b) : HintRel (memberProp a) (memberProp b) := by
  cases h with
  | vnode => simpa [memberProp] using HintRel.vnode _ _ _ _ _ ‹_› ‹_› ‹_› ‹_›
  | node k as hl =>
    cases k <;> try (simpa [memberProp] using HintRel.node _ _ hl)
    rcases as with _ | ⟨a, r⟩
    · simpa [memberProp] using HintRel.node _ _ hl
    · simp only [memberProp]
      split
      · exact HintRel.node _ _ hl
      · exact HintRel.refl _

theorem jsxMemberToExpr_rel_aux (n : Nat) : ∀ a b, sizeOf a ≤ n → HintRel a b → HintRel (jsxMemberToExpr a) (jsxMemberToExpr b) := by
  induction n with
  | zero => intro a b hs; cases a; simp at hs
  | succ n ih =>
    intro a b hs h
    cases h with
    | vnode => rw [jsxMemberToExpr_other _ _ _ (by simp), jsxMemberToExpr_other _ _ _ (by simp)]; exact HintRel.vnode _ _ _ _ _ ‹_› ‹_› ‹_› ‹_›
    | node k as hl =>
      by_cases hk : k = .jsxMember
      · subst hk
        rcases hl with _ | ⟨h1, _ | ⟨h2, _ | ⟨h3, hl⟩⟩⟩
        · rw [jsxMemberToExpr_badlen _ _ (by simp)]; exact HintRel.refl _
        · rw [jsxMemberToExpr_badlen _ _ (by simp), jsxMemberToExpr_badlen _ _ (by simp)]; exact HintRel.node _ _ (.cons h1 .nil)
        · rw [jsxMemberToExpr_pair, jsxMemberToExpr_pair]
          refine .node _ _ (.cons ?_ (.cons (memberProp_rel h2) .nil))
          have ihobj := ih _ _ (by simp at hs ⊢; omega) h1
          cases h1 with
          | vnode => simpa [memberObj] using ihobj
          | node k2 as2 hl2 =>
            cases k2 <;> try (simpa [memberObj] using ihobj)
            rcases as2 with _ | ⟨a, r⟩
            · simpa [memberObj] using HintRel.refl _
            · by_cases ht : a = "this"
              · subst ht; simpa [memberObj] using HintRel.refl _
              · simp [memberObj, ht]; exact HintRel.refl _
        · rw [jsxMemberToExpr_badlen _ _ (by simp), jsxMemberToExpr_badlen _ _ (by simp)]
          exact HintRel.node _ _ (.cons h1 (.cons h2 (.cons h3 hl)))
      · rw [jsxMemberToExpr_other _ _ _ hk, jsxMemberToExpr_other _ _ _ hk]; exact HintRel.node _ _ hl

theorem jsxMemberToExpr_rel {a b : Node} (h : HintRel a b) : HintRel (jsxMemberToExpr a) (jsxMemberToExpr b) :=
  jsxMemberToExpr_rel_aux (sizeOf a) a b (Nat.le_refl _) h

theorem memberRoot_rel_aux (n : Nat) : ∀ a b, sizeOf a ≤ n → HintRel a b → memberRoot a = memberRoot b := by
  induction n with
  | zero => intro a b hs; cases a; simp at hs
  | succ n ih =>
    intro a b hs h
    cases h with
    | vnode => simp [memberRoot]
    | node k as hl =>
      cases k <;> try (simp [memberRoot]; done)
      rcases hl with _ | ⟨h1, _ | ⟨h2, _ | ⟨h3, hl⟩⟩⟩
      · rfl
      · simp [memberRoot]
      · have ihobj := ih _ _ (by simp at hs ⊢; omega) h1
        cases h1 with
        | vnode => simpa [memberRoot] using ihobj
        | node k2 as2 hl2 =>
          cases k2 <;> try (simpa [memberRoot] using ihobj)
          rcases as2 with _ | ⟨a, r⟩ <;> simp [memberRoot]
      · simp [memberRoot]

theorem memberRootCheck_sim {a b : Node} (h : HintRel a b) {s1 s2 : St} (hs : StSim s1 s2) :
    StSim (memberRootCheck a s1) (memberRootCheck b s2) := by
  unfold memberRootCheck
  rw [memberRoot_rel_aux (sizeOf a) a b (Nat.le_refl _) h]
  split
  · split
    · exact hs.err _
    · exact hs
  · exact hs

theorem transformTag_rel (env : Env) {n1 n2 : Node} (hn : HintRel n1 n2) {s1 s2 : St} (hs : StSim s1 s2) :
    HintRel (transformTag env n1 s1).1 (transformTag env n2 s2).1 ∧ StSim (transformTag env n1 s1).2 (transformTag env n2 s2).2 := by
  have hj := jsxMemberToExpr_rel hn
  have hm := memberRootCheck_sim hn hs
  cases hn with
  | vnode => exact ⟨by simpa [transformTag] using HintRel.vnode _ _ _ _ _ ‹_› ‹_› ‹_› ‹_›, by simpa [transformTag] using hs⟩
  | node k as hl =>
    cases k <;> try (exact ⟨by simpa [transformTag] using HintRel.node _ _ hl, by simpa [transformTag] using hs⟩)
    · -- ident
      rcases as with _ | ⟨name, _ | ⟨bind, r⟩⟩
      · exact ⟨by simpa [transformTag] using HintRel.node _ _ hl, by simpa [transformTag] using hs⟩
      · exact ⟨by simpa [transformTag] using HintRel.node _ _ hl, by simpa [transformTag] using hs⟩
      · simp only [transformTag]
        split
        · exact ⟨HintRel.refl _, hs⟩
        · split
          · obtain ⟨i1, i2⟩ := hs.importFromVue FRAGMENT
            exact ⟨by rw [i1]; exact HintRel.refl _, i2⟩
          · split
            · exact ⟨HintRel.refl _, hs⟩
            · split
              · obtain ⟨i1, i2⟩ := hs.importFromVue "resolveComponent"
                rcases f1 : s1.importFromVue "resolveComponent" with ⟨rc1, u1⟩
                rcases f2 : s2.importFromVue "resolveComponent" with ⟨rc2, u2⟩
                rw [f1, f2] at i1 i2
                dsimp only at i1 i2 ⊢
                subst i1
                exact ⟨HintRel.refl _, i2⟩
              · exact ⟨HintRel.refl _, hs⟩
    · -- jsxMember
      exact ⟨by simpa [transformTag] using hj, by simpa [transformTag] using hm⟩
    · -- jsxNsName
      rcases hl with _ | ⟨h1, _ | ⟨h2, _ | ⟨h3, hl⟩⟩⟩
      · exact ⟨by simpa [transformTag] using HintRel.refl _, by simpa [transformTag] using hs⟩
      · exact ⟨by simpa [transformTag] using HintRel.node _ _ (.cons h1 .nil), by simpa [transformTag] using hs⟩
      · exact ⟨by simp [transformTag, h1.identName, h2.identName]; exact HintRel.refl _, by simpa [transformTag] using hs⟩
      · exact ⟨by simpa [transformTag] using HintRel.node _ _ (.cons h1 (.cons h2 (.cons h3 hl))), by simpa [transformTag] using hs⟩

/-! ### state: slot-flag stack, pragma, temporaries -/

theorem StSim.stack {s1 s2 : St} (h : StSim s1 s2) (x y : List Nat) :
    StSim { s1 with slotFlagStack := x } { s2 with slotFlagStack := y } := by
  obtain ⟨hc, hl⟩ := h
  cases s1; cases s2
  simp only [St.core, Prod.mk.injEq, StSim] at *
  simp_all

theorem pushFlag_rel (o1 o2 : Opts) {s1 s2 : St} (h : StSim s1 s2) : StSim (pushFlag o1 s1) (pushFlag o2 s2) := by
  unfold pushFlag
  split <;> split
  · exact h.stack _ _
  · have := h.stack (s1.slotFlagStack ++ [1]) s2.slotFlagStack; cases s2; exact this
  · have := h.stack s1.slotFlagStack (s2.slotFlagStack ++ [1]); cases s1; exact this
  · exact h

theorem popFlag_rel (o1 o2 : Opts) {s1 s2 : St} (h : StSim s1 s2) : StSim (popFlag o1 s1).2 (popFlag o2 s2).2 := by
  have hl (o : Opts) (s : St) : ∃ x, (popFlag o s).2 = { s with slotFlagStack := x } := by
    unfold popFlag
    split
    · split
      · exact ⟨s.slotFlagStack, by cases s; rfl⟩
      · exact ⟨_, rfl⟩
    · exact ⟨s.slotFlagStack, by cases s; rfl⟩
  obtain ⟨x, hx⟩ := hl o1 s1
  obtain ⟨y, hy⟩ := hl o2 s2
  rw [hx, hy]
  exact h.stack _ _

theorem stackFill_rel_left {s1 s2 : St} (h : StSim s1 s2) : StSim (stackFill s1) s2 := by
  have := h.stack (s1.slotFlagStack.map fun _ => 2) s2.slotFlagStack
  unfold stackFill
  cases s2; exact this

theorem getPragma_rel (o : Opts) {s1 s2 : St} (h : StSim s1 s2) :
    (getPragma o s1).1 = (getPragma o s2).1 ∧ StSim (getPragma o s1).2 (getPragma o s2).2 := by
  unfold getPragma effPragma
  rw [h.fields.2.2.1]
  split
  · split
    · exact ⟨rfl, h⟩
    · exact (h.err _).importFromVue _
  · exact h.importFromVue _

theorem StSim.pushConst {s1 s2 : St} (h : StSim s1 s2) {d1 d2 : Node} (hd : HintRel d1 d2) :
    StSim { s1 with injectingConsts := s1.injectingConsts ++ [d1] } { s2 with injectingConsts := s2.injectingConsts ++ [d2] } := by
  obtain ⟨hc, hl⟩ := h
  exact ⟨by cases s1; cases s2; simpa [St.core] using hc, hl.snoc hd⟩

theorem StSim.clearLeft {s1 s2 : St} (h : StSim s1 s2) :
    StSim { s1 with assignmentLeft := none } { s2 with assignmentLeft := none } := by
  obtain ⟨hc, hl⟩ := h
  cases s1; cases s2
  simp only [St.core, Prod.mk.injEq, StSim] at *
  simp_all

theorem genSlotIdent_rel {s1 s2 : St} (h : StSim s1 s2) :
    (genSlotIdent s1).1 = (genSlotIdent s2).1 ∧ StSim (genSlotIdent s1).2 (genSlotIdent s2).2 := by
  unfold genSlotIdent
  rw [h.fields.2.2.2.2.2.1]
  generalize (if s2.slotCounter == 1 then "_slot" else "_slot" ++ toString s2.slotCounter) = nm
  obtain ⟨h1, h2⟩ := h.fresh nm
  rcases e1 : s1.fresh nm with ⟨id1, t1⟩
  rcases e2 : s2.fresh nm with ⟨id2, t2⟩
  rw [e1, e2] at h1 h2
  dsimp only at h1 h2 ⊢
  subst h1
  refine ⟨rfl, ?_⟩
  obtain ⟨hc, hl⟩ := h2
  have hsc := h.fields.2.2.2.2.2.1
  cases t1; cases t2
  simp only [St.core, Prod.mk.injEq, StSim] at *
  simp_all

theorem slotHelper_rel {s1 s2 : St} (h : StSim s1 s2) :
    (match s1.slotHelper with | some h => (h, s1) | none => let (h, st) := s1.fresh "_isSlot"; (h, { st with slotHelper := some h })).1
      = (match s2.slotHelper with | some h => (h, s2) | none => let (h, st) := s2.fresh "_isSlot"; (h, { st with slotHelper := some h })).1 ∧
    StSim (match s1.slotHelper with | some h => (h, s1) | none => let (h, st) := s1.fresh "_isSlot"; (h, { st with slotHelper := some h })).2
          (match s2.slotHelper with | some h => (h, s2) | none => let (h, st) := s2.fresh "_isSlot"; (h, { st with slotHelper := some h })).2 := by
  rw [h.fields.2.2.2.1]
  split
  · exact ⟨rfl, h⟩
  · obtain ⟨h1, h2⟩ := h.fresh "_isSlot"
    rcases e1 : s1.fresh "_isSlot" with ⟨id1, t1⟩
    rcases e2 : s2.fresh "_isSlot" with ⟨id2, t2⟩
    rw [e1, e2] at h1 h2
    dsimp only at h1 h2 ⊢
    subst h1
    refine ⟨rfl, ?_⟩
    obtain ⟨hc, hl⟩ := h2
    cases t1; cases t2
    simp only [St.core, Prod.mk.injEq, StSim] at *
    simp_all

/-! ### captured copies (`build_iife`) -/

def iifeStep (left : Node) (acc : List Node × St) (elem : Node) : List Node × St :=
  let (out, st) := acc
  match elem with
  | .mk .arg _ [.mk .ident (n :: b :: r) ks] =>
    if n == identName left && b == identBind left then
      let (name, st) := st.fresh ("_" ++ n)
      let init := nCall (nFnExpr [] [nReturn (.mk .ident (n :: b :: r) ks)]) []
      (out ++ [nArg name], { st with injectingConsts := st.injectingConsts ++ [nDeclarator name init] })
    else (out ++ [elem], st)
  | e => (out ++ [e], st)

theorem buildIife_eq (elems : List Node) (st : St) :
    buildIife elems st =
      (match st.assignmentLeft with
       | none => (elems, st)
       | some left => elems.foldl (iifeStep left) ([], { st with assignmentLeft := none })) := by
  unfold buildIife
  cases st.assignmentLeft <;> rfl

theorem rel_iifeInit {i1 i2 : Node} (h : HintRel i1 i2) :
    HintRel (nCall (nFnExpr [] [nReturn i1]) []) (nCall (nFnExpr [] [nReturn i2]) []) := by
  refine .node _ _ (.cons ?_ (.cons (HintRel.refl _) (.cons (HintRel.refl _) .nil)))
  refine .node _ _ (.cons (HintRel.refl _) (.cons (HintRel.refl _) (.cons (HintRel.refl _) (.cons ?_ (.cons (HintRel.refl _) (.cons (HintRel.refl _) .nil))))))
  exact .node _ _ (.cons (.node _ _ (.cons (.node _ _ (.cons h .nil)) .nil)) .nil)

theorem iifeStep_rel (left : Node) {o1 o2 : List Node} (ho : HintRelL o1 o2) {s1 s2 : St} (hs : StSim s1 s2) {x1 x2 : Node} (hx : HintRel x1 x2) :
    HintRelL (iifeStep left (o1, s1) x1).1 (iifeStep left (o2, s2) x2).1 ∧ StSim (iifeStep left (o1, s1) x1).2 (iifeStep left (o2, s2) x2).2 := by
  have hgen : HintRelL (o1 ++ [x1]) (o2 ++ [x2]) := ho.snoc hx
  cases hx with
  | vnode => exact ⟨by simpa [iifeStep] using hgen, by simpa [iifeStep] using hs⟩
  | node k as hl =>
    cases k <;> try (exact ⟨by simpa [iifeStep] using hgen, by simpa [iifeStep] using hs⟩)
    rcases hl with _ | ⟨h1, _ | ⟨h2, hl⟩⟩ <;> try (exact ⟨by simpa [iifeStep] using hgen, by simpa [iifeStep] using hs⟩)
    have hi := h1
    cases h1 with
    | vnode => exact ⟨by simpa [iifeStep] using hgen, by simpa [iifeStep] using hs⟩
    | node k2 as2 hl2 =>
      cases k2 <;> try (exact ⟨by simpa [iifeStep] using hgen, by simpa [iifeStep] using hs⟩)
      rcases as2 with _ | ⟨n, _ | ⟨b, r⟩⟩ <;> try (exact ⟨by simpa [iifeStep] using hgen, by simpa [iifeStep] using hs⟩)
      simp only [iifeStep]
      split
      · obtain ⟨f1, f2⟩ := hs.fresh ("_" ++ n)
        rcases e1 : s1.fresh ("_" ++ n) with ⟨id1, t1⟩
        rcases e2 : s2.fresh ("_" ++ n) with ⟨id2, t2⟩
        rw [e1, e2] at f1 f2
        dsimp only at f1 f2 ⊢
        subst f1
        exact ⟨ho.snoc (HintRel.refl _), f2.pushConst (.node _ _ (.cons (HintRel.refl _) (.cons (rel_iifeInit hi) .nil)))⟩
      · exact ⟨hgen, hs⟩

theorem foldl_iifeStep_rel (left : Node) {e1 e2 : List Node} (he : HintRelL e1 e2) {o1 o2 : List Node} (ho : HintRelL o1 o2)
    {s1 s2 : St} (hs : StSim s1 s2) :
    HintRelL (e1.foldl (iifeStep left) (o1, s1)).1 (e2.foldl (iifeStep left) (o2, s2)).1 ∧
      StSim (e1.foldl (iifeStep left) (o1, s1)).2 (e2.foldl (iifeStep left) (o2, s2)).2 := by
  induction e1 generalizing e2 o1 o2 s1 s2 with
  | nil => cases he; exact ⟨ho, hs⟩
  | cons x xs ih =>
    cases he with
    | cons hx hxs =>
      simp only [List.foldl_cons]
      obtain ⟨r1, r2⟩ := iifeStep_rel left ho hs hx
      rcases f1 : iifeStep left (o1, s1) x with ⟨p1, u1⟩
      rcases f2 : iifeStep left (o2, s2) _ with ⟨p2, u2⟩
      rw [f1, f2] at r1 r2
      exact ih hxs r1 r2

theorem buildIife_rel {e1 e2 : List Node} (he : HintRelL e1 e2) {s1 s2 : St} (hs : StSim s1 s2) :
    HintRelL (buildIife e1 s1).1 (buildIife e2 s2).1 ∧ StSim (buildIife e1 s1).2 (buildIife e2 s2).2 := by
  rw [buildIife_eq, buildIife_eq, hs.fields.2.2.2.2.2.2.1]
  split
  · exact ⟨he, hs⟩
  · exact foldl_iifeStep_rel _ he .nil hs.clearLeft

/-! ### children -/

theorem slotProps_rel {sl1 sl2 : Option Node} (hsl : OptRel sl1 sl2) : HintRelL (slotProps sl1) (slotProps sl2) := by
  rcases hsl.elim with ⟨h1, h2⟩ | ⟨x, y, h1, h2, hxy⟩
  · subst h1 h2; exact .nil
  · subst h1 h2
    have hsp : HintRelL [nSpreadElement x] [nSpreadElement y] := .cons (rel_nSpreadElement hxy) .nil
    rcases objLitParts_rel hxy with ⟨g1, g2⟩ | ⟨oas, las, p1, p2, g1, g2, hp⟩
    · cases hxy with
      | vnode => simpa [slotProps] using hsp
      | node k as hl =>
        cases k <;> try (simpa [slotProps] using hsp)
        rcases hl with _ | ⟨q1, _ | ⟨q2, hl⟩⟩ <;> try (simpa [slotProps] using hsp)
        cases q1 with
        | vnode => simpa [slotProps] using hsp
        | node k2 as2 hl2 =>
          cases k2 <;> try (simpa [slotProps] using hsp)
          simp [objLitParts] at g1
    · cases hxy with
      | vnode => simp [objLitParts] at g1
      | node k as hl =>
        cases k <;> try (simp [objLitParts] at g1; done)
        rcases hl with _ | ⟨q1, _ | ⟨q2, hl⟩⟩ <;> try (simp [objLitParts] at g1; done)
        cases q1 with
        | vnode => simp [objLitParts] at g1
        | node k2 as2 hl2 =>
          cases k2 <;> try (simp [objLitParts] at g1; done)
          simpa [slotProps] using hl2

/-- the entries of the wrapped slots object before the reserved `_` entry -/
def wrapBase (elems : List Node) (slots : Option Node) : List Node :=
  [nKV (nIdentName "default") (nArrow [] (nArray elems))] ++ slotProps slots

def hintEntry (flag : Nat) : Node := nKV (nIdentName "_") (nNum flag)

theorem isHintEntry_hintEntry (flag : Nat) : isHintEntry (hintEntry flag) = true := by
  simp [isHintEntry, hintEntry, nKV, nIdentName, nIdent, nNum]

theorem wrapChildren_eq (o : Opts) (elems : List Node) (flag : Nat) (slots : Option Node) :
    wrapChildren o elems flag slots = nObject (if o.optimize then wrapBase elems slots ++ [hintEntry flag] else wrapBase elems slots) := by
  unfold wrapChildren wrapBase hintEntry
  rfl

theorem wrapBase_rel {e1 e2 : List Node} (he : HintRelL e1 e2) {sl1 sl2 : Option Node} (hsl : OptRel sl1 sl2) :
    HintRelL (wrapBase e1 sl1) (wrapBase e2 sl2) :=
  (HintRelL.cons (rel_nKV (HintRel.refl _) (rel_nArrow _ (rel_nArray he))) .nil).append (slotProps_rel hsl)

theorem wrapKids_rel (o : Opts) {e1 e2 : List Node} (he : HintRelL e1 e2) (f1 f2 : Nat) {sl1 sl2 : Option Node} (hsl : OptRel sl1 sl2) :
    KidsRel (wrapChildren { o with optimize := true } e1 f1 sl1) (wrapChildren { o with optimize := false } e2 f2 sl2) := by
  rw [wrapChildren_eq, wrapChildren_eq]
  simp only [if_true, Bool.false_eq_true, if_false]
  exact KidsRel.slots _ _ (wrapBase_rel he hsl) (isHintEntry_hintEntry _)

theorem wrapOff_rel (o : Opts) (ho : o.optimize = false) {e1 e2 : List Node} (he : HintRelL e1 e2) (f1 f2 : Nat) {sl1 sl2 : Option Node} (hsl : OptRel sl1 sl2) :
    HintRel (wrapChildren o e1 f1 sl1) (wrapChildren o e2 f2 sl2) := by
  rw [wrapChildren_eq, wrapChildren_eq, ho]
  simpa using rel_nObject (wrapBase_rel he hsl)

/-- what `finishChildren` returns in every case it has no special treatment for -/
def fallPair (o : Opts) (c : Bool) (elems : List Node) (flag : Nat) (slots : Option Node) (st : St) : Node × St :=
  if c then (wrapChildren o elems flag slots, st) else (nArray elems, st)

theorem fallPair_rel (o : Opts) (c : Bool) {e1 e2 : List Node} (he : HintRelL e1 e2) (f1 f2 : Nat) {sl1 sl2 : Option Node} (hsl : OptRel sl1 sl2)
    {s1 s2 : St} (hs : StSim s1 s2) :
    KidsRel (fallPair { o with optimize := true } c e1 f1 sl1 s1).1 (fallPair { o with optimize := false } c e2 f2 sl2 s2).1 ∧
      StSim (fallPair { o with optimize := true } c e1 f1 sl1 s1).2 (fallPair { o with optimize := false } c e2 f2 sl2 s2).2 := by
  cases c
  · exact ⟨by simpa [fallPair] using KidsRel.same (rel_nArray he), by simpa [fallPair] using hs⟩
  · exact ⟨by simpa [fallPair] using wrapKids_rel o he f1 f2 hsl, by simpa [fallPair] using hs⟩

def slotHelperOf (st : St) : Node × St :=
  match st.slotHelper with
  | some h => (h, st)
  | none => let (h, st) := st.fresh "_isSlot"; (h, { st with slotHelper := some h })

theorem slotHelperOf_rel {s1 s2 : St} (h : StSim s1 s2) :
    (slotHelperOf s1).1 = (slotHelperOf s2).1 ∧ StSim (slotHelperOf s1).2 (slotHelperOf s2).2 := slotHelper_rel h

/-- the sole-identifier-child branch of `finishChildren` -/
def finishIdent (o : Opts) (e : Node) (elems : List Node) (isComp : Bool) (slots : Option Node) (slotFlag : Nat) (st : St) : Node × St :=
  if isComp then
    let (elems', st) := buildIife elems st
    if o.enableObjectSlots then
      let (h, st) := slotHelperOf st
      (nCond (nCall h [nArg e]) e (wrapChildren o elems' slotFlag slots), st)
    else (wrapChildren o elems' slotFlag slots, st)
  else (nArray elems, st)

/-- the sole-user-call-child branch of `finishChildren` -/
def finishCall (o : Opts) (e : Node) (elems : List Node) (isComp : Bool) (slots : Option Node) (slotFlag : Nat) (st : St) : Node × St :=
  if isComp then
    if o.enableObjectSlots then
      let (slot, st) := genSlotIdent st
      let (h, st) := slotHelperOf st
      let (elems', st) := buildIife [nArg slot] st
      (nCond (nCall h [nArg (nAssignParen slot e)]) slot (wrapChildren o elems' slotFlag slots), st)
    else (wrapChildren o elems slotFlag slots, st)
  else (nArray elems, st)

theorem finishChildren_ident (o : Opts) (aas as : List String) (ks : List Node) (c : Bool) (slots : Option Node) (flag : Nat) (st : St) :
    finishChildren o [.mk .arg aas [.mk .ident as ks]] c slots flag st
      = finishIdent o (.mk .ident as ks) [.mk .arg aas [.mk .ident as ks]] c slots flag st := by
  rfl

theorem finishChildren_call (o : Opts) (aas : List String) (syn : String) (as : List String) (ks : List Node) (c : Bool) (slots : Option Node) (flag : Nat) (st : St)
    (h : syn ≠ "syn") :
    finishChildren o [.mk .arg aas [.mk .call (syn :: as) ks]] c slots flag st
      = finishCall o (.mk .call (syn :: as) ks) [.mk .arg aas [.mk .call (syn :: as) ks]] c slots flag st := by
  have hb : (syn != "syn") = true := by simp [h]
  unfold finishCall slotHelperOf
  simp only [finishChildren]
  rw [hb]
  cases c <;> rfl

theorem finishChildren_syncall (o : Opts) (aas : List String) (as : List String) (ks : List Node) (c : Bool) (slots : Option Node) (flag : Nat) (st : St) :
    finishChildren o [.mk .arg aas [.mk .call ("syn" :: as) ks]] c slots flag st
      = fallPair o c [.mk .arg aas [.mk .call ("syn" :: as) ks]] flag slots st := by
  simp [finishChildren, fallPair]

theorem finishChildren_rel (o : Opts) {e1 e2 : List Node} (he : HintRelL e1 e2) (c : Bool) {sl1 sl2 : Option Node} (hsl : OptRel sl1 sl2)
    (f1 f2 : Nat) {s1 s2 : St} (hs : StSim s1 s2) :
    KidsRel (finishChildren { o with optimize := true } e1 c sl1 f1 s1).1 (finishChildren { o with optimize := false } e2 c sl2 f2 s2).1 ∧
      StSim (finishChildren { o with optimize := true } e1 c sl1 f1 s1).2 (finishChildren { o with optimize := false } e2 c sl2 f2 s2).2 := by
  have hfall := fallPair_rel o c he f1 f2 hsl hs
  rcases he with _ | ⟨hx, _ | ⟨hy, hr⟩⟩
  · -- no children
    refine ⟨?_, by simpa [finishChildren] using hs⟩
    rcases hsl.elim with ⟨h1, h2⟩ | ⟨x, y, h1, h2, hxy⟩
    · subst h1 h2; simpa [finishChildren] using KidsRel.same (HintRel.refl nNull)
    · subst h1 h2; simpa [finishChildren] using KidsRel.same hxy
  · -- one child
    cases hx with
    | vnode => simp only [finishChildren]; exact hfall
    | node k as hl =>
      cases k <;> try (simp only [finishChildren]; exact hfall)
      rcases hl with _ | ⟨h1, _ | ⟨h2, hl⟩⟩ <;> try (simp only [finishChildren]; exact hfall)
      have helems : HintRelL [Node.mk .arg as [_]] [Node.mk .arg as [_]] := .cons (.node _ _ (.cons h1 .nil)) .nil
      cases h1 with
      | vnode => rw [finishChildren_syncall, finishChildren_syncall]; exact hfall
      | node k2 as2 hl2 =>
        have he12 : HintRel (Node.mk k2 as2 _) (Node.mk k2 as2 _) := .node k2 as2 hl2
        cases k2 <;> try (simp only [finishChildren]; exact hfall)
        · -- function expression
          exact ⟨by simpa only [finishChildren] using KidsRel.same (rel_nObject (.cons (rel_nKV (HintRel.refl _) he12) (slotProps_rel hsl))),
                 by simpa only [finishChildren] using hs⟩
        · -- identifier
          rw [finishChildren_ident, finishChildren_ident]
          unfold finishIdent
          cases c
          · exact ⟨by simpa using KidsRel.same (rel_nArray helems), by simpa using hs⟩
          · simp only [if_true]
            obtain ⟨b1, b2⟩ := buildIife_rel helems hs
            rcases eb1 : buildIife [Node.mk .arg as [Node.mk .ident as2 _]] s1 with ⟨el1, t1⟩
            rcases eb2 : buildIife [Node.mk .arg as [Node.mk .ident as2 _]] s2 with ⟨el2, t2⟩
            rw [eb1, eb2] at b1 b2
            dsimp only at b1 b2 ⊢
            cases ho : o.enableObjectSlots
            · simp only [Bool.false_eq_true, if_false]
              exact ⟨wrapKids_rel o b1 f1 f2 hsl, b2⟩
            · simp only [if_true]
              obtain ⟨g1, g2⟩ := slotHelperOf_rel b2
              rcases eh1 : slotHelperOf t1 with ⟨hh1, u1⟩
              rcases eh2 : slotHelperOf t2 with ⟨hh2, u2⟩
              rw [eh1, eh2] at g1 g2
              dsimp only at g1 g2 ⊢
              subst g1
              refine ⟨?_, g2⟩
              rw [wrapChildren_eq, wrapChildren_eq]
              simp only [if_true, Bool.false_eq_true, if_false]
              exact KidsRel.cond _ _ _ (rel_nCall _ (.cons (rel_nArg he12) .nil)) he12 (wrapBase_rel b1 hsl) (isHintEntry_hintEntry _)
        · -- object literal: the slots object itself
          rcases hl2 with _ | ⟨q1, _ | ⟨q2, hl3⟩⟩ <;> try (simp only [finishChildren]; exact hfall)
          cases q1 with
          | vnode => simp only [finishChildren]; exact hfall
          | node k3 as3 hl3 =>
            cases k3 <;> try (simp only [finishChildren]; exact hfall)
            refine ⟨?_, by simpa only [finishChildren] using hs⟩
            simp only [finishChildren, if_true, Bool.false_eq_true, if_false]
            exact KidsRel.slots _ _ (hl3.append (slotProps_rel hsl)) (isHintEntry_hintEntry _)
        · -- call
          rcases as2 with _ | ⟨syn, rest⟩
          · simp only [finishChildren]; exact hfall
          · by_cases hsyn : syn = "syn"
            · subst hsyn; rw [finishChildren_syncall, finishChildren_syncall]; exact hfall
            · rw [finishChildren_call _ _ _ _ _ _ _ _ _ hsyn, finishChildren_call _ _ _ _ _ _ _ _ _ hsyn]
              unfold finishCall
              cases c
              · exact ⟨by simpa using KidsRel.same (rel_nArray helems), by simpa using hs⟩
              · simp only [if_true]
                cases ho : o.enableObjectSlots
                · simp only [Bool.false_eq_true, if_false]
                  exact ⟨wrapKids_rel o helems f1 f2 hsl, hs⟩
                · simp only [if_true]
                  obtain ⟨g1, g2⟩ := genSlotIdent_rel hs
                  rcases eg1 : genSlotIdent s1 with ⟨slot1, t1⟩
                  rcases eg2 : genSlotIdent s2 with ⟨slot2, t2⟩
                  rw [eg1, eg2] at g1 g2
                  dsimp only at g1 g2 ⊢
                  subst g1
                  obtain ⟨i1, i2⟩ := slotHelperOf_rel g2
                  rcases eh1 : slotHelperOf t1 with ⟨hh1, u1⟩
                  rcases eh2 : slotHelperOf t2 with ⟨hh2, u2⟩
                  rw [eh1, eh2] at i1 i2
                  dsimp only at i1 i2 ⊢
                  subst i1
                  obtain ⟨b1, b2⟩ := buildIife_rel (HintRelL.refl [nArg slot1]) i2
                  rcases eb1 : buildIife [nArg slot1] u1 with ⟨el1, w1⟩
                  rcases eb2 : buildIife [nArg slot1] u2 with ⟨el2, w2⟩
                  rw [eb1, eb2] at b1 b2
                  dsimp only at b1 b2 ⊢
                  refine ⟨?_, b2⟩
                  rw [wrapChildren_eq, wrapChildren_eq]
                  simp only [if_true, Bool.false_eq_true, if_false]
                  exact KidsRel.cond _ _ _ (rel_nCall _ (.cons (rel_nArg (rel_nAssignParen (HintRel.refl _) he12)) .nil)) (HintRel.refl _)
                    (wrapBase_rel b1 hsl) (isHintEntry_hintEntry _)
        · -- arrow function
          exact ⟨by simpa only [finishChildren] using KidsRel.same (rel_nObject (.cons (rel_nKV (HintRel.refl _) he12) (slotProps_rel hsl))),
                 by simpa only [finishChildren] using hs⟩
  · simp only [finishChildren]; exact hfall

/-! ### runtime directives -/

def typeAttrStep (a : Node) : Option Node :=
  match a with
  | .mk .jsxAttr _ [.mk .ident (n :: _) _, v] => if n == "type" && !isNone v then some v else none
  | _ => none

theorem typeAttrOf_eq (attrs : List Node) : typeAttrOf attrs = attrs.findSome? typeAttrStep := rfl

theorem typeAttrStep_rel {a b : Node} (h : HintRel a b) : OptRel (typeAttrStep a) (typeAttrStep b) := by
  cases h with
  | vnode => simp [typeAttrStep, OptRel]
  | node k as hl =>
    cases k <;> try (simp [typeAttrStep, OptRel]; done)
    rcases hl with _ | ⟨h1, _ | ⟨h2, _ | ⟨h3, hl⟩⟩⟩ <;> try (simp [typeAttrStep, OptRel]; done)
    cases h1 with
    | vnode => simp [typeAttrStep, OptRel]
    | node k2 as2 hl2 =>
      cases k2 <;> try (simp [typeAttrStep, OptRel]; done)
      rcases as2 with _ | ⟨n, r⟩
      · simp [typeAttrStep, OptRel]
      · simp only [typeAttrStep, h2.isNone]
        split
        · exact h2
        · trivial

theorem typeAttrOf_rel {a b : List Node} (h : HintRelL a b) : OptRel (typeAttrOf a) (typeAttrOf b) := by
  rw [typeAttrOf_eq, typeAttrOf_eq]
  induction a generalizing b with
  | nil => cases h; trivial
  | cons x xs ih =>
    cases h with
    | cons hx hxs =>
      simp only [List.findSome?_cons]
      rcases (typeAttrStep_rel hx).elim with ⟨h1, h2⟩ | ⟨u, v, h1, h2, huv⟩
      · rw [h1, h2]; exact ih hxs
      · rw [h1, h2]; exact huv

def tagIdentOf (tagN : Node) : Option String :=
  match tagN with
  | .mk .ident (n :: _) _ => some n
  | _ => none

/-- the model directive chosen by the `type` attribute -/
def modelByType (v : Option Node) (st : St) : Node × St :=
  match v with
  | some (.mk .str (s :: _) _) =>
    if s == "checkbox" then st.importFromVue "vModelCheckbox"
    else if s == "radio" then st.importFromVue "vModelRadio"
    else st.importFromVue "vModelText"
  | none => st.importFromVue "vModelText"
  | some _ => st.importFromVue "vModelDynamic"

theorem resolveDirective_eq (name : String) (tagN : Node) (attrs : List Node) (st : St) :
    resolveDirective name tagN attrs st =
      (if name == "show" then st.importFromVue "vShow"
       else if name == "model" then
         (if tagIdentOf tagN == some "select" then st.importFromVue "vModelSelect"
          else if tagIdentOf tagN == some "textarea" then st.importFromVue "vModelText"
          else modelByType (typeAttrOf attrs) st)
       else
         let (rd, st) := st.importFromVue "resolveDirective"
         (nCall rd [nArg (nStr name)], st)) := by
  unfold resolveDirective modelByType tagIdentOf
  rfl

theorem tagIdentOf_rel {a b : Node} (h : HintRel a b) : tagIdentOf a = tagIdentOf b := by
  cases h with
  | vnode => rfl
  | node k as hl =>
    cases k <;> try rfl
    cases as <;> rfl

theorem modelByType_rel {v1 v2 : Option Node} (h : OptRel v1 v2) {s1 s2 : St} (hs : StSim s1 s2) :
    (modelByType v1 s1).1 = (modelByType v2 s2).1 ∧ StSim (modelByType v1 s1).2 (modelByType v2 s2).2 := by
  rcases h.elim with ⟨h1, h2⟩ | ⟨x, y, h1, h2, hxy⟩
  · subst h1 h2; exact hs.importFromVue _
  · subst h1 h2
    cases hxy with
    | vnode => exact hs.importFromVue _
    | node k as hl =>
      cases k <;> try (exact hs.importFromVue _)
      rcases as with _ | ⟨s, r⟩
      · exact hs.importFromVue _
      · simp only [modelByType]
        split
        · exact hs.importFromVue _
        · split <;> exact hs.importFromVue _

theorem resolveDirective_rel (name : String) {t1 t2 : Node} (ht : HintRel t1 t2) {a1 a2 : List Node} (ha : HintRelL a1 a2)
    {s1 s2 : St} (hs : StSim s1 s2) :
    (resolveDirective name t1 a1 s1).1 = (resolveDirective name t2 a2 s2).1 ∧
      StSim (resolveDirective name t1 a1 s1).2 (resolveDirective name t2 a2 s2).2 := by
  rw [resolveDirective_eq, resolveDirective_eq, tagIdentOf_rel ht]
  split
  · exact hs.importFromVue _
  · split
    · split
      · exact hs.importFromVue _
      · split
        · exact hs.importFromVue _
        · exact modelByType_rel (typeAttrOf_rel ha) hs
    · obtain ⟨i1, i2⟩ := hs.importFromVue "resolveDirective"
      rcases f1 : s1.importFromVue "resolveDirective" with ⟨rd1, u1⟩
      rcases f2 : s2.importFromVue "resolveDirective" with ⟨rd2, u2⟩
      rw [f1, f2] at i1 i2
      dsimp only at i1 i2 ⊢
      subst i1
      exact ⟨rfl, i2⟩

theorem optArgList_rel (o1 o2 : Option Node) : OptRel o1 o2 →
    HintRelL (match o1 with | some a => [nArg a] | none => []) (match o2 with | some a => [nArg a] | none => []) := by
  intro h
  rcases h.elim with ⟨h1, h2⟩ | ⟨x, y, h1, h2, hxy⟩
  · subst h1 h2; exact .nil
  · subst h1 h2; exact .cons (rel_nArg hxy) .nil

theorem dirEntries_rel {t1 t2 : Node} (ht : HintRel t1 t2) {a1 a2 : List Node} (ha : HintRelL a1 a2)
    {d1 d2 : List (String × Option Node × Option Node × Node)} (hd : DirsRel d1 d2) {s1 s2 : St} (hs : StSim s1 s2) :
    HintRelL (dirEntries t1 a1 d1 s1).1 (dirEntries t2 a2 d2 s2).1 ∧ StSim (dirEntries t1 a1 d1 s1).2 (dirEntries t2 a2 d2 s2).2 := by
  induction hd generalizing s1 s2 with
  | nil => exact ⟨.nil, hs⟩
  | @cons x y xs ys hx _ ih =>
    obtain ⟨n1, ar1, m1, v1⟩ := x
    obtain ⟨n2, ar2, m2, v2⟩ := y
    obtain ⟨hn, har, hm, hv⟩ := hx
    dsimp only at hn har hm hv
    subst hn
    simp only [dirEntries]
    obtain ⟨r1, r2⟩ := resolveDirective_rel n1 ht ha hs
    rcases e1 : resolveDirective n1 t1 a1 s1 with ⟨dd1, u1⟩
    rcases e2 : resolveDirective n1 t2 a2 s2 with ⟨dd2, u2⟩
    rw [e1, e2] at r1 r2
    dsimp only at r1 r2 ⊢
    subst r1
    obtain ⟨q1, q2⟩ := ih r2
    rcases f1 : dirEntries t1 a1 xs u1 with ⟨more1, w1⟩
    rcases f2 : dirEntries t2 a2 ys u2 with ⟨more2, w2⟩
    rw [f1, f2] at q1 q2
    dsimp only at q1 q2 ⊢
    refine ⟨.cons (rel_nArg (rel_nArray ?_)) q1, q2⟩
    exact ((HintRelL.cons (HintRel.refl _) (.cons (rel_nArg hv) .nil)).append (optArgList_rel _ _ har)).append (optArgList_rel _ _ hm)

end VueJsx
