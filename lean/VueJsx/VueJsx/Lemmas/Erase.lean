/-
  Erase: the hint-erasing function of C12 as a function on output trees, and its basic algebra.

  `eraseH isF` deletes exactly what `optimize` is allowed to add: arguments 4–5 of vnode-factory calls and the reserved
  trailing `_` entry of a slots object in the third argument of such a call.  `isF` recognises the factory callee.
  Everything else — kinds, atoms, all other children — is kept.
-/
import VueJsx.Visitor
import VueJsx.Sem

namespace VueJsx

/-- the vnode factory callee: the configured pragma identifier (`quote_ident!`, empty context), or — without a
    pragma — the generated local name of the `createVNode` import -/
def isFactory (pragma : Option String) (c : Node) : Bool :=
  match pragma with
  | some p => (match c with | .mk .ident [n, "e"] [] => n == p | _ => false)
  | none => (match c with | .mk .ident [n, b] [] => n == "_createVNode" && isGenBind b | _ => false)

/-- local rule: a synthetic call of the factory keeps its first three arguments, the third without its `_` entry -/
def eraseRule (isF : Node → Bool) (n : Node) : Node :=
  match n with
  | .mk .call ("syn" :: as) [callee, .mk .list las (a :: b :: .mk .arg aas [kids] :: _), ta] =>
    if isF callee then .mk .call ("syn" :: as) [callee, .mk .list las [a, b, .mk .arg aas [eraseSlotHint kids]], ta] else n
  | n => n

/-- C12's erasure, bottom-up over the whole tree -/
def eraseH (isF : Node → Bool) : Node → Node := post (eraseRule isF)
def eraseHL (isF : Node → Bool) : List Node → List Node := postL (eraseRule isF)

variable {isF : Node → Bool}

theorem eraseRule_kind_atoms (n : Node) : (eraseRule isF n).kind = n.kind ∧ (eraseRule isF n).atoms = n.atoms := by
  unfold eraseRule
  split
  · split <;> simp [Node.kind, Node.atoms]
  · simp

theorem eraseRule_noncall (k : K) (as : List String) (ks : List Node) (h : k ≠ .call) :
    eraseRule isF (.mk k as ks) = .mk k as ks := by
  unfold eraseRule
  split
  · rename_i heq; cases heq; exact absurd rfl h
  · rfl

theorem eraseH_mk (k : K) (as : List String) (ks : List Node) :
    eraseH isF (.mk k as ks) = eraseRule isF (.mk k as (eraseHL isF ks)) := by
  simp [eraseH, eraseHL, post]

@[simp] theorem eraseHL_nil : eraseHL isF [] = [] := by simp [eraseHL, postL]
@[simp] theorem eraseHL_cons (x : Node) (xs : List Node) : eraseHL isF (x :: xs) = eraseH isF x :: eraseHL isF xs := by
  simp [eraseHL, eraseH, postL]

theorem eraseHL_eq_map (xs : List Node) : eraseHL isF xs = xs.map (eraseH isF) := by
  induction xs with
  | nil => simp
  | cons x xs ih => simp [ih]

@[simp] theorem eraseHL_append (xs ys : List Node) : eraseHL isF (xs ++ ys) = eraseHL isF xs ++ eraseHL isF ys := by
  simp [eraseHL_eq_map]

@[simp] theorem eraseHL_length (xs : List Node) : (eraseHL isF xs).length = xs.length := by
  simp [eraseHL_eq_map]

theorem eraseH_noncall (k : K) (as : List String) (ks : List Node) (h : k ≠ .call) :
    eraseH isF (.mk k as ks) = .mk k as (eraseHL isF ks) := by
  rw [eraseH_mk, eraseRule_noncall _ _ _ h]

theorem eraseH_kind (n : Node) : (eraseH isF n).kind = n.kind := by
  cases n with | mk k as ks => rw [eraseH_mk]; exact (eraseRule_kind_atoms _).1

theorem eraseH_atoms (n : Node) : (eraseH isF n).atoms = n.atoms := by
  cases n with | mk k as ks => rw [eraseH_mk]; exact (eraseRule_kind_atoms _).2

/-- a call that is not synthetic (user code) is only erased inside -/
theorem eraseH_usr_call (as : List String) (ks : List Node) (h : as.head? ≠ some "syn") :
    eraseH isF (.mk .call as ks) = .mk .call as (eraseHL isF ks) := by
  rw [eraseH_mk]
  generalize eraseHL isF ks = ks'
  unfold eraseRule
  split
  · rename_i heq; injection heq with _ h2 _; subst h2; simp at h
  · rfl

/-- the shape of an erased node: same kind and atoms; children erased unless it is a call -/
theorem eraseH_shape (n : Node) : ∃ ks', eraseH isF n = .mk n.kind n.atoms ks' ∧ (n.kind ≠ .call → ks' = eraseHL isF n.kids) := by
  cases n with
  | mk k as ks =>
    by_cases h : k = .call
    · have hk := eraseH_kind (isF := isF) (.mk k as ks)
      have ha := eraseH_atoms (isF := isF) (.mk k as ks)
      cases hr : eraseH isF (.mk k as ks) with
      | mk k' as' ks' =>
        rw [hr] at hk ha
        simp [Node.kind, Node.atoms] at hk ha
        subst hk; subst ha
        exact ⟨ks', rfl, fun hne => absurd h hne⟩
    · exact ⟨eraseHL isF ks, eraseH_noncall _ _ _ h, fun _ => rfl⟩

end VueJsx
