/-
  Text: the string-level algorithms of the visitor, on `List Char` (one text representation everywhere;
  the model converts at the boundary with `String.toList` / `String.ofList`).

  Rust counterparts (visitor/src):
    util::transform_text            ↦ cleanText
    util::is_on                     ↦ isOn
    directive::is_directive (name)  ↦ isDirectiveName
    directive::parse_directive name handling (`trim_start_matches`, `split('_')`, `to_ascii_lowercase`) ↦ dirSplit…
    lib::search_jsx_pragma (one comment's text) ↦ pragmaOfComment
-/
namespace VueJsx.Text

/-! ### generic helpers (Rust std counterparts) -/

/-- `str::trim_start_matches(c)` -/
def dropLeading (c : Char) : List Char → List Char
  | [] => []
  | x :: xs => if x == c then dropLeading c xs else x :: xs

/-- `str::trim_end_matches(c)` -/
def dropTrailing (c : Char) (s : List Char) : List Char :=
  (dropLeading c s.reverse).reverse

/-- `str::split(c)`: always at least one piece -/
def splitOn (c : Char) : List Char → List (List Char)
  | [] => [[]]
  | x :: xs =>
    match splitOn c xs with
    | [] => [[]]            -- unreachable: splitOn never returns []
    | p :: ps => if x == c then [] :: p :: ps else (x :: p) :: ps

def asciiLower (c : Char) : Char :=
  if 'A' ≤ c ∧ c ≤ 'Z' then Char.ofNat (c.toNat + 32) else c

def isAsciiLower (c : Char) : Bool := 'a' ≤ c && c ≤ 'z'
def isAsciiUpper (c : Char) : Bool := 'A' ≤ c && c ≤ 'Z'

/-- `str::strip_prefix` -/
def stripPrefix : List Char → List Char → Option (List Char)
  | [], s => some s
  | _ :: _, [] => none
  | p :: ps, x :: xs => if p == x then stripPrefix ps xs else none

/-- Unicode `White_Space` (what Rust's `char::is_whitespace`, hence `str::trim`, uses) -/
def isUnicodeWs (c : Char) : Bool :=
  let n := c.toNat
  (9 ≤ n && n ≤ 13) || n == 32 || n == 0x85 || n == 0xA0 || n == 0x1680 || (0x2000 ≤ n && n ≤ 0x200A)
    || n == 0x2028 || n == 0x2029 || n == 0x202F || n == 0x205F || n == 0x3000

def trimStartWs : List Char → List Char
  | [] => []
  | x :: xs => if isUnicodeWs x then trimStartWs xs else x :: xs

/-- `str::trim` -/
def trimWs (s : List Char) : List Char := (trimStartWs (trimStartWs s).reverse).reverse

/-! ### JSX text cleaning (`util::transform_text`) -/

/-- put a character in front of the first line -/
def consHead (x : Char) : List (List Char) → List (List Char)
  | [] => [[x]]
  | l :: ls => (x :: l) :: ls

/-- line splitter as a scanner; `afterCR` = the previous character was a CR (a following LF belongs to it) -/
def splitAux : Bool → List Char → List (List Char)
  | _, [] => [[]]
  | afterCR, x :: xs =>
    if x == '\n' then (if afterCR then splitAux false xs else [] :: splitAux false xs)
    else if x == '\r' then [] :: splitAux true xs
    else consHead x (splitAux false xs)

/-- split at JSX line breaks: `\r\n`, `\n`, `\r`; always at least one line -/
def splitLines (s : List Char) : List (List Char) := splitAux false s

def tabToSpace (c : Char) : Char := if c == '\t' then ' ' else c

/-- trim one line according to its position: every line but the first loses leading spaces,
    every line but the last loses trailing spaces -/
def trimLine (isFirst isLast : Bool) (l : List Char) : List Char :=
  let l1 := if isFirst then l else dropLeading ' ' l
  if isLast then l1 else dropTrailing ' ' l1

/-- the lines after position-dependent trimming; `first` tells whether the head of the list is the first line -/
def trimLines : Bool → List (List Char) → List (List Char)
  | _, [] => []
  | first, [l] => [trimLine first true l]
  | first, l :: ls => trimLine first false l :: trimLines false ls

def joinSp : List (List Char) → List Char
  | [] => []
  | [l] => l
  | l :: ls => l ++ ' ' :: joinSp ls

/-- `util::transform_text` -/
def cleanText (s : List Char) : List Char :=
  joinSp ((trimLines true (splitLines (s.map tabToSpace))).filter (fun l => !l.isEmpty))

/-! ### attribute-name predicates -/

/-- `util::is_on`: `on` followed by a character that is not an ASCII lower-case letter.
    (Rust looks at the third *byte*; a non-ASCII char's lead byte is ≥ 0x80, never a lower-case letter.) -/
def isOn : List Char → Bool
  | 'o' :: 'n' :: c :: _ => !isAsciiLower c
  | _ => false

/-- `directive::is_directive` on the attribute name (the namespace part of a namespaced name) -/
def isDirectiveName : List Char → Bool
  | 'v' :: c :: _ => c == '-' || isAsciiUpper c
  | _ => false

/-! ### `// @jsx name` pragma comments -/

/-- the maximal run of non-whitespace characters at the start -/
def firstToken : List Char → List Char
  | [] => []
  | x :: xs => if isUnicodeWs x then [] else x :: firstToken xs

/-- a block comment's leading `*` (JSDoc style) is skipped -/
def stripStar (t : List Char) : List Char :=
  match stripPrefix ['*'] t with
  | some r => r
  | none => t

/-- the comment text after trimming, an optional `*`, and trimming again -/
def commentBody (c : List Char) : List Char := trimWs (stripStar (trimWs c))

/-- what follows `@jsx` when the comment body starts with it -/
def afterJsxTag (c : List Char) : Option (List Char) := stripPrefix "@jsx".toList (commentBody c)

/-- `@jsx` must be followed by a blank; the pragma is the next word -/
def pragmaOfRest : List Char → Option (List Char)
  | [] => none
  | ch :: r =>
    if isUnicodeWs ch then
      match firstToken (trimStartWs r) with
      | [] => none
      | name => some name
    else none

/-- what `search_jsx_pragma` extracts from one comment text, if anything:
    after trimming, an optional `*` and blanks: `@jsx`, at least one blank, then the name (up to the next blank).
    `@jsxImportSource`, `@jsxRuntime`, `@jsxFrag` and a bare `@jsx` give nothing. -/
def pragmaOfComment (c : List Char) : Option (List Char) := (afterJsxTag c).bind pragmaOfRest

def isLineTerm (ch : Char) : Bool := ch == '\n' || ch == '\r' || ch == '\u2028' || ch == '\u2029'

/-- `text.split(['\n', '\r', '\u{2028}', '\u{2029}'])` -/
def commentLinesAux : List Char → List Char → List (List Char)
  | cur, [] => [cur.reverse]
  | cur, ch :: r => if isLineTerm ch then cur.reverse :: commentLinesAux [] r else commentLinesAux (ch :: cur) r

def commentLines (c : List Char) : List (List Char) := commentLinesAux [] c

/-- what `search_jsx_pragma` extracts from one comment: the annotation of the first LINE that carries one -/
def pragmaOfCommentText (c : List Char) : Option (List Char) := (commentLines c).findSome? pragmaOfComment

end VueJsx.Text
