/-
  Element: model of `transform_jsx_element`, `transform_jsx_fragment`, `transform_tag`, `transform_children`,
  `wrap_children`, `build_iife`, `resolve_directive`, `is_component`, `get_pragma`.
-/
import VueJsx.Attrs

namespace VueJsx
open Text

def FRAGMENT : String := "Fragment"
def KEEP_ALIVE : String := "KeepAlive"

/-- the name `is_component` looks at: ident name / member property / namespaced local name -/
def tagLocalName : Node → String
  | .mk .ident (n :: _) _ => n
  | .mk .jsxMember _ [_, p] => identName p
  | .mk .jsxNsName _ [_, n] => identName n
  | _ => ""

def firstIsAsciiLower (s : String) : Bool :=
  match s.toList with
  | c :: _ => isAsciiLower c
  | [] => false

def isKnownTag (env : Env) (name : String) : Bool := firstIsAsciiLower name && env.isKnown name

/-- `is_fragment_name`: `Fragment`, `_Fragment`, `Fragment2`, … -/
def isFragmentName (name : String) : Bool :=
  let n := match name.toList with | '_' :: r => r | r => r
  match stripPrefix FRAGMENT.toList n with
  | some rest => rest.all fun c => '0' ≤ c && c ≤ '9'
  | none => false

/-- `is_component(element_name)` -/
def isComponent (env : Env) (nameN : Node) : Bool :=
  let name := tagLocalName nameN
  let shouldSlots := !isFragmentName name && name != KEEP_ALIVE
  match nameN with
  | .mk .jsxMember _ _ => shouldSlots
  -- the tag of `<ns:name>` is `ns:name`: that is what a pattern has to match
  | .mk .jsxNsName _ [nsN, nmN] => !env.isPat (identName nsN ++ ":" ++ identName nmN) && shouldSlots && !isKnownTag env name
  | _ => !env.isPat name && shouldSlots && !isKnownTag env name

/-- the pragma in force: the comment annotation, else the option -/
def effPragma (o : Opts) (st : St) : Option String :=
  match st.pragma with
  | some p => some p
  | none => o.pragma

/-- `get_pragma()` -/
def getPragma (o : Opts) (st : St) : Node × St :=
  match effPragma o st with
  | some p =>
    if isValidPragma p then (nQuoteIdent p, st)
    else (st.err ("Error: `" ++ p ++ "` can't be used as JSX pragma: it is not an identifier.")).importFromVue "createVNode"
  | none => st.importFromVue "createVNode"

/-- `jsx_member_to_expr`: `<a.b.C>` denotes the member expression `a.b.C`, `<this.C>` denotes `this.C` -/
def jsxMemberToExpr : Node → Node
  | .mk .jsxMember _ [obj, prop] =>
    let o := match obj with
      | .mk .ident ("this" :: _) _ => .mk (.other "ThisExpression") [] []
      | .mk .ident as _ => .mk .ident as []
      | m => jsxMemberToExpr m
    -- `<a.b-c>`: a property that is not an identifier name is written `a["b-c"]`
    let p := match prop with
      | .mk .ident (name :: _) _ => if isValidPropIdent name then prop else nComputed (nStr name)
      | p => p
    .mk .member [] [o, p]
  | n => n

/-- the identifier a member tag starts with (`a` in `<a.b.C>`) -/
def memberRoot : Node → Option String
  | .mk .jsxMember _ [obj, _] =>
    (match obj with
     | .mk .ident (n :: _) _ => some n
     | .mk .ident [] _ => none
     | m => memberRoot m)
  | _ => none

/-- `<a-b.C>`: nothing can be bound to `a-b` (and `a-b.C` is a subtraction): reported -/
def memberRootCheck (m : Node) (st : St) : St :=
  match memberRoot m with
  | some n => if n != "this" && !isValidSymbol n then st.err "Error: The object of a member tag must be an identifier." else st
  | none => st

theorem memberRootCheck_cases (m : Node) (st : St) :
    memberRootCheck m st = st ∨ memberRootCheck m st = st.err "Error: The object of a member tag must be an identifier." := by
  unfold memberRootCheck
  split
  · split
    · right; rfl
    · left; rfl
  · left; rfl

/-- `transform_tag(jsx_element_name)` -/
def transformTag (env : Env) (nameN : Node) (st : St) : Node × St :=
  match nameN with
  | .mk .ident (name :: bind :: _) _ =>
    if isKnownTag env name then (nStr name, st)
    else if name == FRAGMENT then st.importFromVue FRAGMENT
    else if env.isPat name then (nStr name, st)
    else if bind == "u" then
      let (rc, st) := st.importFromVue "resolveComponent"
      (nCall rc [nArg (nStr name)], st)
    else (nIdent name bind, st)
  | .mk .jsxMember as ks => (jsxMemberToExpr (.mk .jsxMember as ks), memberRootCheck (.mk .jsxMember as ks) st)
  | .mk .jsxNsName _ [nsN, nmN] => (nStr (identName nsN ++ ":" ++ identName nmN), st)     -- `<svg:rect>`: the qualified name
  | n => (n, st)

/-- `generate_unique_slot_ident()` -/
def genSlotIdent (st : St) : Node × St :=
  let (id, st) := st.fresh (if st.slotCounter == 1 then "_slot" else "_slot" ++ toString st.slotCounter)
  (id, { st with injectingVars := st.injectingVars ++ [nDeclarator id nNone], slotCounter := st.slotCounter + 1 })

/-- `build_iife(elems)` on the single-identifier element list -/
def buildIife (elems : List Node) (st : St) : List Node × St :=
  match st.assignmentLeft with
  | none => (elems, st)
  | some left =>
    let st := { st with assignmentLeft := none }
    elems.foldl (fun (acc : List Node × St) elem =>
      let (out, st) := acc
      match elem with
      | .mk .arg _ [.mk .ident (n :: b :: r) ks] =>
        if n == identName left && b == identBind left then
          let (name, st) := st.fresh ("_" ++ n)
          let init := nCall (nFnExpr [] [nReturn (.mk .ident (n :: b :: r) ks)]) []
          (out ++ [nArg name], { st with injectingConsts := st.injectingConsts ++ [nDeclarator name init] })
        else (out ++ [elem], st)
      | e => (out ++ [e], st)) ([], st)

/-- `extend_with_slots`: the entries a `v-slots` value contributes to a slots object -/
def slotProps (slots : Option Node) : List Node :=
  match slots with
  | some (.mk .object _ [.mk .list _ sp]) => sp
  | some e => [nSpreadElement e]
  | none => []

/-- `wrap_children(elems, slot_flag, slots)` -/
def wrapChildren (o : Opts) (elems : List Node) (slotFlag : Nat) (slots : Option Node) : Node :=
  let props := [nKV (nIdentName "default") (nArrow [] (nArray elems))] ++ slotProps slots
  let props := if o.optimize then props ++ [nKV (nIdentName "_") (nNum slotFlag)] else props
  nObject props

def stackFill (st : St) : St := { st with slotFlagStack := st.slotFlagStack.map (fun _ => 2) }

/-- the value of the first attribute with identifier name `type` that has a value -/
def typeAttrOf (attrs : List Node) : Option Node :=
  attrs.findSome? fun a =>
    match a with
    | .mk .jsxAttr _ [.mk .ident (n :: _) _, v] => if n == "type" && !isNone v then some v else none
    | _ => none

/-- `resolve_directive(name, jsx_element)`; `tagN`/`attrs` are the element's tag and attribute list -/
def resolveDirective (name : String) (tagN : Node) (attrs : List Node) (st : St) : Node × St :=
  if name == "show" then st.importFromVue "vShow"
  else if name == "model" then
    let tagIdent := match tagN with | .mk .ident (n :: _) _ => some n | _ => none
    if tagIdent == some "select" then st.importFromVue "vModelSelect"
    else if tagIdent == some "textarea" then st.importFromVue "vModelText"
    else
      match typeAttrOf attrs with
      | some (.mk .str (s :: _) _) =>
        if s == "checkbox" then st.importFromVue "vModelCheckbox"
        else if s == "radio" then st.importFromVue "vModelRadio"
        else st.importFromVue "vModelText"
      | none => st.importFromVue "vModelText"
      | some _ => st.importFromVue "vModelDynamic"
  else
    let (rd, st) := st.importFromVue "resolveDirective"
    (nCall rd [nArg (nStr name)], st)

def dirEntries (tagN : Node) (attrs : List Node) :
    List (String × Option Node × Option Node × Node) → St → List Node × St
  | [], st => ([], st)
  | (name, arg, mods, value) :: rest, st =>
    let (d, st) := resolveDirective name tagN attrs st
    let elems := [nArg d, nArg value] ++ (match arg with | some a => [nArg a] | none => [])
      ++ (match mods with | some m => [nArg m] | none => [])
    let (more, st) := dirEntries tagN attrs rest st
    (nArg (nArray elems) :: more, st)

/-- the decision at the end of `transform_children`, once the child expressions `elems` are known -/
def finishChildren (o : Opts) (elems : List Node) (isComp : Bool) (slots : Option Node) (slotFlag : Nat)
    (st : St) : Node × St :=
  match elems with
  | [] => ((match slots with | some s => s | none => nNull), st)
  | [.mk .arg _ [e]] =>
    match e with
    | .mk .ident _ _ =>
      if isComp then
        let (elems', st) := buildIife elems st
        if o.enableObjectSlots then
          let (h, st) :=
            match st.slotHelper with
            | some h => (h, st)
            | none => let (h, st) := st.fresh "_isSlot"; (h, { st with slotHelper := some h })
          (nCond (nCall h [nArg e]) e (wrapChildren o elems' slotFlag slots), st)
        else (wrapChildren o elems' slotFlag slots, st)
      else (nArray elems, st)
    | .mk .call (syn :: _) _ =>
      if syn != "syn" && isComp then
        if o.enableObjectSlots then
          let (slot, st) := genSlotIdent st
          let (h, st) :=
            match st.slotHelper with
            | some h => (h, st)
            | none => let (h, st) := st.fresh "_isSlot"; (h, { st with slotHelper := some h })
          let (elems', st) := buildIife [nArg slot] st
          (nCond (nCall h [nArg (nAssignParen slot e)]) slot (wrapChildren o elems' slotFlag slots), st)
        else (wrapChildren o elems slotFlag slots, st)
      else if isComp then (wrapChildren o elems slotFlag slots, st) else (nArray elems, st)
    | .mk .fnExpr _ _ => (nObject (nKV (nIdentName "default") e :: slotProps slots), st)
    | .mk .arrow _ _ => (nObject (nKV (nIdentName "default") e :: slotProps slots), st)
    | .mk .object _ [.mk .list _ props] =>
      (nObject (if o.optimize then (props ++ slotProps slots) ++ [nKV (nIdentName "_") (nNum slotFlag)] else props ++ slotProps slots), st)
    | _ => if isComp then (wrapChildren o elems slotFlag slots, st) else (nArray elems, st)
  | _ => if isComp then (wrapChildren o elems slotFlag slots, st) else (nArray elems, st)

def popFlag (o : Opts) (st : St) : Nat × St :=
  if o.optimize then
    match st.slotFlagStack.reverse with
    | [] => (1, st)
    | top :: restRev => (top, { st with slotFlagStack := restRev.reverse })
  else (1, st)

def pushFlag (o : Opts) (st : St) : St :=
  if o.optimize then { st with slotFlagStack := st.slotFlagStack ++ [1] } else st

mutual
/-- `transform_jsx_element` -/
def trElement (o : Opts) (env : Env) : Node → St → Node × St
  | .mk .jsxElement _ [.mk .jsxOpening _ [nameN, .mk .list _ attrs, _], .mk .list _ children, _], st =>
    let st := pushFlag o st
    let isComp := isComponent env nameN
    let (ar, st) := transformAttrs o env attrs isComp st
    let (tag, st) := transformTag env nameN st
    let (elems, st) := trChildList o env children st
    let (slotFlag, st) := popFlag o st
    let (kids, st) := finishChildren o elems isComp ar.slots slotFlag st
    let args := [nArg tag, nArg ar.attrs, nArg kids]
    let args :=
      if o.optimize then
        let args := if ar.patchFlags != 0 then args ++ [nArg (nNum ar.patchFlags)] else args
        match ar.dynamicProps with
        | some dp => if !dp.isEmpty then args ++ [nArg (nArray (dp.map fun p => nArg (nStr p)))] else args
        | none => args
      else args
    let (pragma, st) := getPragma o st
    let vnode := nCall pragma args
    if ar.directives.isEmpty then (vnode, st)
    else
      let (wd, st) := st.importFromVue "withDirectives"
      let (entries, st) := dirEntries nameN attrs ar.directives st
      (nCall wd [nArg vnode, nArg (nArray entries)], st)
  | n, st => (.mk .ill [] [n], st.panic "ill-formed JSX element")

/-- `transform_jsx_fragment` -/
def trFragment (o : Opts) (env : Env) : Node → St → Node × St
  | .mk .jsxFragment _ [_, .mk .list _ children, _], st =>
    let st := pushFlag o st
    let (pragma, st) := getPragma o st
    let (frag, st) := st.importFromVue FRAGMENT
    let (elems, st) := trChildList o env children st
    let (slotFlag, st) := popFlag o st
    let (kids, st) := finishChildren o elems false none slotFlag st
    (nCall pragma [nArg frag, nArg nNull, nArg kids], st)
  | n, st => (.mk .ill [] [n], st.panic "ill-formed JSX fragment")

/-- the fold of `transform_attrs`; an element / fragment used directly as a plain attribute's value is lowered here -/
def trAttrs (o : Opts) (env : Env) (isComp : Bool) : List Node → AttrAcc → St → AttrAcc × St
  | [], acc, st => (acc, st)
  | a :: rest, acc, st =>
    let (lowered, st) : Option Node × St :=
      match a with
      | .mk .jsxAttr _ [nameN, .mk .jsxElement eas eks] =>
        if isDirectiveAttrName (attrNameOf nameN) then (none, st)
        else let (e, st) := trElement o env (.mk .jsxElement eas eks) st; (some e, st)
      | .mk .jsxAttr _ [nameN, .mk .jsxFragment eas eks] =>
        if isDirectiveAttrName (attrNameOf nameN) then (none, st)
        else let (e, st) := trFragment o env (.mk .jsxFragment eas eks) st; (some e, st)
      | _ => (none, st)
    let (acc, st) := attrStep o isComp a lowered acc st
    trAttrs o env isComp rest acc st

/-- `transform_attrs(attrs, is_component, directives)` -/
def transformAttrs (o : Opts) (env : Env) (attrs : List Node) (isComp : Bool) (st : St) : AttrsResult × St :=
  match attrs with
  | [] => ({ attrs := nNull, patchFlags := 0, dynamicProps := none, slots := none, directives := [] }, st)
  | attrs =>
    let (acc, st) := trAttrs o env isComp attrs {} st
    let (expr, st) := assembleProps o acc.props acc.mergeArgs st
    ({ attrs := expr, patchFlags := patchFlagsOf acc, dynamicProps := some acc.dynamicProps,
       slots := acc.slots, directives := acc.directives }, st)

/-- the `filter_map` over the children in `transform_children` -/
def trChildList (o : Opts) (env : Env) : List Node → St → List Node × St
  | [], st => ([], st)
  | c :: rest, st =>
    match c with
    | .mk .jsxText (t :: _) _ =>
      let text := String.ofList (cleanText t.toList)
      if text.isEmpty then trChildList o env rest st
      else
        let (ctv, st) := st.importFromVue "createTextVNode"
        let (more, st) := trChildList o env rest st
        (nArg (nCall ctv [nArg (nStr text)]) :: more, st)
    | .mk .jsxExprContainer _ [e] =>
      match e with
      | .mk .jsxEmpty _ _ => trChildList o env rest st
      | e =>
        let st := if o.optimize && isIdent e && !isUnresolvedIdent e then stackFill st else st
        let (more, st) := trChildList o env rest st
        (nArg e :: more, st)
    | .mk .jsxSpreadChild _ [e] =>
      let st := if o.optimize && isIdent e && !isUnresolvedIdent e then stackFill st else st
      let (more, st) := trChildList o env rest st
      (nSpreadArg e :: more, st)
    | .mk .jsxElement as ks =>
      let (e, st) := trElement o env (.mk .jsxElement as ks) st
      let (more, st) := trChildList o env rest st
      (nArg e :: more, st)
    | .mk .jsxFragment as ks =>
      let (e, st) := trFragment o env (.mk .jsxFragment as ks) st
      let (more, st) := trChildList o env rest st
      (nArg e :: more, st)
    | _ =>
      let (more, st) := trChildList o env rest st
      (more, st.panic "ill-formed JSX child")
end

end VueJsx
