/-
  C02 — Children and JSX text follow the JSX whitespace and child-list rules.
  Property theorems only (helper lemmas live in VueJsx/Lemmas/TextLemmas.lean).
  `cleanText` is the model of `util::transform_text`; it is tied to the Rust function on every run by the unit
  correspondence (hook `verif_hooks::transform_text`, exhaustive strings over an 8-symbol alphabet + random).
-/
import VueJsx.Lemmas.TextLemmas
import VueJsx.Element

namespace VueJsx
open Text

/-- Text without a line break is kept as written (tabs as spaces): leading/trailing inline spaces,
    non-breaking spaces and every other character are preserved. -/
theorem C02_text_inline (s : List Char) (h : ∀ c ∈ s, isBreak c = false) :
    cleanText s = s.map tabToSpace :=
  cleanText_no_break s h

/-- For ALL strings: the characters other than space/tab/LF/CR of the cleaned text are exactly those of the
    source text, in order (cleaning only ever touches JSX-insignificant whitespace). -/
theorem C02_text_preserves_nonws (s : List Char) : (cleanText s).filter notWs = s.filter notWs :=
  cleanText_preserves_nonws s

/-- For ALL strings: the cleaned text contains no line break and no tab. -/
theorem C02_text_no_break_out (s : List Char) : ∀ c ∈ cleanText s, isBreak c = false ∧ c ≠ '\t' :=
  cleanText_no_break_out s

/-- Text that cleans to the empty string contributes no child. -/
theorem C02_children_skip_empty_text (o : Opts) (env : Env) (t : String) (as : List String) (ks rest : List Node)
    (st : St) (h : cleanText t.toList = []) :
    trChildList o env (.mk .jsxText (t :: as) ks :: rest) st = trChildList o env rest st := by
  simp [trChildList, h]

/-- An empty expression container (`{}` or `{/* comment */}`) contributes no child. -/
theorem C02_children_skip_empty_expr (o : Opts) (env : Env) (as1 as2 : List String) (ks rest : List Node) (st : St) :
    trChildList o env (.mk .jsxExprContainer as1 [.mk .jsxEmpty as2 ks] :: rest) st = trChildList o env rest st := by
  simp [trChildList]

/-- An element with no remaining children (and no `v-slots`) gets `null`. -/
theorem C02_no_children_null (o : Opts) (isComp : Bool) (flag : Nat) (st : St) :
    finishChildren o [] isComp none flag st = (nNull, st) := by
  simp [finishChildren]

/-- On a non-component host two or more children are delivered as the array of them, in order. -/
theorem C02_children_array (o : Opts) (e1 e2 : Node) (rest : List Node) (slots : Option Node) (flag : Nat) (st : St) :
    finishChildren o (e1 :: e2 :: rest) false slots flag st = (nArray (e1 :: e2 :: rest), st) := by
  simp [finishChildren]

/-! non-vacuity / concrete instances (these are tests, labelled as tests) -/
example : cleanText "foo ".toList = "foo ".toList := by decide
example : cleanText " a\n   b\t".toList = " a b ".toList := by decide
example : cleanText "\n  \n".toList = [] := by decide
example : ∀ c ∈ "foo bar".toList, isBreak c = false := by decide

end VueJsx
