/-
  C13 — Patch flags and dynamic-prop lists are sound update hints.
  Decision-logic theorems about the patch-flag analysis of the model (`plainAttrFlags`, `attrStep`, `attrFold`,
  `patchFlagsOf`), by induction over the attribute list with the analysis booleans as the invariant.
-/
import VueJsx.Element

namespace VueJsx

/-- The flag is one of finitely many unions of the element-level bits CLASS, STYLE, PROPS, FULL_PROPS,
    HYDRATE_EVENTS, NEED_PATCH: never negative (hoisted/bail), never a fragment/slot/text bit. -/
theorem C13_flags_allowed (acc : AttrAcc) :
    patchFlagsOf acc ∈ [0, 2, 4, 6, 8, 10, 12, 14, 16, 32, 34, 36, 38, 40, 42, 44, 46, 512, 544] := by
  unfold patchFlagsOf PF_FULL_PROPS PF_CLASS PF_STYLE PF_PROPS PF_HYDRATE_EVENTS PF_NEED_PATCH
  cases acc.hasDynamicKeys <;> cases acc.hasClass <;> cases acc.hasStyle <;> cases acc.hasHydration
    <;> cases acc.hasRef <;> cases acc.dynamicProps.isEmpty <;> cases acc.directives.isEmpty <;> simp

/-- Props that are spread, merged through a helper or have computed keys carry exactly the full-props bit. -/
theorem C13_dynamic_keys_full (acc : AttrAcc) (h : acc.hasDynamicKeys = true) : patchFlagsOf acc = PF_FULL_PROPS := by
  simp [patchFlagsOf, h, PF_FULL_PROPS, PF_HYDRATE_EVENTS]

/-- A vnode with a ref or a runtime directive is never left with the hydration bit alone, nor with no flag. -/
theorem C13_need_patch (acc : AttrAcc) (h : acc.hasRef = true ∨ acc.directives ≠ []) :
    patchFlagsOf acc ≠ PF_HYDRATE_EVENTS ∧ patchFlagsOf acc ≠ 0 := by
  have hd : (acc.hasRef || !acc.directives.isEmpty) = true := by
    rcases h with h | h
    · simp [h]
    · cases hh : acc.directives <;> simp_all
  unfold patchFlagsOf PF_FULL_PROPS PF_CLASS PF_STYLE PF_PROPS PF_HYDRATE_EVENTS PF_NEED_PATCH
  cases acc.hasDynamicKeys <;> cases acc.hasClass <;> cases acc.hasStyle <;> cases acc.hasHydration
    <;> cases acc.dynamicProps.isEmpty <;> simp_all

/-- A spread attribute sets the dynamic-keys fact. -/
theorem C13_spread_sets_dynamic_keys (o : Opts) (isComp : Bool) (as : List String) (e : Node) (acc : AttrAcc) (st : St) :
    (attrStep o isComp (.mk .spreadElement as [e]) none acc st).1.hasDynamicKeys = true := by
  unfold attrStep
  simp only
  split <;> (split <;> (try split) <;> simp)

/-- An `on`/`nativeOn` object handled by transformOn (merged helper object) sets the dynamic-keys fact. -/
theorem C13_transformOn_sets_dynamic_keys (isComp : Bool) (name : String) (v : Node) (acc : AttrAcc) :
    (plainAttrFlags isComp name v true acc).hasDynamicKeys = true := by
  simp [plainAttrFlags]

theorem mem_insertUnique (x k : String) (xs : List String) : k ∈ xs → k ∈ insertUnique x xs := by
  intro h; unfold insertUnique; split <;> simp [h]

theorem self_mem_insertUnique (x : String) (xs : List String) : x ∈ insertUnique x xs := by
  unfold insertUnique; split
  · rename_i h; simpa using h
  · simp

theorem hydrationStep_frame (isComp : Bool) (name : String) (acc : AttrAcc) :
    let r := hydrationStep isComp name acc
    r.hasDynamicKeys = acc.hasDynamicKeys ∧ r.hasClass = acc.hasClass ∧ r.hasStyle = acc.hasStyle
      ∧ r.dynamicProps = acc.dynamicProps := by
  unfold hydrationStep; split <;> simp

theorem coverStep_monotone (isComp : Bool) (name : String) (acc : AttrAcc) :
    let r := coverStep isComp name acc
    (acc.hasDynamicKeys = true → r.hasDynamicKeys = true) ∧ (acc.hasClass = true → r.hasClass = true)
      ∧ (acc.hasStyle = true → r.hasStyle = true) ∧ (∀ k ∈ acc.dynamicProps, k ∈ r.dynamicProps) := by
  unfold coverStep
  split
  · simp
  · split
    · simp
    · split
      · simp
      · refine ⟨fun h => h, fun h => h, fun h => h, ?_⟩
        intro k hk
        exact mem_insertUnique _ _ _ hk

/-- The analysis of a plain attribute never clears a fact and never removes a dynamic prop. -/
theorem C13_plain_monotone (isComp : Bool) (name : String) (v : Node) (t : Bool) (acc : AttrAcc) :
    let r := plainAttrFlags isComp name v t acc
    (acc.hasDynamicKeys = true → r.hasDynamicKeys = true) ∧ (acc.hasClass = true → r.hasClass = true)
      ∧ (acc.hasStyle = true → r.hasStyle = true) ∧ (∀ k ∈ acc.dynamicProps, k ∈ r.dynamicProps) := by
  unfold plainAttrFlags
  split
  · simp
  · split
    · simp
    · by_cases hc : (!(if isNone v then false else isAttrValueConstant v)) = true
      · simp only [hc, if_true]
        have h1 := hydrationStep_frame isComp name acc
        have h2 := coverStep_monotone isComp name (hydrationStep isComp name acc)
        simp only at h1 h2
        obtain ⟨a1, a2, a3, a4⟩ := h1
        obtain ⟨b1, b2, b3, b4⟩ := h2
        rw [a1] at b1; rw [a2] at b2; rw [a3] at b3; rw [a4] at b4
        exact ⟨b1, b2, b3, b4⟩
      · simp only [hc]
        simp

/-- A non-constant plain attribute (other than key/ref) of an ELEMENT is covered: `class`/`style` by their facts,
    any other name by entering the dynamic-prop list. -/
theorem C13_plain_cover (name : String) (v : Node) (acc : AttrAcc)
    (hnc : (if isNone v then false else isAttrValueConstant v) = false) (hk : name ≠ "key") (hr : name ≠ "ref") :
    let r := plainAttrFlags false name v false acc
    (name = "class" → r.hasClass = true) ∧ (name = "style" → r.hasStyle = true)
      ∧ (name ≠ "class" → name ≠ "style" → name ∈ r.dynamicProps) := by
  unfold plainAttrFlags
  simp only [hnc, hr, Bool.false_eq_true, if_false, beq_iff_eq, Bool.not_false, if_true]
  unfold coverStep
  refine ⟨?_, ?_, ?_⟩
  · intro h; subst h; simp
  · intro h; subst h; simp
  · intro h1 h2
    simp [h1, h2, hk, hr, self_mem_insertUnique]

/-- On a COMPONENT `class` and `style` are ordinary props: they enter the dynamic-prop list. -/
theorem C13_plain_cover_component (name : String) (v : Node) (acc : AttrAcc)
    (hnc : (if isNone v then false else isAttrValueConstant v) = false) (hk : name ≠ "key") (hr : name ≠ "ref") :
    name ∈ (plainAttrFlags true name v false acc).dynamicProps := by
  unfold plainAttrFlags
  simp only [hnc, hr, Bool.false_eq_true, if_false, beq_iff_eq, Bool.not_false, if_true]
  unfold coverStep
  simp [hk, hr, self_mem_insertUnique]

/-- The emitted flag has the PROPS bit whenever the dynamic-prop list is non-empty and no dynamic keys were seen. -/
theorem C13_props_bit (acc : AttrAcc) (hd : acc.hasDynamicKeys = false) (hn : acc.dynamicProps ≠ []) :
    (patchFlagsOf acc / PF_PROPS) % 2 = 1 := by
  have : acc.dynamicProps.isEmpty = false := by cases h : acc.dynamicProps <;> simp_all
  unfold patchFlagsOf PF_FULL_PROPS PF_CLASS PF_STYLE PF_PROPS PF_HYDRATE_EVENTS PF_NEED_PATCH
  cases acc.hasClass <;> cases acc.hasStyle <;> cases acc.hasHydration <;> cases acc.hasRef
    <;> cases acc.directives.isEmpty <;> simp_all

/-- ... and the CLASS / STYLE bits whenever those facts hold. -/
theorem C13_class_style_bits (acc : AttrAcc) (hd : acc.hasDynamicKeys = false) :
    (acc.hasClass = true → (patchFlagsOf acc / PF_CLASS) % 2 = 1) ∧ (acc.hasStyle = true → (patchFlagsOf acc / PF_STYLE) % 2 = 1) := by
  unfold patchFlagsOf PF_FULL_PROPS PF_CLASS PF_STYLE PF_PROPS PF_HYDRATE_EVENTS PF_NEED_PATCH
  cases acc.hasClass <;> cases acc.hasStyle <;> cases acc.hasHydration <;> cases acc.hasRef
    <;> cases acc.dynamicProps.isEmpty <;> cases acc.directives.isEmpty <;> simp_all

/-- The slot flag handed to a slots object is 1 or 2 as long as the stack holds only 1s and 2s
    (push adds 1, `fill` writes 2). -/
theorem C13_slot_flag_range (o : Opts) (st : St) (h : ∀ f ∈ st.slotFlagStack, f = 1 ∨ f = 2) :
    (popFlag o st).1 = 1 ∨ (popFlag o st).1 = 2 := by
  unfold popFlag
  split
  · split
    · simp
    · rename_i top rest heq
      have : top ∈ st.slotFlagStack := by
        have : top ∈ st.slotFlagStack.reverse := by rw [heq]; simp
        simpa using this
      exact h top this
  · simp

theorem C13_stack_invariant_push (o : Opts) (st : St) (h : ∀ f ∈ st.slotFlagStack, f = 1 ∨ f = 2) :
    ∀ f ∈ (pushFlag o st).slotFlagStack, f = 1 ∨ f = 2 := by
  unfold pushFlag
  split
  · intro f hf; simp at hf; rcases hf with hf | hf
    · exact h f hf
    · simp [hf]
  · exact h

theorem C13_stack_invariant_fill (st : St) : ∀ f ∈ (stackFill st).slotFlagStack, f = 1 ∨ f = 2 := by
  intro f hf; simp [stackFill] at hf; simp [hf.2]

/-- A bound identifier child marks EVERY open slot (the one being built and all enclosing ones) as dynamic. -/
theorem C13_fill_marks_all (st : St) : ∀ f ∈ (stackFill st).slotFlagStack, f = 2 := by
  intro f hf; simp [stackFill] at hf; exact hf.2.symm

/-! ### the cover theorem lifted through the WHOLE attribute fold -/

/-- facts only grow -/
def Mono (a b : AttrAcc) : Prop :=
  (a.hasDynamicKeys = true → b.hasDynamicKeys = true) ∧ (a.hasClass = true → b.hasClass = true)
    ∧ (a.hasStyle = true → b.hasStyle = true) ∧ (∀ k ∈ a.dynamicProps, k ∈ b.dynamicProps)

theorem Mono.refl (a : AttrAcc) : Mono a a := ⟨id, id, id, fun _ h => h⟩
theorem Mono.trans {a b c : AttrAcc} (h1 : Mono a b) (h2 : Mono b c) : Mono a c :=
  ⟨fun h => h2.1 (h1.1 h), fun h => h2.2.1 (h1.2.1 h), fun h => h2.2.2.1 (h1.2.2.1 h), fun k h => h2.2.2.2 k (h1.2.2.2 k h)⟩

theorem vmodelStep_mono (o : Opts) (c : Bool) (a t m : Option Node) (v : Node) (acc : AttrAcc) :
    Mono acc (vmodelStep o c a t m v acc) := by
  unfold vmodelStep vmodelStepK vmodelArgKind Mono
  simp only
  refine ⟨?_, ?_, ?_, ?_⟩ <;> intros <;> (repeat' split) <;> simp_all [mem_insertUnique]


theorem mono_of_facts {a b b' : AttrAcc} (h : Mono a b') (h1 : b.hasDynamicKeys = b'.hasDynamicKeys) (h2 : b.hasClass = b'.hasClass)
    (h3 : b.hasStyle = b'.hasStyle) (h4 : b.dynamicProps = b'.dynamicProps) : Mono a b := by
  unfold Mono at *
  rw [h1, h2, h3, h4]; exact h

theorem plainPart_mono (o : Opts) (c : Bool) (attrName : String) (valueN attrValue : Node) (acc : AttrAcc) (st : St) :
    Mono acc
      (let isTransformOn := o.transformOn && (attrName == "on" || attrName == "nativeOn")
       let acc := plainAttrFlags c attrName valueN isTransformOn acc
       if isTransformOn then
         let (helper, st) :=
           (match st.transformOnHelper with
            | some h => (h, st)
            | none => let (h, st) := st.fresh "_transformOn"; (h, { st with transformOnHelper := some h }))
         let acc :=
           if !acc.props.isEmpty then
             { acc with mergeArgs := acc.mergeArgs ++ [nObject (if o.mergeProps then dedupeProps acc.props else acc.props)],
                        props := [] }
           else acc
         (({ acc with mergeArgs := acc.mergeArgs ++ [nCall helper [nArg attrValue]] } : AttrAcc), st)
       else (({ acc with props := acc.props ++ [nKV (nStr attrName) attrValue] } : AttrAcc), st)).1 := by
  have hp := C13_plain_monotone c attrName valueN (o.transformOn && (attrName == "on" || attrName == "nativeOn")) acc
  simp only at hp ⊢
  by_cases ht : (o.transformOn && (attrName == "on" || attrName == "nativeOn")) = true
  · simp only [ht, if_true] at hp ⊢
    by_cases he : (!(plainAttrFlags c attrName valueN true acc).props.isEmpty) = true
    · simp only [he, if_true]
      exact mono_of_facts hp rfl rfl rfl rfl
    · simp only [he]
      exact mono_of_facts hp rfl rfl rfl rfl
  · simp only [ht] at hp ⊢
    exact mono_of_facts hp rfl rfl rfl rfl

theorem attrStep_mono (o : Opts) (c : Bool) (a : Node) (l : Option Node) (acc : AttrAcc) (st : St) :
    Mono acc (attrStep o c a l acc st).1 := by
  unfold attrStep
  split
  · -- an attribute
    simp only
    split
    · -- a directive
      split
      · exact ⟨id, id, id, fun _ h => h⟩
      · exact ⟨id, id, id, fun k h => mem_insertUnique _ _ _ h⟩
      · exact ⟨id, id, id, fun k h => mem_insertUnique _ _ _ h⟩
      · exact vmodelStep_mono o c _ _ _ _ acc
      · exact ⟨id, id, id, fun _ h => h⟩
    · -- a plain attribute
      exact plainPart_mono o c _ _ _ acc _
  · -- a spread
    simp only
    split <;> split <;> (try split) <;> exact ⟨fun _ => rfl, id, id, fun _ h => h⟩
  · exact Mono.refl _


/-- the lowering of an element / fragment written directly as a plain attribute's value (`trAttrs`' first half) -/
def lowerOf (o : Opts) (env : Env) (a : Node) (st : St) : Option Node × St :=
  match a with
  | .mk .jsxAttr _ [nameN, .mk .jsxElement eas eks] =>
    if isDirectiveAttrName (attrNameOf nameN) then (none, st)
    else let (e, st) := trElement o env (.mk .jsxElement eas eks) st; (some e, st)
  | .mk .jsxAttr _ [nameN, .mk .jsxFragment eas eks] =>
    if isDirectiveAttrName (attrNameOf nameN) then (none, st)
    else let (e, st) := trFragment o env (.mk .jsxFragment eas eks) st; (some e, st)
  | _ => (none, st)

/-- every step of the fold over the attributes is one `attrStep` (with the lowered value, if the value was an element) -/
theorem trAttrs_cons (o : Opts) (env : Env) (c : Bool) (a : Node) (rest : List Node) (acc : AttrAcc) (st : St) :
    trAttrs o env c (a :: rest) acc st
      = trAttrs o env c rest (attrStep o c a (lowerOf o env a st).1 acc (lowerOf o env a st).2).1
          (attrStep o c a (lowerOf o env a st).1 acc (lowerOf o env a st).2).2 := by
  conv => lhs; rw [trAttrs.eq_def]
  rfl

theorem trAttrs_mono (o : Opts) (env : Env) (c : Bool) : ∀ (attrs : List Node) (acc : AttrAcc) (st : St),
    Mono acc (trAttrs o env c attrs acc st).1
  | [], acc, st => by unfold trAttrs; exact Mono.refl _
  | a :: rest, acc, st => by
    rw [trAttrs_cons]
    exact (attrStep_mono o c a _ acc _).trans (trAttrs_mono o env c rest _ _)

theorem trAttrs_append (o : Opts) (env : Env) (c : Bool) : ∀ (pre post : List Node) (acc : AttrAcc) (st : St),
    trAttrs o env c (pre ++ post) acc st
      = trAttrs o env c post (trAttrs o env c pre acc st).1 (trAttrs o env c pre acc st).2
  | [], post, acc, st => by simp [trAttrs]
  | a :: pre, post, acc, st => by
    simp only [List.cons_append]
    rw [trAttrs_cons, trAttrs_cons]
    exact trAttrs_append o env c pre post _ _

/-- the text of a plain attribute's name -/
def attrNameText (nameN : Node) : String :=
  match attrNameOf nameN with
  | .plain s => s
  | .ns ns n => ns ++ ":" ++ n
  | .bad => ""

theorem plainPart_cover (o : Opts) (attrName : String) (valueN attrValue : Node) (acc : AttrAcc) (st : St)
    (hnc : (if isNone valueN then false else isAttrValueConstant valueN) = false)
    (hk : attrName ≠ "key") (hr : attrName ≠ "ref")
    (hton : (o.transformOn && (attrName == "on" || attrName == "nativeOn")) = false) :
    let r :=
      (let isTransformOn := o.transformOn && (attrName == "on" || attrName == "nativeOn")
       let acc := plainAttrFlags false attrName valueN isTransformOn acc
       if isTransformOn then
         let (helper, st) :=
           (match st.transformOnHelper with
            | some h => (h, st)
            | none => let (h, st) := st.fresh "_transformOn"; (h, { st with transformOnHelper := some h }))
         let acc :=
           if !acc.props.isEmpty then
             { acc with mergeArgs := acc.mergeArgs ++ [nObject (if o.mergeProps then dedupeProps acc.props else acc.props)],
                        props := [] }
           else acc
         (({ acc with mergeArgs := acc.mergeArgs ++ [nCall helper [nArg attrValue]] } : AttrAcc), st)
       else (({ acc with props := acc.props ++ [nKV (nStr attrName) attrValue] } : AttrAcc), st)).1
    (attrName = "class" → r.hasClass = true) ∧ (attrName = "style" → r.hasStyle = true)
      ∧ (attrName ≠ "class" → attrName ≠ "style" → attrName ∈ r.dynamicProps) := by
  have hc := C13_plain_cover attrName valueN acc hnc hk hr
  simp only [hton, Bool.false_eq_true, if_false] at hc ⊢
  exact hc

/-- the step at a plain, non-constant attribute of an ELEMENT that is not merged through transformOn covers it -/
theorem attrStep_cover (o : Opts) (as : List String) (nameN valueN : Node) (l : Option Node) (acc : AttrAcc) (st : St)
    (hplain : isDirectiveAttrName (attrNameOf nameN) = false)
    (hnc : (if isNone valueN then false else isAttrValueConstant valueN) = false)
    (hk : attrNameText nameN ≠ "key") (hr : attrNameText nameN ≠ "ref")
    (hton : (o.transformOn && (attrNameText nameN == "on" || attrNameText nameN == "nativeOn")) = false) :
    let r := (attrStep o false (.mk .jsxAttr as [nameN, valueN]) l acc st).1
    (attrNameText nameN = "class" → r.hasClass = true) ∧ (attrNameText nameN = "style" → r.hasStyle = true)
      ∧ (attrNameText nameN ≠ "class" → attrNameText nameN ≠ "style" → attrNameText nameN ∈ r.dynamicProps) := by
  have hc := plainPart_cover o (attrNameText nameN) valueN (attrValueExpr valueN l st).1 acc (attrValueExpr valueN l st).2 hnc hk hr hton
  unfold attrNameText at hc ⊢
  simp only [attrStep, hplain, Bool.false_eq_true, if_false]
  exact hc

/-- **The cover theorem for a whole element**: whatever else is written on the element — before or after, directives,
    v-models, spreads, attributes whose values are elements — a non-constant plain attribute (other than key/ref, not
    merged through transformOn) of an ELEMENT host is covered by the analysis result: either the dynamic-keys fact
    (flag FULL_PROPS) holds, or `class`/`style` have their fact and any other name is in the dynamic-prop list. -/
theorem C13_cover_whole_element (o : Opts) (env : Env) (pre post : List Node) (as : List String) (nameN valueN : Node) (st : St)
    (hplain : isDirectiveAttrName (attrNameOf nameN) = false)
    (hnc : (if isNone valueN then false else isAttrValueConstant valueN) = false)
    (hk : attrNameText nameN ≠ "key") (hr : attrNameText nameN ≠ "ref")
    (hton : (o.transformOn && (attrNameText nameN == "on" || attrNameText nameN == "nativeOn")) = false) :
    let r := (trAttrs o env false (pre ++ .mk .jsxAttr as [nameN, valueN] :: post) {} st).1
    (attrNameText nameN = "class" → r.hasClass = true) ∧ (attrNameText nameN = "style" → r.hasStyle = true)
      ∧ (attrNameText nameN ≠ "class" → attrNameText nameN ≠ "style" → attrNameText nameN ∈ r.dynamicProps) := by
  simp only [trAttrs_append]
  rw [trAttrs_cons]
  generalize (lowerOf o env (.mk .jsxAttr as [nameN, valueN]) (trAttrs o env false pre {} st).2).1 = l
  generalize (lowerOf o env (.mk .jsxAttr as [nameN, valueN]) (trAttrs o env false pre {} st).2).2 = st1
  have hstep := attrStep_cover o as nameN valueN l (trAttrs o env false pre {} st).1 st1 hplain hnc hk hr hton
  have hm := trAttrs_mono o env false post (attrStep o false (.mk .jsxAttr as [nameN, valueN]) l (trAttrs o env false pre {} st).1 st1).1
    (attrStep o false (.mk .jsxAttr as [nameN, valueN]) l (trAttrs o env false pre {} st).1 st1).2
  simp only at hstep
  exact ⟨fun hn => hm.2.1 (hstep.1 hn), fun hn => hm.2.2.1 (hstep.2.1 hn), fun h1 h2 => hm.2.2.2 _ (hstep.2.2 h1 h2)⟩

/-- … and therefore by the emitted FLAG: FULL_PROPS, or the CLASS / STYLE / PROPS bit of the attribute. -/
theorem C13_cover_whole_element_flag (o : Opts) (env : Env) (pre post : List Node) (as : List String) (nameN valueN : Node) (st : St)
    (hplain : isDirectiveAttrName (attrNameOf nameN) = false)
    (hnc : (if isNone valueN then false else isAttrValueConstant valueN) = false)
    (hk : attrNameText nameN ≠ "key") (hr : attrNameText nameN ≠ "ref")
    (hton : (o.transformOn && (attrNameText nameN == "on" || attrNameText nameN == "nativeOn")) = false) :
    let r := (trAttrs o env false (pre ++ .mk .jsxAttr as [nameN, valueN] :: post) {} st).1
    r.hasDynamicKeys = true ∨
      ((attrNameText nameN = "class" → r.hasClass = true) ∧ (attrNameText nameN = "style" → r.hasStyle = true)
        ∧ (attrNameText nameN ≠ "class" → attrNameText nameN ≠ "style" → r.dynamicProps ≠ [] ∧ attrNameText nameN ∈ r.dynamicProps)) := by
  have h := C13_cover_whole_element o env pre post as nameN valueN st hplain hnc hk hr hton
  simp only at h ⊢
  right
  refine ⟨h.1, h.2.1, fun h1 h2 => ?_⟩
  have hm := h.2.2 h1 h2
  exact ⟨fun he => by rw [he] at hm; simp at hm, hm⟩


/-- An object literal with a computed key is constant only if the KEY expression is (it is evaluated on every render). -/
theorem C13_computed_key_not_constant (as las kas cas : List String) (e v : Node) :
    isConstant (.mk .object as [.mk .list las [.mk .kv kas [.mk .computed cas [e], v]]]) = (isConstant e && isConstant v) := by
  simp [isConstant, allConstProps]

/-- … in particular `{ [x]: false }` with a variable `x` is not constant. -/
example : isConstant (.mk .object [] [nList [nKV (nComputed (nIdent "x" "u")) (nBool false)]]) = false := by decide

/-- Only the GLOBAL `undefined` is a constant: an identifier of that name with a local binding (a parameter, a variable) is not
    (fix 417795b: a shadowed `undefined` was left out of the dynamic-prop list). -/
theorem C13_only_global_undefined_is_constant (b : String) (r : List String) (ks : List Node) :
    isConstant (.mk .ident ("undefined" :: b :: r) ks) = (b == "u") := by
  rw [isConstant] <;> simp

end VueJsx
