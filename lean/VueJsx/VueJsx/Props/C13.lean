/-
  C13 — Patch flags and dynamic-prop lists are sound update hints.
  Decision-logic theorems about the patch-flag analysis of the model (`plainAttrFlags`, `attrStep`, `attrFold`,
  `patchFlagsOf`), by induction over the attribute list with the analysis booleans as the invariant.
-/
import VueJsx.Element

namespace VueJsx

/-- The flag is one of finitely many unions of the element-level bits CLASS, STYLE, PROPS, FULL_PROPS,
    HYDRATE_EVENTS, NEED_PATCH: never negative (hoisted/bail), never a fragment/slot/text bit. -/
theorem C13_flags_allowed (acc : AttrAcc) :
    patchFlagsOf acc ∈ [0, 2, 4, 6, 8, 10, 12, 14, 16, 32, 34, 36, 38, 40, 42, 44, 46, 512, 544] := by
  unfold patchFlagsOf PF_FULL_PROPS PF_CLASS PF_STYLE PF_PROPS PF_HYDRATE_EVENTS PF_NEED_PATCH
  cases acc.hasDynamicKeys <;> cases acc.hasClass <;> cases acc.hasStyle <;> cases acc.hasHydration
    <;> cases acc.hasRef <;> cases acc.dynamicProps.isEmpty <;> cases acc.directives.isEmpty <;> simp

/-- Props that are spread, merged through a helper or have computed keys carry exactly the full-props bit. -/
theorem C13_dynamic_keys_full (acc : AttrAcc) (h : acc.hasDynamicKeys = true) : patchFlagsOf acc = PF_FULL_PROPS := by
  simp [patchFlagsOf, h, PF_FULL_PROPS, PF_HYDRATE_EVENTS]

/-- A vnode with a ref or a runtime directive is never left with the hydration bit alone, nor with no flag. -/
theorem C13_need_patch (acc : AttrAcc) (h : acc.hasRef = true ∨ acc.directives ≠ []) :
    patchFlagsOf acc ≠ PF_HYDRATE_EVENTS ∧ patchFlagsOf acc ≠ 0 := by
  have hd : (acc.hasRef || !acc.directives.isEmpty) = true := by
    rcases h with h | h
    · simp [h]
    · cases hh : acc.directives <;> simp_all
  unfold patchFlagsOf PF_FULL_PROPS PF_CLASS PF_STYLE PF_PROPS PF_HYDRATE_EVENTS PF_NEED_PATCH
  cases acc.hasDynamicKeys <;> cases acc.hasClass <;> cases acc.hasStyle <;> cases acc.hasHydration
    <;> cases acc.dynamicProps.isEmpty <;> simp_all

/-- A spread attribute sets the dynamic-keys fact. -/
theorem C13_spread_sets_dynamic_keys (o : Opts) (isComp : Bool) (as : List String) (e : Node) (acc : AttrAcc) (st : St) :
    (attrStep o isComp (.mk .spreadElement as [e]) none acc st).1.hasDynamicKeys = true := by
  unfold attrStep
  simp only
  split <;> (split <;> (try split) <;> simp)

/-- An `on`/`nativeOn` object handled by transformOn (merged helper object) sets the dynamic-keys fact. -/
theorem C13_transformOn_sets_dynamic_keys (isComp : Bool) (name : String) (v : Node) (acc : AttrAcc) :
    (plainAttrFlags isComp name v true acc).hasDynamicKeys = true := by
  simp [plainAttrFlags]

theorem mem_insertUnique (x k : String) (xs : List String) : k ∈ xs → k ∈ insertUnique x xs := by
  intro h; unfold insertUnique; split <;> simp [h]

theorem self_mem_insertUnique (x : String) (xs : List String) : x ∈ insertUnique x xs := by
  unfold insertUnique; split
  · rename_i h; simpa using h
  · simp

theorem hydrationStep_frame (isComp : Bool) (name : String) (acc : AttrAcc) :
    let r := hydrationStep isComp name acc
    r.hasDynamicKeys = acc.hasDynamicKeys ∧ r.hasClass = acc.hasClass ∧ r.hasStyle = acc.hasStyle
      ∧ r.dynamicProps = acc.dynamicProps := by
  unfold hydrationStep; split <;> simp

theorem coverStep_monotone (isComp : Bool) (name : String) (acc : AttrAcc) :
    let r := coverStep isComp name acc
    (acc.hasDynamicKeys = true → r.hasDynamicKeys = true) ∧ (acc.hasClass = true → r.hasClass = true)
      ∧ (acc.hasStyle = true → r.hasStyle = true) ∧ (∀ k ∈ acc.dynamicProps, k ∈ r.dynamicProps) := by
  unfold coverStep
  split
  · simp
  · split
    · simp
    · split
      · simp
      · refine ⟨fun h => h, fun h => h, fun h => h, ?_⟩
        intro k hk
        exact mem_insertUnique _ _ _ hk

/-- The analysis of a plain attribute never clears a fact and never removes a dynamic prop. -/
theorem C13_plain_monotone (isComp : Bool) (name : String) (v : Node) (t : Bool) (acc : AttrAcc) :
    let r := plainAttrFlags isComp name v t acc
    (acc.hasDynamicKeys = true → r.hasDynamicKeys = true) ∧ (acc.hasClass = true → r.hasClass = true)
      ∧ (acc.hasStyle = true → r.hasStyle = true) ∧ (∀ k ∈ acc.dynamicProps, k ∈ r.dynamicProps) := by
  unfold plainAttrFlags
  split
  · simp
  · split
    · simp
    · by_cases hc : (!(if isNone v then false else isAttrValueConstant v)) = true
      · simp only [hc, if_true]
        have h1 := hydrationStep_frame isComp name acc
        have h2 := coverStep_monotone isComp name (hydrationStep isComp name acc)
        simp only at h1 h2
        obtain ⟨a1, a2, a3, a4⟩ := h1
        obtain ⟨b1, b2, b3, b4⟩ := h2
        rw [a1] at b1; rw [a2] at b2; rw [a3] at b3; rw [a4] at b4
        exact ⟨b1, b2, b3, b4⟩
      · simp only [hc]
        simp

/-- A non-constant plain attribute (other than key/ref) of an ELEMENT is covered: `class`/`style` by their facts,
    any other name by entering the dynamic-prop list. -/
theorem C13_plain_cover (name : String) (v : Node) (acc : AttrAcc)
    (hnc : (if isNone v then false else isAttrValueConstant v) = false) (hk : name ≠ "key") (hr : name ≠ "ref") :
    let r := plainAttrFlags false name v false acc
    (name = "class" → r.hasClass = true) ∧ (name = "style" → r.hasStyle = true)
      ∧ (name ≠ "class" → name ≠ "style" → name ∈ r.dynamicProps) := by
  unfold plainAttrFlags
  simp only [hnc, hr, Bool.false_eq_true, if_false, beq_iff_eq, Bool.not_false, if_true]
  unfold coverStep
  refine ⟨?_, ?_, ?_⟩
  · intro h; subst h; simp
  · intro h; subst h; simp
  · intro h1 h2
    simp [h1, h2, hk, hr, self_mem_insertUnique]

/-- On a COMPONENT `class` and `style` are ordinary props: they enter the dynamic-prop list. -/
theorem C13_plain_cover_component (name : String) (v : Node) (acc : AttrAcc)
    (hnc : (if isNone v then false else isAttrValueConstant v) = false) (hk : name ≠ "key") (hr : name ≠ "ref") :
    name ∈ (plainAttrFlags true name v false acc).dynamicProps := by
  unfold plainAttrFlags
  simp only [hnc, hr, Bool.false_eq_true, if_false, beq_iff_eq, Bool.not_false, if_true]
  unfold coverStep
  simp [hk, hr, self_mem_insertUnique]

/-- The emitted flag has the PROPS bit whenever the dynamic-prop list is non-empty and no dynamic keys were seen. -/
theorem C13_props_bit (acc : AttrAcc) (hd : acc.hasDynamicKeys = false) (hn : acc.dynamicProps ≠ []) :
    (patchFlagsOf acc / PF_PROPS) % 2 = 1 := by
  have : acc.dynamicProps.isEmpty = false := by cases h : acc.dynamicProps <;> simp_all
  unfold patchFlagsOf PF_FULL_PROPS PF_CLASS PF_STYLE PF_PROPS PF_HYDRATE_EVENTS PF_NEED_PATCH
  cases acc.hasClass <;> cases acc.hasStyle <;> cases acc.hasHydration <;> cases acc.hasRef
    <;> cases acc.directives.isEmpty <;> simp_all

/-- ... and the CLASS / STYLE bits whenever those facts hold. -/
theorem C13_class_style_bits (acc : AttrAcc) (hd : acc.hasDynamicKeys = false) :
    (acc.hasClass = true → (patchFlagsOf acc / PF_CLASS) % 2 = 1) ∧ (acc.hasStyle = true → (patchFlagsOf acc / PF_STYLE) % 2 = 1) := by
  unfold patchFlagsOf PF_FULL_PROPS PF_CLASS PF_STYLE PF_PROPS PF_HYDRATE_EVENTS PF_NEED_PATCH
  cases acc.hasClass <;> cases acc.hasStyle <;> cases acc.hasHydration <;> cases acc.hasRef
    <;> cases acc.dynamicProps.isEmpty <;> cases acc.directives.isEmpty <;> simp_all

/-- The slot flag handed to a slots object is 1 or 2 as long as the stack holds only 1s and 2s
    (push adds 1, `fill` writes 2). -/
theorem C13_slot_flag_range (o : Opts) (st : St) (h : ∀ f ∈ st.slotFlagStack, f = 1 ∨ f = 2) :
    (popFlag o st).1 = 1 ∨ (popFlag o st).1 = 2 := by
  unfold popFlag
  split
  · split
    · simp
    · rename_i top rest heq
      have : top ∈ st.slotFlagStack := by
        have : top ∈ st.slotFlagStack.reverse := by rw [heq]; simp
        simpa using this
      exact h top this
  · simp

theorem C13_stack_invariant_push (o : Opts) (st : St) (h : ∀ f ∈ st.slotFlagStack, f = 1 ∨ f = 2) :
    ∀ f ∈ (pushFlag o st).slotFlagStack, f = 1 ∨ f = 2 := by
  unfold pushFlag
  split
  · intro f hf; simp at hf; rcases hf with hf | hf
    · exact h f hf
    · simp [hf]
  · exact h

theorem C13_stack_invariant_fill (st : St) : ∀ f ∈ (stackFill st).slotFlagStack, f = 1 ∨ f = 2 := by
  intro f hf; simp [stackFill] at hf; simp [hf.2]

/-- A bound identifier child marks EVERY open slot (the one being built and all enclosing ones) as dynamic. -/
theorem C13_fill_marks_all (st : St) : ∀ f ∈ (stackFill st).slotFlagStack, f = 2 := by
  intro f hf; simp [stackFill] at hf; exact hf.2.symm

end VueJsx
