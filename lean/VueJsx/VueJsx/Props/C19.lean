/-
  C19 — resolveType derives exactly the declared emitted events.
  (1) no `emits` without a `SetupContext<…>` annotation on the second parameter;
  (2) literal unions, nested to any depth, expand to exactly their literals, in order (`resolveStrings`);
  (3) for `SetupContext<{ (e: U₁): void; …; (e: Uₙ): void }>` with every Uᵢ such a union, the `emits` array lists
      exactly the literals of U₁ … Uₙ, in order, and nothing is reported — for every n and every nesting depth;
  (4) the property syntax `{ name: […]; 'quoted-name': […] }` lists exactly the property names.
-/
import VueJsx.ResolveType

namespace VueJsx

/-! ### (1) no annotation, no `emits` -/

theorem C19_no_second_parameter (as : List String) (p : Node) (rest : List Node) (st : St) :
    extractEmitsType (.mk .arg as [.mk .arrow [] (.mk .list [] [p] :: rest)]) st = (none, st)
    ∧ extractEmitsType (.mk .arg as [.mk .arrow [] (.mk .list [] [] :: rest)]) st = (none, st) := by
  constructor <;> simp [extractEmitsType, setupParams]

theorem C19_unannotated_second_parameter (as ias : List String) (p : Node) (rest : List Node) (st : St) :
    extractEmitsType (.mk .arg as [.mk .arrow [] (.mk .list [] [p, .mk .ident ias [nNone]] :: rest)]) st = (none, st) := by
  simp [extractEmitsType, setupParams, typeAnnInner, nNone]

/-- an annotation that is a type reference to anything but `SetupContext` adds nothing -/
theorem C19_other_annotation (as ias tas : List String) (p : Node) (rest : List Node) (st : St) (n : String)
    (nr : List String) (iks : List Node) (targs : Node) (hn : n ≠ "SetupContext") :
    extractEmitsType (.mk .arg as [.mk .arrow [] (.mk .list [] [p, .mk .ident ias
      [.mk .tsTypeAnn [] [.mk .tsTypeRef tas [.mk .ident (n :: nr) iks, targs]]]] :: rest)]) st = (none, st) := by
  simp only [extractEmitsType, setupParams, Option.bind, List.getElem?_cons_succ, List.getElem?_cons_zero, typeAnnInner]
  split
  · rename_i heq
    simp only [Option.some.injEq, Node.mk.injEq, List.cons.injEq] at heq
    obtain ⟨_, _, ⟨⟨_, ⟨rfl, _⟩, _⟩, _⟩⟩ := heq
    simp [hn]
  · rfl

/-- a setup argument that is not a function gives nothing -/
theorem C19_not_a_function (as ias : List String) (iks : List Node) (st : St) :
    extractEmitsType (.mk .arg as [.mk .ident ias iks]) st = (none, st) := by
  simp [extractEmitsType, setupParams]

/-! ### (2) literal unions of any depth -/

/-- string-literal types and unions of them, nested to any depth -/
inductive ETy where
  | lit (s : String)
  | union (ts : List ETy)
  | paren (t : ETy)

mutual
def ETy.toNode : ETy → Node
  | .lit s => .mk .tsLitType [] [.mk .str [s] []]
  | .union ts => .mk .tsUnion [] [nList (ETy.toNodes ts)]
  | .paren t => .mk .tsParen [] [t.toNode]
def ETy.toNodes : List ETy → List Node
  | [] => []
  | t :: ts => t.toNode :: ETy.toNodes ts
end

mutual
/-- the literals of the type, left to right -/
def ETy.names : ETy → List String
  | .lit s => [s]
  | .union ts => ETy.namesL ts
  | .paren t => t.names
def ETy.namesL : List ETy → List String
  | [] => []
  | t :: ts => t.names ++ ETy.namesL ts
end

mutual
def ETy.depth : ETy → Nat
  | .lit _ => 1
  | .union ts => 1 + ETy.depthL ts
  | .paren t => 1 + t.depth
def ETy.depthL : List ETy → Nat
  | [] => 0
  | t :: ts => max t.depth (ETy.depthL ts)
end

/-- the step of the fold inside `resolveStrings` for unions (its own code, named) -/
def unionStep (fuel : Nat) (acc : List String × St) (t : Node) : List String × St :=
  match t with
  | .mk .tsLitType _ [.mk .str (v :: _) _] => (acc.1 ++ [v], acc.2)
  | t => let (more, st) := resolveStrings fuel acc.2 t; (acc.1 ++ more, st)

mutual
theorem resolveStrings_eq_names : ∀ (t : ETy) (fuel : Nat) (st : St), st.typeGaveUp = false → t.depth ≤ fuel →
    resolveStrings fuel st t.toNode = (t.names, st)
  | .lit s, fuel, st, hg, hd => by
    cases fuel with
    | zero => simp [ETy.depth] at hd
    | succ f => simp [ETy.toNode, resolveStrings, ETy.names, enterRes_ok _ _ hg]
  | .union ts, fuel, st, hg, hd => by
    cases fuel with
    | zero => simp [ETy.depth] at hd
    | succ f =>
      have ih := resolveStringsL_eq_names ts f st [] hg (by simp [ETy.depth] at hd; omega)
      simp only [ETy.toNode, nList, ETy.names]
      rw [resolveStrings]
      simp only [enterRes_ok _ _ hg]
      exact ih
  | .paren t, fuel, st, hg, hd => by
    cases fuel with
    | zero => simp [ETy.depth] at hd
    | succ f =>
      have ih := resolveStrings_eq_names t f st hg (by simp [ETy.depth] at hd; omega)
      simp only [ETy.toNode, ETy.names]
      rw [resolveStrings]
      simp only [enterRes_ok _ _ hg]
      exact ih
theorem resolveStringsL_eq_names : ∀ (ts : List ETy) (fuel : Nat) (st : St) (acc : List String), st.typeGaveUp = false → ETy.depthL ts ≤ fuel →
    (ETy.toNodes ts).foldl (unionStep fuel) (acc, st) = (acc ++ ETy.namesL ts, st)
  | [], _, _, _, _, _ => by simp [ETy.toNodes, ETy.namesL]
  | t :: ts, fuel, st, acc, hg, hd => by
    have hd' : t.depth ≤ fuel ∧ ETy.depthL ts ≤ fuel := by simp [ETy.depthL] at hd; omega
    have h2 := resolveStringsL_eq_names ts fuel st (acc ++ t.names) hg hd'.2
    simp only [ETy.toNodes, List.foldl, ETy.namesL]
    have hstep : unionStep fuel (acc, st) t.toNode = (acc ++ t.names, st) := by
      cases t with
      | lit s => simp [unionStep, ETy.toNode, ETy.names]
      | union us =>
        have h1 := resolveStrings_eq_names (.union us) fuel st hg hd'.1
        simp only [unionStep, ETy.toNode, nList] at h1 ⊢
        simp only [h1]
      | paren u =>
        have h1 := resolveStrings_eq_names (.paren u) fuel st hg hd'.1
        simp only [unionStep, ETy.toNode] at h1 ⊢
        simp only [h1]
    rw [hstep, h2]; simp
end

/-- **Literal unions expand to exactly their literals, in order, at every nesting depth the limit admits.** -/
theorem C19_literal_union_expansion (t : ETy) (st : St) (hg : st.typeGaveUp = false) (hd : t.depth ≤ FUEL) :
    resolveStrings FUEL st t.toNode = (t.names, st) := resolveStrings_eq_names t FUEL st hg hd

/-- … and through an alias: `type A = <union>; (e: A) => void`. -/
theorem C19_literal_union_through_alias (t : ETy) (st : St) (n b : String) (ir : List String) (iks rest : List Node)
    (as : List String) (f : Nat) (hd : t.depth ≤ f) (hreg : lookupReg st.typeAliases (n, b) = some t.toNode)
    (hg : st.typeGaveUp = false) :
    resolveStrings (f + 1) st (.mk .tsTypeRef as (.mk .ident (n :: b :: ir) iks :: rest)) = (t.names, st) := by
  simp only [resolveStrings, hreg, enterRes_ok _ _ hg]
  exact resolveStrings_eq_names t f st hg hd

/-! ### (3) call signatures -/

/-- the call signature `(e: <t>): void` -/
def callSigOf (t : ETy) : Node :=
  .mk .tsCallSig [] [nList [.mk .ident ["e", "u"] [.mk .tsTypeAnn [] [t.toNode]]], nNone, nNone]

theorem emitStep_callSig (t : ETy) (acc : List String) (st : St) (hg : st.typeGaveUp = false) (hd : t.depth ≤ FUEL) :
    emitStep (acc, st) (callSigOf t) = (acc ++ t.names, st) := by
  simp only [emitStep, callSigOf, nList, List.head?, typeAnnInner, resolveStrings_eq_names t FUEL st hg hd]

theorem emitFold_callSigs : ∀ (ts : List ETy) (acc : List String) (st : St), st.typeGaveUp = false → (∀ t ∈ ts, t.depth ≤ FUEL) →
    (ts.map callSigOf).foldl emitStep (acc, st) = (acc ++ ETy.namesL ts, st)
  | [], _, _, _, _ => by simp [ETy.namesL]
  | t :: ts, acc, st, hg, h => by
    simp only [List.map, List.foldl, emitStep_callSig t acc st hg (h t (by simp)), ETy.namesL]
    rw [emitFold_callSigs ts _ st hg (fun u hu => h u (by simp [hu]))]
    simp

theorem refineMembers_callSigs (ts : List ETy) : refineMembers (ts.map callSigOf) = ts.map callSigOf := by
  unfold refineMembers
  rw [List.filter_eq_self]
  intro m hm
  simp only [List.mem_map] at hm
  obtain ⟨t, _, rfl⟩ := hm
  simp [callSigOf]

/-- `(props, ctx: SetupContext<{ (e: U₁): void; … }>) => …` as the setup argument -/
def setupWithEmits (first : Node) (e : Node) : Node :=
  .mk .arg [] [.mk .arrow ["false", "false"] [.mk .list [] [first, .mk .ident ["ctx", "u"]
    [.mk .tsTypeAnn [] [.mk .tsTypeRef [] [nIdent "SetupContext" "u", .mk .tsTypeParamInst [] [nList [e]]]]]],
    .mk .block ["usr"] [], nNone, nNone]]

/-- **C19 for call signatures**: the `emits` array lists exactly the literals of every signature's first-parameter
    type, in order; nothing is reported (the state is unchanged). -/
theorem C19_call_signatures (ts : List ETy) (first : Node) (st : St) (hg : st.typeGaveUp = false) (h : ∀ t ∈ ts, t.depth ≤ FUEL) :
    extractEmitsType (setupWithEmits first (.mk .tsTypeLit [] [nList (ts.map callSigOf)])) st
      = (some (nArray ((ETy.namesL ts).map fun n => nArg (nStr n))), st) := by
  have hres : resolveElements FUEL st (.mk .tsTypeLit [] [nList (ts.map callSigOf)]) = (ts.map callSigOf, st) := by
    simp [FUEL, resolveElements, nList, refineMembers_callSigs, enterRes_ok _ _ hg]
  simp only [extractEmitsType, setupWithEmits, setupParams, Option.bind, List.getElem?_cons_succ, List.getElem?_cons_zero,
    typeAnnInner, nIdent, nList, List.head?]
  simp only [nList] at hres
  simp only [bne_self_eq_false, Bool.false_eq_true, if_false, hres, emitFold_callSigs ts [] st hg h, List.nil_append]

/-- the same for a function type `(e: U) => void` (resolved to one call signature) -/
theorem C19_function_type (t : ETy) (first : Node) (st : St) (hg : st.typeGaveUp = false) (h : t.depth ≤ FUEL) :
    extractEmitsType (setupWithEmits first
      (.mk .tsFnType [] [nList [.mk .ident ["e", "u"] [.mk .tsTypeAnn [] [t.toNode]]], nNone, nNone])) st
      = (some (nArray (t.names.map fun n => nArg (nStr n))), st) := by
  have hres : resolveElements FUEL st (.mk .tsFnType [] [nList [.mk .ident ["e", "u"] [.mk .tsTypeAnn [] [t.toNode]]], nNone, nNone])
      = ([callSigOf t], st) := by
    simp [FUEL, resolveElements, callSigOf, enterRes_ok _ _ hg]
  simp only [extractEmitsType, setupWithEmits, setupParams, Option.bind, List.getElem?_cons_succ, List.getElem?_cons_zero,
    typeAnnInner, nIdent, nList, List.head?]
  simp only [nList] at hres
  simp only [bne_self_eq_false, Bool.false_eq_true, if_false, hres, List.foldl, emitStep_callSig t [] st hg h, List.nil_append]

/-! ### (4) property syntax -/

/-- `name: [args]` or `'quoted-name': [args]` -/
def propSigOf (k : String × Bool) (ty : Node) : Node :=
  .mk .tsPropSig ["false", "false", "false"]
    [(if k.2 then .mk .str [k.1] [] else .mk .ident [k.1, "n"] []), .mk .tsTypeAnn [] [ty]]

theorem emitStep_propSig (k : String × Bool) (ty : Node) (acc : List String) (st : St) :
    emitStep (acc, st) (propSigOf k ty) = (acc ++ [k.1], st) := by
  obtain ⟨n, q⟩ := k
  cases q <;> simp [emitStep, propSigOf, memberKeyName]

theorem emitFold_propSigs : ∀ (ks : List ((String × Bool) × Node)) (acc : List String) (st : St),
    (ks.map fun k => propSigOf k.1 k.2).foldl emitStep (acc, st) = (acc ++ ks.map (·.1.1), st)
  | [], _, _ => by simp
  | k :: ks, acc, st => by
    simp only [List.map, List.foldl, emitStep_propSig]
    rw [emitFold_propSigs ks _ st]
    simp

/-- **C19 for the property syntax**: exactly the property names (identifier or quoted, so also names with `:` and `-`). -/
theorem C19_property_syntax (ks : List ((String × Bool) × Node)) (first : Node) (st : St) (hg : st.typeGaveUp = false) :
    extractEmitsType (setupWithEmits first (.mk .tsTypeLit [] [nList (ks.map fun k => propSigOf k.1 k.2)])) st
      = (some (nArray ((ks.map (·.1.1)).map fun n => nArg (nStr n))), st) := by
  have href : refineMembers (ks.map fun k => propSigOf k.1 k.2) = ks.map fun k => propSigOf k.1 k.2 := by
    unfold refineMembers
    rw [List.filter_eq_self]
    intro m hm
    simp only [List.mem_map] at hm
    obtain ⟨t, _, rfl⟩ := hm
    simp [propSigOf]
  have hres : resolveElements FUEL st (.mk .tsTypeLit [] [nList (ks.map fun k => propSigOf k.1 k.2)])
      = (ks.map (fun k => propSigOf k.1 k.2), st) := by
    simp [FUEL, resolveElements, nList, href, enterRes_ok _ _ hg]
  simp only [extractEmitsType, setupWithEmits, setupParams, Option.bind, List.getElem?_cons_succ, List.getElem?_cons_zero,
    typeAnnInner, nIdent, nList, List.head?]
  simp only [nList] at hres
  simp only [bne_self_eq_false, Bool.false_eq_true, if_false, hres, emitFold_propSigs ks [] st, List.nil_append]

/-- non-vacuity -/
example : (ETy.union [.lit "a", .union [.lit "update:x", .lit "b-c"]]).depth ≤ FUEL
    ∧ (ETy.union [.lit "a", .union [.lit "update:x", .lit "b-c"]]).names = ["a", "update:x", "b-c"] := by
  constructor <;> decide

end VueJsx
