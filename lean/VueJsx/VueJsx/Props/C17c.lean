/-
  C17, continued — REFINEMENT: on every type that involves no indexed access and no bigint literal (the recorded finding), the
  runtime types the model infers are EXACTLY the constructors the specification (`TypeSpec.ctorsOfType`, the oracle's reading)
  assigns - same entries, same order - for every registry and every nesting the fuel admits; nothing is reported.
-/
import VueJsx.TypeSpec
import VueJsx.Props.C17

namespace VueJsx

/-- a runtime type entry as a constructor of the specification -/
def rtToCtor : RT → Ctor
  | none => .nullValue
  | some n => if n == ANY_TYPE then .anyValue else .named n

theorem rtToCtor_inj (a b : RT) (h : rtToCtor a = rtToCtor b) : a = b := by
  cases a with
  | none =>
    cases b with
    | none => rfl
    | some m => simp only [rtToCtor] at h; split at h <;> simp at h
  | some n =>
    cases b with
    | none => simp only [rtToCtor] at h; split at h <;> simp at h
    | some m =>
      simp only [rtToCtor] at h
      by_cases hn : (n == ANY_TYPE) = true <;> by_cases hm : (m == ANY_TYPE) = true <;> simp_all

theorem contains_map_rt (x : RT) (xs : List RT) : (xs.map rtToCtor).contains (rtToCtor x) = xs.contains x := by
  induction xs with
  | nil => rfl
  | cons y ys ih =>
    simp only [List.map_cons, List.contains_cons, ih]
    congr 1
    by_cases h : x = y
    · subst h; simp
    · have hne : rtToCtor x ≠ rtToCtor y := fun hh => h (rtToCtor_inj _ _ hh)
      have e1 : (x == y) = false := by simpa using h
      have e2 : (rtToCtor x == rtToCtor y) = false := by simpa using hne
      rw [e1, e2]

theorem map_rtInsert (x : RT) (xs : List RT) : (rtInsert x xs).map rtToCtor = ctorInsert (rtToCtor x) (xs.map rtToCtor) := by
  unfold rtInsert ctorInsert
  rw [contains_map_rt]
  split <;> simp

theorem map_rtExtend (xs ys : List RT) : (rtExtend xs ys).map rtToCtor = ctorUnion (xs.map rtToCtor) (ys.map rtToCtor) := by
  unfold rtExtend ctorUnion
  induction ys generalizing xs with
  | nil => rfl
  | cons y ys ih => simp only [List.foldl_cons, List.map_cons]; rw [ih, map_rtInsert]

def rtStep (acc : List RT) (m : Node) : List RT :=
  match m with
  | .mk .tsCallSig _ _ => rtInsert (some "Function") acc
  | .mk .tsCtorSig _ _ => rtInsert (some "Function") acc
  | _ => rtInsert (some "Object") acc

def ctorStep (acc : List Ctor) (m : Node) : List Ctor :=
  match m with
  | .mk .tsCallSig _ _ => ctorInsert (.named "Function") acc
  | .mk .tsCtorSig _ _ => ctorInsert (.named "Function") acc
  | _ => ctorInsert (.named "Object") acc

theorem memberRuntime_eq (ms : List Node) : memberRuntime ms = ms.foldl rtStep [] := by
  unfold memberRuntime
  congr 1

theorem membersCtors_eq (ms : List Node) : membersCtors ms = ms.foldl ctorStep [] := by
  unfold membersCtors
  congr 1

theorem foldl_steps_map : ∀ (ms : List Node) (acc : List RT),
    (ms.foldl rtStep acc).map rtToCtor = ms.foldl ctorStep (acc.map rtToCtor)
  | [], _ => rfl
  | m :: ms, acc => by
    simp only [List.foldl_cons]
    rw [foldl_steps_map ms]
    congr 1
    obtain ⟨k, as, ks⟩ := m
    cases k <;> simp [rtStep, ctorStep, map_rtInsert, rtToCtor, ANY_TYPE]

theorem memberRuntime_map (ms : List Node) : (memberRuntime ms).map rtToCtor = membersCtors ms := by
  rw [memberRuntime_eq, membersCtors_eq, foldl_steps_map]
  rfl

theorem orObject_map (ts : List RT) : (orObject ts).map rtToCtor = objectLike (ts.map rtToCtor) := by
  unfold orObject objectLike
  cases ts <;> simp [rtToCtor, ANY_TYPE]

theorem filter_isSome_map (ts : List RT) :
    (ts.filter (·.isSome)).map rtToCtor = (ts.map rtToCtor).filter (· != Ctor.nullValue) := by
  induction ts with
  | nil => rfl
  | cons t ts ih =>
    cases t with
    | none => simp [rtToCtor, ih]
    | some n => by_cases h : n = ANY_TYPE <;> simp [rtToCtor, h, ih]

/-! ### the types the theorem speaks about -/

/-- within the fuel: no indexed access, no bigint literal type (neither directly nor behind aliases, interfaces' parents or the
    operand of NonNullable / Exclude / OmitThisParameter / Extract) -/
def plainTy (fuel : Nat) (st : St) (ty : Node) : Bool :=
  match fuel with
  | 0 => false
  | fuel + 1 =>
    match ty with
    | .mk .tsLitType _ [lit] => (match lit with | .mk .bigint _ _ => false | _ => true)
    | .mk .tsParen _ [t] => plainTy fuel st t
    | .mk .tsOptional _ [t] => plainTy fuel st t
    | .mk (.other "TsRestType") _ [.mk .tsArray _ [elem]] => plainTy fuel st elem
    | .mk .tsUnion _ [.mk .list _ ts] => ts.all (plainTy fuel st)
    | .mk .tsIntersection _ [.mk .list _ ts] => ts.all (plainTy fuel st)
    | .mk .tsIndexed _ _ => false
    | .mk .tsTypeRef _ [.mk .ident (n :: b :: _) _, tparams] =>
      match lookupReg st.typeAliases (n, b) with
      | some t => plainTy fuel st t
      | none =>
        match lookupReg st.interfaces (n, b) with
        | some (.mk .tsIface _ [_, _, .mk .list _ ext, .mk .tsIfaceBody _ [.mk .list _ _]]) =>
          ext.all fun p =>
            match p with
            | .mk .tsExprWithTypeArgs _ [.mk .ident ias _, targs] => plainTy fuel st (.mk .tsTypeRef [] [.mk .ident ias [], targs])
            | _ => true
        | some _ => true
        | none =>
          let ps := typeParamsList tparams
          if n == "NonNullable" || n == "Exclude" || n == "OmitThisParameter" then
            (match ps.head? with | some p => plainTy fuel st p | none => true)
          else if n == "Extract" then
            (match ps[1]? with | some p => plainTy fuel st p | none => true)
          else true
    | _ => true

/-! ### the refinement -/

/-- what the theorem says about one type -/
def Agrees (fuel : Nat) (st : St) (ty : Node) : Prop :=
  (inferRuntime fuel st ty).2 = st ∧ (inferRuntime fuel st ty).1.map rtToCtor = ctorsOfType fuel st ty

theorem union_fold_sim (fuel : Nat) (st : St) : ∀ (ts : List Node) (acc : List RT),
    (∀ t ∈ ts, Agrees fuel st t) →
    (ts.foldl (fun (acc : List RT × St) t => let (more, st) := inferRuntime fuel acc.2 t; (rtExtend acc.1 more, st)) (acc, st)).2 = st
    ∧ ((ts.foldl (fun (acc : List RT × St) t => let (more, st) := inferRuntime fuel acc.2 t; (rtExtend acc.1 more, st)) (acc, st)).1).map rtToCtor
        = ts.foldl (fun a t => ctorUnion a (ctorsOfType fuel st t)) (acc.map rtToCtor)
  | [], acc, _ => ⟨rfl, rfl⟩
  | t :: ts, acc, h => by
    obtain ⟨h2, h1⟩ := h t (by simp)
    simp only [List.foldl_cons]
    have e : inferRuntime fuel st t = ((inferRuntime fuel st t).1, st) := Prod.ext rfl h2
    rw [e]
    simp only
    have ih := union_fold_sim fuel st ts (rtExtend acc (inferRuntime fuel st t).1) (fun t' ht' => h t' (by simp [ht']))
    rw [map_rtExtend, h1] at ih
    exact ih

theorem agrees_tsKeyword (fuel : Nat) (st : St) (as : List String) (ks : List Node) (hg : st.typeGaveUp = false)
    (ih : ∀ t, plainTy fuel st t = true → Agrees fuel st t) (hp : plainTy (fuel + 1) st (.mk .tsKeyword as ks) = true) :
    Agrees (fuel + 1) st (.mk .tsKeyword as ks) := by
  unfold Agrees

  match as with
  | [kw] =>
    simp only [inferRuntime, ctorsOfType, enterRes_ok _ _ hg, true_and]
    repeat' split
    all_goals first | (simp [rtToCtor, ANY_TYPE]; done) | simp_all
  | [] => simp [inferRuntime, ctorsOfType, enterRes_ok _ _ hg, rtToCtor, ANY_TYPE]
  | _ :: _ :: _ => simp [inferRuntime, ctorsOfType, enterRes_ok _ _ hg, rtToCtor, ANY_TYPE]

theorem agrees_tsTypeLit (fuel : Nat) (st : St) (as : List String) (ks : List Node) (hg : st.typeGaveUp = false)
    (ih : ∀ t, plainTy fuel st t = true → Agrees fuel st t) (hp : plainTy (fuel + 1) st (.mk .tsTypeLit as ks) = true) :
    Agrees (fuel + 1) st (.mk .tsTypeLit as ks) := by
  unfold Agrees

  match ks with
  | [.mk kk las members] =>
    cases kk <;> try (simp [inferRuntime, ctorsOfType, enterRes_ok _ _ hg, rtToCtor, ANY_TYPE]; done)
    case list =>
      simp only [inferRuntime, ctorsOfType, enterRes_ok _ _ hg, true_and]
      rw [orObject_map, memberRuntime_map]
  | [] => simp [inferRuntime, ctorsOfType, enterRes_ok _ _ hg, rtToCtor, ANY_TYPE]
  | _ :: _ :: _ => simp [inferRuntime, ctorsOfType, enterRes_ok _ _ hg, rtToCtor, ANY_TYPE]

theorem agrees_tsIndexed (fuel : Nat) (st : St) (as : List String) (ks : List Node) (hg : st.typeGaveUp = false)
    (ih : ∀ t, plainTy fuel st t = true → Agrees fuel st t) (hp : plainTy (fuel + 1) st (.mk .tsIndexed as ks) = true) :
    Agrees (fuel + 1) st (.mk .tsIndexed as ks) := by
  simp [plainTy] at hp

theorem agrees_tsParen (fuel : Nat) (st : St) (as : List String) (ks : List Node) (hg : st.typeGaveUp = false)
    (ih : ∀ t, plainTy fuel st t = true → Agrees fuel st t) (hp : plainTy (fuel + 1) st (.mk .tsParen as ks) = true) :
    Agrees (fuel + 1) st (.mk .tsParen as ks) := by
  unfold Agrees

  match ks with
  | [t] =>
    have := ih t (by simpa [plainTy] using hp)
    simpa [inferRuntime, ctorsOfType, enterRes_ok _ _ hg, Agrees] using this
  | [] => simp [inferRuntime, ctorsOfType, enterRes_ok _ _ hg, rtToCtor, ANY_TYPE]
  | _ :: _ :: _ => simp [inferRuntime, ctorsOfType, enterRes_ok _ _ hg, rtToCtor, ANY_TYPE]

theorem agrees_tsOptional (fuel : Nat) (st : St) (as : List String) (ks : List Node) (hg : st.typeGaveUp = false)
    (ih : ∀ t, plainTy fuel st t = true → Agrees fuel st t) (hp : plainTy (fuel + 1) st (.mk .tsOptional as ks) = true) :
    Agrees (fuel + 1) st (.mk .tsOptional as ks) := by
  unfold Agrees

  match ks with
  | [t] =>
    have := ih t (by simpa [plainTy] using hp)
    simpa [inferRuntime, ctorsOfType, enterRes_ok _ _ hg, Agrees] using this
  | [] => simp [inferRuntime, ctorsOfType, enterRes_ok _ _ hg, rtToCtor, ANY_TYPE]
  | _ :: _ :: _ => simp [inferRuntime, ctorsOfType, enterRes_ok _ _ hg, rtToCtor, ANY_TYPE]

theorem agrees_tsUnion (fuel : Nat) (st : St) (as : List String) (ks : List Node) (hg : st.typeGaveUp = false)
    (ih : ∀ t, plainTy fuel st t = true → Agrees fuel st t) (hp : plainTy (fuel + 1) st (.mk .tsUnion as ks) = true) :
    Agrees (fuel + 1) st (.mk .tsUnion as ks) := by
  unfold Agrees

  match ks with
  | [.mk kk las ts] =>
    cases kk <;> try (simp [inferRuntime, ctorsOfType, enterRes_ok _ _ hg, rtToCtor, ANY_TYPE]; done)
    case list =>
      have hall : ∀ t ∈ ts, Agrees fuel st t := fun t ht => ih t (by
        have := hp; simp only [plainTy, List.all_eq_true] at this; exact this t ht)
      have := union_fold_sim fuel st ts [] hall
      simpa [inferRuntime, ctorsOfType, enterRes_ok _ _ hg] using this
  | [] => simp [inferRuntime, ctorsOfType, enterRes_ok _ _ hg, rtToCtor, ANY_TYPE]
  | _ :: _ :: _ => simp [inferRuntime, ctorsOfType, enterRes_ok _ _ hg, rtToCtor, ANY_TYPE]

theorem agrees_tsIntersection (fuel : Nat) (st : St) (as : List String) (ks : List Node) (hg : st.typeGaveUp = false)
    (ih : ∀ t, plainTy fuel st t = true → Agrees fuel st t) (hp : plainTy (fuel + 1) st (.mk .tsIntersection as ks) = true) :
    Agrees (fuel + 1) st (.mk .tsIntersection as ks) := by
  unfold Agrees

  match ks with
  | [.mk kk las ts] =>
    cases kk <;> try (simp [inferRuntime, ctorsOfType, enterRes_ok _ _ hg, rtToCtor, ANY_TYPE]; done)
    case list =>
      have hall : ∀ t ∈ ts, Agrees fuel st t := fun t ht => ih t (by
        have := hp; simp only [plainTy, List.all_eq_true] at this; exact this t ht)
      have := union_fold_sim fuel st ts [] hall
      simpa [inferRuntime, ctorsOfType, enterRes_ok _ _ hg] using this
  | [] => simp [inferRuntime, ctorsOfType, enterRes_ok _ _ hg, rtToCtor, ANY_TYPE]
  | _ :: _ :: _ => simp [inferRuntime, ctorsOfType, enterRes_ok _ _ hg, rtToCtor, ANY_TYPE]

theorem agrees_tsLitType (fuel : Nat) (st : St) (as : List String) (ks : List Node) (hg : st.typeGaveUp = false)
    (ih : ∀ t, plainTy fuel st t = true → Agrees fuel st t) (hp : plainTy (fuel + 1) st (.mk .tsLitType as ks) = true) :
    Agrees (fuel + 1) st (.mk .tsLitType as ks) := by
  unfold Agrees

  match ks with
  | [.mk lk las lks] =>
    cases lk <;> first
      | (simp [inferRuntime, ctorsOfType, enterRes_ok _ _ hg, rtToCtor, ANY_TYPE]; done)
      | (simp [plainTy] at hp; done)
  | [] => simp [inferRuntime, ctorsOfType, enterRes_ok _ _ hg, rtToCtor, ANY_TYPE]
  | _ :: _ :: _ => simp [inferRuntime, ctorsOfType, enterRes_ok _ _ hg, rtToCtor, ANY_TYPE]

theorem agrees_other (fuel : Nat) (st : St) (tag : String) (as : List String) (ks : List Node) (hg : st.typeGaveUp = false)
    (ih : ∀ t, plainTy fuel st t = true → Agrees fuel st t) (hp : plainTy (fuel + 1) st (.mk (.other tag) as ks) = true) :
    Agrees (fuel + 1) st (.mk (.other tag) as ks) := by
  unfold Agrees

  by_cases htag : tag = "TsRestType"
  · subst htag
    match ks with
    | [.mk kk kas kks] =>
      cases kk <;> try (simp [inferRuntime, ctorsOfType, enterRes_ok _ _ hg, rtToCtor, ANY_TYPE]; done)
      case tsArray =>
        match kks with
        | [elem] =>
          have := ih elem (by simpa [plainTy] using hp)
          simpa [inferRuntime, ctorsOfType, enterRes_ok _ _ hg, Agrees] using this
        | [] => simp [inferRuntime, ctorsOfType, enterRes_ok _ _ hg, rtToCtor, ANY_TYPE]
        | _ :: _ :: _ => simp [inferRuntime, ctorsOfType, enterRes_ok _ _ hg, rtToCtor, ANY_TYPE]
    | [] => simp [inferRuntime, ctorsOfType, enterRes_ok _ _ hg, rtToCtor, ANY_TYPE]
    | _ :: _ :: _ => simp [inferRuntime, ctorsOfType, enterRes_ok _ _ hg, rtToCtor, ANY_TYPE]
  · simp [inferRuntime, ctorsOfType, enterRes_ok _ _ hg, rtToCtor, ANY_TYPE, htag]

def parentRt (fuel : Nat) (acc : List RT × St) (parent : Node) : List RT × St :=
  match parent with
  | .mk .tsExprWithTypeArgs _ [.mk .ident ias _, targs] =>
    let (more, st) := inferRuntime fuel acc.2 (.mk .tsTypeRef [] [.mk .ident ias [], targs])
    (rtExtend acc.1 more, st)
  | _ => (rtInsert (some "Object") acc.1, acc.2)

def parentCtor (fuel : Nat) (st : St) (acc : List Ctor) (p : Node) : List Ctor :=
  match p with
  | .mk .tsExprWithTypeArgs _ [.mk .ident ias _, targs] => ctorUnion acc (ctorsOfType fuel st (.mk .tsTypeRef [] [.mk .ident ias [], targs]))
  | _ => ctorInsert (.named "Object") acc

def parentPlain (fuel : Nat) (st : St) (p : Node) : Bool :=
  match p with
  | .mk .tsExprWithTypeArgs _ [.mk .ident ias _, targs] => plainTy fuel st (.mk .tsTypeRef [] [.mk .ident ias [], targs])
  | _ => true

theorem parent_fold_sim (fuel : Nat) (st : St) (ih : ∀ t, plainTy fuel st t = true → Agrees fuel st t) :
    ∀ (ext : List Node) (acc : List RT), ext.all (parentPlain fuel st) = true →
      (ext.foldl (parentRt fuel) (acc, st)).2 = st
      ∧ ((ext.foldl (parentRt fuel) (acc, st)).1).map rtToCtor = ext.foldl (parentCtor fuel st) (acc.map rtToCtor)
  | [], acc, _ => ⟨rfl, rfl⟩
  | p :: ext, acc, h => by
    simp only [List.all_cons, Bool.and_eq_true] at h
    simp only [List.foldl_cons]
    have hstep : (parentRt fuel (acc, st) p).2 = st ∧ (parentRt fuel (acc, st) p).1.map rtToCtor = parentCtor fuel st (acc.map rtToCtor) p := by
      unfold parentRt parentCtor
      split
      · rename_i as ias iks targs
        have hpl : plainTy fuel st (.mk .tsTypeRef [] [.mk .ident ias [], targs]) = true := by
          have := h.1; unfold parentPlain at this; simpa using this
        obtain ⟨h2, h1⟩ := ih _ hpl
        have e : inferRuntime fuel st (.mk .tsTypeRef [] [.mk .ident ias [], targs])
            = ((inferRuntime fuel st (.mk .tsTypeRef [] [.mk .ident ias [], targs])).1, st) := Prod.ext rfl h2
        rw [e]
        simp only [true_and]
        rw [map_rtExtend, h1]
      · exact ⟨rfl, by rw [map_rtInsert]; simp [rtToCtor, ANY_TYPE]⟩
    have e : parentRt fuel (acc, st) p = ((parentRt fuel (acc, st) p).1, st) := Prod.ext rfl hstep.1
    rw [e]
    have := parent_fold_sim fuel st ih ext (parentRt fuel (acc, st) p).1 h.2
    rw [hstep.2] at this
    exact this

theorem inferRuntime_iface (fuel : Nat) (st : St) (as : List String) (n b : String) (r : List String) (iks : List Node) (tparams : Node)
    (ias2 eas bas las : List String) (id tps : Node) (ext members : List Node) (hg : st.typeGaveUp = false)
    (hl : lookupReg st.typeAliases (n, b) = none)
    (hi : lookupReg st.interfaces (n, b) = some (.mk .tsIface ias2 [id, tps, .mk .list eas ext, .mk .tsIfaceBody bas [.mk .list las members]])) :
    inferRuntime (fuel + 1) st (.mk .tsTypeRef as [.mk .ident (n :: b :: r) iks, tparams])
      = (orObject (ext.foldl (parentRt fuel) (memberRuntime members, st)).1, (ext.foldl (parentRt fuel) (memberRuntime members, st)).2) := by
  rw [inferRuntime]
  simp only [enterRes_ok _ _ hg, hl, hi]
  rfl

theorem ctorsOfType_iface (fuel : Nat) (st : St) (as : List String) (n b : String) (r : List String) (iks : List Node) (tparams : Node)
    (ias2 eas bas las : List String) (id tps : Node) (ext members : List Node)
    (hl : lookupReg st.typeAliases (n, b) = none)
    (hi : lookupReg st.interfaces (n, b) = some (.mk .tsIface ias2 [id, tps, .mk .list eas ext, .mk .tsIfaceBody bas [.mk .list las members]])) :
    ctorsOfType (fuel + 1) st (.mk .tsTypeRef as [.mk .ident (n :: b :: r) iks, tparams])
      = objectLike (ext.foldl (parentCtor fuel st) (membersCtors members)) := by
  rw [ctorsOfType]
  simp only [hl, hi]
  rfl

set_option maxHeartbeats 1000000 in
theorem agrees_tsTypeRef (fuel : Nat) (st : St) (as : List String) (ks : List Node) (hg : st.typeGaveUp = false)
    (ih : ∀ t, plainTy fuel st t = true → Agrees fuel st t) (hp : plainTy (fuel + 1) st (.mk .tsTypeRef as ks) = true) :
    Agrees (fuel + 1) st (.mk .tsTypeRef as ks) := by
  unfold Agrees
  match ks with
  | [.mk kk ias iks, tparams] =>
    cases kk <;> try (simp [inferRuntime, ctorsOfType, enterRes_ok _ _ hg, rtToCtor, ANY_TYPE]; done)
    case ident =>
      match ias with
      | n :: b :: r =>
        simp only [plainTy] at hp
        cases hl : lookupReg st.typeAliases (n, b) with
        | some t =>
          rw [hl] at hp
          simp only [inferRuntime, ctorsOfType, enterRes_ok _ _ hg, hl]
          exact ih t hp
        | none =>
          rw [hl] at hp
          simp only at hp
          cases hi : lookupReg st.interfaces (n, b) with
          | some iface =>
            rw [hi] at hp
            split at hp
            · -- the interface has the expected shape
              rename_i ias2 id tps eas ext bas las members heq
              simp only [Option.some.injEq] at heq
              subst heq
              have hall : ext.all (parentPlain fuel st) = true := by
                rw [← hp]; congr 1
              obtain ⟨h2, h1⟩ := parent_fold_sim fuel st ih ext (memberRuntime members) hall
              rw [inferRuntime_iface fuel st as n b r iks tparams ias2 eas bas las id tps ext members hg hl hi,
                  ctorsOfType_iface fuel st as n b r iks tparams ias2 eas bas las id tps ext members hl hi]
              refine ⟨h2, ?_⟩
              simp only
              rw [orObject_map, h1, memberRuntime_map]
            · -- some other node is registered under the name: nothing on either side
              rename_i hne heq
              simp only [Option.some.injEq] at heq
              subst heq
              simp only [inferRuntime, ctorsOfType, enterRes_ok _ _ hg, hl, hi]
              simp
            · rename_i heq; simp at heq
          | none =>
            rw [hi] at hp
            simp only at hp
            simp only [inferRuntime, ctorsOfType, enterRes_ok _ _ hg, hl, hi, builtinClasses]
            simp only [List.contains_eq_mem, List.mem_cons, List.mem_nil_iff, or_false, decide_eq_true_eq, beq_iff_eq, Bool.or_eq_true] at hp ⊢
            by_cases hb : n = "Array" ∨ n = "Function" ∨ n = "Object" ∨ n = "Set" ∨ n = "Map" ∨ n = "WeakSet" ∨ n = "WeakMap" ∨ n = "Date" ∨ n = "Promise" ∨ n = "Error" ∨ n = "RegExp"
            · simp only [hb, if_true, true_and]
              rcases hb with rfl | rfl | rfl | rfl | rfl | rfl | rfl | rfl | rfl | rfl | rfl <;> simp [rtToCtor, ANY_TYPE]
            · simp only [hb, if_false]
              by_cases hu : n = "Partial" ∨ n = "Required" ∨ n = "Readonly" ∨ n = "Record" ∨ n = "Pick" ∨ n = "Omit" ∨ n = "InstanceType"
              · simp [hu, rtToCtor, ANY_TYPE]
              · simp only [hu, if_false]
                by_cases hs : n = "Uppercase" ∨ n = "Lowercase" ∨ n = "Capitalize" ∨ n = "Uncapitalize"
                · simp [hs, rtToCtor, ANY_TYPE]
                · simp only [hs, if_false]
                  by_cases ha : n = "Parameters" ∨ n = "ConstructorParameters"
                  · simp [ha, rtToCtor, ANY_TYPE]
                  · simp only [ha, if_false]
                    by_cases hnn : n = "NonNullable"
                    · simp only [hnn, if_true, true_or] at hp ⊢
                      cases hh : (typeParamsList tparams).head? with
                      | none => simp [rtToCtor, ANY_TYPE]
                      | some p =>
                        rw [hh] at hp
                        obtain ⟨h2, h1⟩ := ih p hp
                        simp only
                        exact ⟨h2, by rw [filter_isSome_map, h1]⟩
                    · simp only [hnn, if_false, false_or] at hp ⊢
                      by_cases hex : n = "Exclude" ∨ n = "OmitThisParameter"
                      · simp only [hex, if_true] at hp ⊢
                        cases hh : (typeParamsList tparams).head? with
                        | none => simp [rtToCtor, ANY_TYPE]
                        | some p =>
                          rw [hh] at hp
                          exact ih p hp
                      · simp only [hex, if_false] at hp ⊢
                        by_cases hxt : n = "Extract"
                        · simp only [hxt, if_true] at hp ⊢
                          cases hh : (typeParamsList tparams)[1]? with
                          | none => simp [rtToCtor, ANY_TYPE]
                          | some p =>
                            rw [hh] at hp
                            exact ih p hp
                        · simp [hxt, rtToCtor, ANY_TYPE]
      | [] => simp [inferRuntime, ctorsOfType, enterRes_ok _ _ hg, rtToCtor, ANY_TYPE]
      | [_] => simp [inferRuntime, ctorsOfType, enterRes_ok _ _ hg, rtToCtor, ANY_TYPE]
  | [] => simp [inferRuntime, ctorsOfType, enterRes_ok _ _ hg, rtToCtor, ANY_TYPE]
  | [_] => simp [inferRuntime, ctorsOfType, enterRes_ok _ _ hg, rtToCtor, ANY_TYPE]
  | _ :: _ :: _ :: _ => simp [inferRuntime, ctorsOfType, enterRes_ok _ _ hg, rtToCtor, ANY_TYPE]

theorem C17_refines_spec : ∀ (fuel : Nat) (st : St) (ty : Node), st.typeGaveUp = false → plainTy fuel st ty = true →
    Agrees fuel st ty
  | 0, _, _, _, hp => by simp [plainTy] at hp
  | fuel + 1, st, ty, hg, hp => by
    have ih := fun t hpt => C17_refines_spec fuel st t hg hpt
    obtain ⟨k, as, ks⟩ := ty
    cases k <;> try (unfold Agrees; simp [inferRuntime, ctorsOfType, enterRes_ok _ _ hg, rtToCtor, ANY_TYPE]; done)
    case tsKeyword => exact agrees_tsKeyword fuel st as ks hg ih hp
    case tsTypeLit => exact agrees_tsTypeLit fuel st as ks hg ih hp
    case tsIndexed => exact agrees_tsIndexed fuel st as ks hg ih hp
    case tsParen => exact agrees_tsParen fuel st as ks hg ih hp
    case tsOptional => exact agrees_tsOptional fuel st as ks hg ih hp
    case tsUnion => exact agrees_tsUnion fuel st as ks hg ih hp
    case tsIntersection => exact agrees_tsIntersection fuel st as ks hg ih hp
    case tsLitType => exact agrees_tsLitType fuel st as ks hg ih hp
    case other tag => exact agrees_other fuel st tag as ks hg ih hp
    case tsTypeRef => exact agrees_tsTypeRef fuel st as ks hg ih hp

/-- **C17, refinement.**  For every type that involves no indexed access and no bigint literal type - keywords, literal types,
    function / array / tuple / object literal types, unions, intersections, parentheses, optional and rest types, built-in
    classes and utility types, NonNullable / Exclude / Extract, alias chains and interfaces with `extends` clauses (type
    arguments included), through ANY registry and to ANY nesting the depth limit admits - the runtime types the model infers
    are exactly the constructors the specification assigns (same entries, same order: the Boolean / String order included), and
    nothing is reported. -/
theorem C17_model_implements_spec (st : St) (ty : Node) (hg : st.typeGaveUp = false) (hp : plainTy FUEL st ty = true) :
    (inferRuntime FUEL st ty).2 = st ∧ (inferRuntime FUEL st ty).1.map rtToCtor = ctorsOfType FUEL st ty :=
  C17_refines_spec FUEL st ty hg hp

/-- non-vacuity: `interface B { (): void }  interface A extends B { a: 1 }`, `p: NonNullable<A | null> | boolean | string` -/
def exC17B : Node := .mk .tsIface [] [nIdent "B" "t", nNone, nList [], .mk .tsIfaceBody [] [nList [.mk .tsCallSig [] [nList [], nNone, nNone]]]]
def exC17A : Node := .mk .tsIface [] [nIdent "A" "t", nNone,
  nList [.mk .tsExprWithTypeArgs [] [.mk .ident ["B", "t"] [], nNone]],
  .mk .tsIfaceBody [] [nList [.mk .tsPropSig ["false", "false", "false"] [.mk .ident ["a", "n"] [], nNone]]]]
def exC17St : St := { interfaces := [(("A", "t"), exC17A), (("B", "t"), exC17B)] }
def exC17Ty : Node := .mk .tsUnion [] [nList [
  .mk .tsTypeRef [] [.mk .ident ["NonNullable", "u"] [], .mk .tsTypeParamInst [] [nList [.mk .tsUnion [] [nList [.mk .tsTypeRef [] [.mk .ident ["A", "t"] [], nNone], .mk .tsKeyword ["null"] []]]]]],
  .mk .tsKeyword ["boolean"] [], .mk .tsKeyword ["string"] []]]
example : plainTy FUEL exC17St exC17Ty = true ∧ exC17St.typeGaveUp = false
    ∧ ctorsOfType FUEL exC17St exC17Ty = [.named "Object", .named "Function", .named "Boolean", .named "String"] := by
  refine ⟨by decide, rfl, by decide⟩

end VueJsx
