/-
  C04 — Directives reach the runtime with the right definition, value, arg and modifiers.
  Theorems about `dirNameParts`, `parseDirective`, `resolveDirective`, `attrStep` of the model.
-/
import VueJsx.Element

namespace VueJsx
open Text

/-- Only the FIRST letter of a directive name is lower-cased; everything after it is kept as written. -/
theorem C04_name_first_letter_only (c : Char) (cs : List Char) : lowerFirst (c :: cs) = asciiLower c :: cs := rfl

/-- For a plain (non-namespaced) spelling the directive has no name-level argument: every `_` suffix is a modifier. -/
theorem C04_plain_name_no_argument (s : String) : (dirNameParts (.plain s)).2.1 = none := by
  simp only [dirNameParts]
  split <;> rfl

/-- For `v-name:arg_m1_m2` the argument is the part of the local name before the first `_`
    and the modifiers are the remaining `_` pieces. -/
theorem C04_namespaced_argument (ns name : String) (a : List Char) (rest : List (List Char))
    (h : splitOn '_' name.toList = a :: rest) :
    (dirNameParts (.ns ns name)).2 = (some (String.ofList a), rest.map String.ofList) := by
  simp [dirNameParts, h]

/-- `v-show` binds Vue's vShow. -/
theorem C04_show_is_vShow (tagN : Node) (attrs : List Node) (st : St) :
    resolveDirective "show" tagN attrs st = st.importFromVue "vShow" := by
  simp [resolveDirective]

/-- Any other (non-model) directive is resolved at runtime under its written name. -/
theorem C04_custom_resolved_by_name (name : String) (tagN : Node) (attrs : List Node) (st : St)
    (h1 : name ≠ "show") (h2 : name ≠ "model") :
    resolveDirective name tagN attrs st =
      (nCall (st.importFromVue "resolveDirective").1 [nArg (nStr name)], (st.importFromVue "resolveDirective").2) := by
  simp [resolveDirective, h1, h2]

/-- A directive whose value is a plain (non-array) expression: the value is that expression; the argument comes from
    the name; the modifiers are the `_` suffixes, each `true`; `void 0` stands in for a missing argument. -/
theorem C04_expression_value (name : AttrName) (e : Node) (cas : List String) (isComp : Bool) (st : St)
    (hname : ∀ d, (dirNameParts name).1 = d → d ≠ "html" ∧ d ≠ "text" ∧ d ≠ "model" ∧ d ≠ "slots")
    (he : arrayElems e = none) (hne : ∀ a k, e ≠ .mk .jsxEmpty a k) :
    (parseDirective name (.mk .jsxExprContainer cas [e]) isComp st).1 =
      let mods := setOfList (dirNameParts name).2.2
      let arg0 := (dirNameParts name).2.1.map nStr
      let arg := if !mods.isEmpty then (match arg0 with | some a => some a | none => some nVoid0) else arg0
      Dir.normal (dirNameParts name).1 arg (transformModifiers mods false) e := by
  obtain ⟨h1, h2, h3, h4⟩ := hname _ rfl
  have hc : containerExpr (.mk .jsxExprContainer cas [e]) = some e := by
    unfold containerExpr
    split
    · rename_i heq
      simp at heq
      obtain ⟨_, rfl⟩ := heq
      split
      · exact absurd rfl (hne _ _)
      · rfl
    · rename_i hh; exact absurd rfl (hh _ _)
  unfold parseDirective
  simp only [hc, he]
  simp
  cases hm : (setOfList (dirNameParts name).2.2) <;> simp [transformModifiers, h1, h2, h3, h4]
  cases (dirNameParts name).2.1 <;> rfl

/-- The array form `[value, arg]` WITHOUT a modifier list: the value is the first element, the argument comes from the name or
    else is the second element, and the modifiers are the `_mod` suffixes of the name, each `true` (fix ee35fcf: they were dropped). -/
theorem C04_array_argument_keeps_suffix_modifiers (name : AttrName) (e v second : Node) (cas : List String) (isComp : Bool) (st : St)
    (hname : ∀ d, (dirNameParts name).1 = d → d ≠ "html" ∧ d ≠ "text" ∧ d ≠ "model" ∧ d ≠ "slots")
    (hne : ∀ a k, e ≠ .mk .jsxEmpty a k)
    (he : ∃ elems, arrayElems e = some elems ∧ plainElem elems 0 = some v ∧ plainElem elems 1 = some second ∧ plainElem elems 2 = none)
    (hs : arrayElems second = none) :
    (parseDirective name (.mk .jsxExprContainer cas [e]) isComp st).1 =
      let mods := setOfList (dirNameParts name).2.2
      let arg0 : Option Node := match (dirNameParts name).2.1 with | some a => some (nStr a) | none => some second
      Dir.normal (dirNameParts name).1 arg0 (transformModifiers mods false) v := by
  obtain ⟨h1, h2, h3, h4⟩ := hname _ rfl
  obtain ⟨elems, he, h0, hs1, hs2⟩ := he
  have hc : containerExpr (.mk .jsxExprContainer cas [e]) = some e := by
    unfold containerExpr
    split
    · rename_i heq
      simp at heq
      obtain ⟨_, rfl⟩ := heq
      split
      · exact absurd rfl (hne _ _)
      · rfl
    · rename_i hh; exact absurd rfl (hh _ _)
  unfold parseDirective
  simp only [hc, he, h0, hs1, hs2, hs]
  simp [h1, h2, h3, h4]
  cases hm : (dirNameParts name).2.1 <;> cases hr : (setOfList (dirNameParts name).2.2) <;> simp

/-- A runtime directive never disturbs the element's props: the pending props, merge arguments and dynamic-prop
    list are exactly what they were. -/
theorem C04_frame (o : Opts) (isComp : Bool) (nameN valueN : Node) (as : List String) (acc : AttrAcc) (st : St)
    (n : String) (arg mods : Option Node) (v : Node) (st' : St)
    (hd : isDirectiveAttrName (attrNameOf nameN) = true)
    (hp : parseDirective (attrNameOf nameN) valueN isComp st = (.normal n arg mods v, st')) :
    let r := (attrStep o isComp (.mk .jsxAttr as [nameN, valueN]) none acc st).1
    r.props = acc.props ∧ r.mergeArgs = acc.mergeArgs ∧ r.dynamicProps = acc.dynamicProps
      ∧ r.directives = acc.directives ++ [(n, arg, mods, v)] := by
  simp [attrStep, hd, hp]

/-- `v-html` sets the `innerHTML` prop to the given value (and nothing else). -/
theorem C04_html_sets_innerHTML (o : Opts) (isComp : Bool) (nameN valueN : Node) (as : List String) (acc : AttrAcc)
    (st st' : St) (e : Node)
    (hd : isDirectiveAttrName (attrNameOf nameN) = true)
    (hp : parseDirective (attrNameOf nameN) valueN isComp st = (.html e, st')) :
    let r := (attrStep o isComp (.mk .jsxAttr as [nameN, valueN]) none acc st).1
    r.props = acc.props ++ [nKV (nStr "innerHTML") e] ∧ r.directives = acc.directives := by
  simp [attrStep, hd, hp]

/-- `v-text` sets the `textContent` prop to the given value (and nothing else). -/
theorem C04_text_sets_textContent (o : Opts) (isComp : Bool) (nameN valueN : Node) (as : List String) (acc : AttrAcc)
    (st st' : St) (e : Node)
    (hd : isDirectiveAttrName (attrNameOf nameN) = true)
    (hp : parseDirective (attrNameOf nameN) valueN isComp st = (.text e, st')) :
    let r := (attrStep o isComp (.mk .jsxAttr as [nameN, valueN]) none acc st).1
    r.props = acc.props ++ [nKV (nStr "textContent") e] ∧ r.directives = acc.directives := by
  simp [attrStep, hd, hp]

-- tests (concrete instances)
#guard (dirNameParts (.plain "vMyDir")).1 == "myDir"
#guard (dirNameParts (.plain "v-my-dir_a_b")) == ("my-dir", none, ["a", "b"])
#guard (dirNameParts (.ns "v-foo" "arg_m")) == ("foo", some "arg", ["m"])

end VueJsx
