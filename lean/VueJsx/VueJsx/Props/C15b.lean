/-
  C15, continued — the annotation may stand on any line of a comment (fix 5829cb9), and the specification's reading of a
  comment (Oracle.specPragmaOfComment, written independently) is the model's (Text.pragmaOfCommentText).
-/
import VueJsx.Props.C15
import VueJsx.Oracle

namespace VueJsx
open Text

theorem commentLinesAux_append (a b : List Char) (t : Char) (ht : isLineTerm t = true) :
    ∀ cur, commentLinesAux cur (a ++ t :: b) = commentLinesAux cur a ++ commentLinesAux [] b := by
  induction a with
  | nil => intro cur; simp [commentLinesAux, ht]
  | cons ch r ih =>
    intro cur
    by_cases h : isLineTerm ch = true
    · simp [commentLinesAux, h, ih]
    · simp [commentLinesAux, h, ih]

theorem commentLinesAux_single (l : List Char) (hl : ∀ ch ∈ l, isLineTerm ch = false) :
    ∀ cur, commentLinesAux cur l = [cur.reverse ++ l] := by
  induction l with
  | nil => intro cur; simp [commentLinesAux]
  | cons ch r ih =>
    intro cur
    have h1 : isLineTerm ch = false := hl ch (by simp)
    simp [commentLinesAux, h1, ih (fun c hc => hl c (by simp [hc]))]

/-- **The annotation is found on any line of the comment**: when no earlier line carries one, a line `@jsx <name>` in the
    middle of a (multi-line, JSDoc style) comment gives the pragma. -/
theorem C15_annotation_on_any_line (pre line post name : List Char) (t1 t2 : Char)
    (ht1 : isLineTerm t1 = true) (ht2 : isLineTerm t2 = true)
    (hpre : ∀ l ∈ Text.commentLines pre, pragmaOfComment l = none)
    (hline : ∀ ch ∈ line, isLineTerm ch = false)
    (hl : pragmaOfComment line = some name) :
    pragmaOfCommentText (pre ++ t1 :: (line ++ t2 :: post)) = some name := by
  unfold pragmaOfCommentText Text.commentLines
  rw [commentLinesAux_append pre _ t1 ht1, commentLinesAux_append line post t2 ht2, commentLinesAux_single line hline]
  simp only [List.reverse_nil, List.nil_append, List.findSome?_append, List.findSome?_cons, hl]
  have : List.findSome? pragmaOfComment (commentLinesAux [] pre) = none := by
    rw [List.findSome?_eq_none_iff]; exact hpre
  simp [this]

/-- the lines of the specification (a fold) are the lines of the model (a recursion) -/
theorem spec_commentLines_eq (c : List Char) : VueJsx.commentLines c = Text.commentLines c := by
  unfold VueJsx.commentLines Text.commentLines
  have key : ∀ (c cur : List Char) (done : List (List Char)),
      (let r := c.foldl (fun (acc : List Char × List (List Char)) ch =>
          if ch == '\n' || ch == '\r' || ch == '\u2028' || ch == '\u2029' then ([], acc.2 ++ [acc.1]) else (acc.1 ++ [ch], acc.2)) (cur, done)
       r.2 ++ [r.1]) = done ++ commentLinesAux cur.reverse c := by
    intro c
    induction c with
    | nil => intro cur done; simp [commentLinesAux]
    | cons ch r ih =>
      intro cur done
      simp only [List.foldl_cons]
      by_cases h : (ch == '\n' || ch == '\r' || ch == '\u2028' || ch == '\u2029') = true
      · have h' : isLineTerm ch = true := by simpa [isLineTerm] using h
        simp only [h, if_true]
        rw [ih]
        simp [commentLinesAux, h']
      · have h' : isLineTerm ch = false := by simpa [isLineTerm] using h
        simp only [h]
        rw [ih]
        simp [commentLinesAux, h']
  have := key c [] []
  simpa using this

/-- **The specification reads a comment exactly as the model does.** -/
theorem C15_spec_reading_is_the_models (c : List Char) : specPragmaOfComment c = pragmaOfCommentText c := by
  unfold specPragmaOfComment pragmaOfCommentText
  rw [spec_commentLines_eq]

/-- non-vacuity: the usual JSDoc layout -/
example : pragmaOfCommentText "*\n * @jsx h\n ".toList = some "h".toList := by decide

/-- the specification's notion of a callable factory name (written independently in `Oracle.specValidPragma`) is the model's -/
theorem C15_spec_valid_pragma_is_the_models (p : String) : specValidPragma p = isValidPragma p := by
  unfold specValidPragma isValidPragma
  cases h : (Text.splitOn '.' p.toList).map String.ofList with
  | nil => rfl
  | cons first rest =>
    simp only
    congr 1
    by_cases ht : first = "this"
    · subst ht; decide
    · have h1 : (first == "this") = false := by simpa using ht
      unfold isValidSymbol
      simp only [h1, Bool.or_false, Bool.false_or]
      cases hr : reservedWords.contains first <;> cases hl : first.toList <;> simp

/-- member chains are factory names: `this.h`, `h.default`, `React.createElement`; a reserved word cannot be the object -/
example : isValidPragma "this.h" = true ∧ isValidPragma "h.default" = true ∧ isValidPragma "React.createElement" = true
    ∧ isValidPragma "default.h" = false ∧ isValidPragma "h." = false ∧ isValidPragma "h x" = false := by decide

end VueJsx
