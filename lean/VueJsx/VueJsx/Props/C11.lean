/-
  C11 — Embedded expressions are evaluated once, in source order, slot content lazily.
  JavaScript evaluates call arguments, array elements and object-literal entries left to right; the theorems show
  that the model emits the user's expressions into those positions in source order, each once, and component
  children only inside the slot function.
-/
import VueJsx.Visitor
import VueJsx.Props.C03

namespace VueJsx

/-- the patch-flag analysis only records facts: it never touches the props or the merge arguments -/
theorem hydrationStep_props (isComp : Bool) (name : String) (acc : AttrAcc) :
    (hydrationStep isComp name acc).props = acc.props ∧ (hydrationStep isComp name acc).mergeArgs = acc.mergeArgs := by
  unfold hydrationStep; split <;> exact ⟨rfl, rfl⟩

theorem coverStep_props (isComp : Bool) (name : String) (acc : AttrAcc) :
    (coverStep isComp name acc).props = acc.props ∧ (coverStep isComp name acc).mergeArgs = acc.mergeArgs := by
  unfold coverStep
  split
  · exact ⟨rfl, rfl⟩
  · split
    · exact ⟨rfl, rfl⟩
    · split <;> exact ⟨rfl, rfl⟩

theorem plainAttrFlags_frame (isComp : Bool) (name : String) (v : Node) (t : Bool) (acc : AttrAcc) :
    (plainAttrFlags isComp name v t acc).props = acc.props ∧ (plainAttrFlags isComp name v t acc).mergeArgs = acc.mergeArgs := by
  unfold plainAttrFlags
  generalize (!(if isNone v then false else isAttrValueConstant v)) = c
  split
  · exact ⟨rfl, rfl⟩
  · split
    · exact ⟨rfl, rfl⟩
    · cases c
      · exact ⟨rfl, rfl⟩
      · have h1 := hydrationStep_props isComp name acc
        have h2 := coverStep_props isComp name (hydrationStep isComp name acc)
        exact ⟨h2.1.trans h1.1, h2.2.trans h1.2⟩

/-- A plain attribute (not a directive, not a transformOn `on`) is appended at the END of the pending props with its
    value expression used exactly once; nothing already emitted is reordered or touched. -/
theorem C11_plain_attr_appended (o : Opts) (isComp : Bool) (nameN valueN : Node) (as : List String) (acc : AttrAcc) (st : St)
    (s : String) (hname : attrNameOf nameN = .plain s) (hnd : isDirectiveAttrName (.plain s) = false)
    (hon : (o.transformOn && (s == "on" || s == "nativeOn")) = false) :
    let r := (attrStep o isComp (.mk .jsxAttr as [nameN, valueN]) none acc st).1
    r.props = acc.props ++ [nKV (nStr s) (attrValueExpr valueN none st).1] ∧ r.mergeArgs = acc.mergeArgs := by
  have hf := plainAttrFlags_frame isComp s valueN false acc
  unfold attrStep
  simp only [hname, hnd, hon]
  simp [hf.1, hf.2]

/-- A transformOn `on` object: the attributes written BEFORE it are merged first (flushed as their own layer), then
    the listeners — source order is kept. -/
theorem C11_transformOn_after_earlier_attrs (o : Opts) (isComp : Bool) (nameN valueN : Node) (as : List String) (acc : AttrAcc) (st : St)
    (p : Node) (ps : List Node) (h : Node)
    (hname : attrNameOf nameN = .plain "on") (hon : o.transformOn = true) (hp : acc.props = p :: ps)
    (hh : st.transformOnHelper = some h) :
    let r := (attrStep o isComp (.mk .jsxAttr as [nameN, valueN]) none acc st).1
    r.props = [] ∧ r.mergeArgs = acc.mergeArgs ++ [nObject (if o.mergeProps then dedupeProps (p :: ps) else p :: ps),
                                                   nCall h [nArg (attrValueExpr valueN none st).1]] := by
  have hf := plainAttrFlags_frame isComp "on" valueN true acc
  have hv : (attrValueExpr valueN none st).2.transformOnHelper = st.transformOnHelper := by
    unfold attrValueExpr
    simp only
    split <;> first | rfl | (simp [St.panic]; split <;> rfl)
  unfold attrStep
  simp [hname, isDirectiveAttrName, Text.isDirectiveName, hon, hv, hh, hf.1, hf.2, hp]

/-- Children are emitted in source order, each expression once: an expression container contributes exactly its
    expression, followed by the lowering of the remaining children. -/
theorem C11_child_expression_in_order (o : Opts) (env : Env) (e : Node) (cas : List String) (rest : List Node) (st : St)
    (hopt : o.optimize = false) (hne : ∀ a k, e ≠ .mk .jsxEmpty a k) :
    trChildList o env (.mk .jsxExprContainer cas [e] :: rest) st
      = (nArg e :: (trChildList o env rest st).1, (trChildList o env rest st).2) := by
  simp only [trChildList]
  simp [hopt]

/-- The children of a component are placed ONLY inside the body of the `default` slot function: nothing of them is
    evaluated when the vnode is created. -/
theorem C11_component_children_lazy (o : Opts) (elems : List Node) (flag : Nat) (ho : o.optimize = false) :
    wrapChildren o elems flag none = nObject [nKV (nIdentName "default") (nArrow [] (nArray elems))] :=
  C03_wrap_shape o elems flag ho

/-- A sole call child of a component is evaluated exactly once, at creation: it occurs once, as the right-hand side of
    the assignment to a fresh temporary inside the runtime test; both branches only mention the temporary. -/
theorem C11_call_child_once (o : Opts) (cas aas : List String) (cks : List Node) (slots : Option Node) (flag : Nat)
    (st : St) (h : Node) (he : o.enableObjectSlots = true) (hl : st.assignmentLeft = none) (hh : st.slotHelper = some h) :
    let slot := (genSlotIdent st).1
    (finishChildren o [.mk .arg aas [.mk .call ("usr" :: cas) cks]] true slots flag st).1
      = nCond (nCall h [nArg (nAssignParen slot (.mk .call ("usr" :: cas) cks))]) slot (wrapChildren o [nArg slot] flag slots) :=
  C03_call_once o cas aas cks slots flag st h he hl hh

/-- The vnode factory receives tag, props and children as its first three arguments, in that order
    (so props are evaluated before children). -/
theorem C11_fragment_argument_order (o : Opts) (env : Env) (as1 as2 : List String) (op cl : Node) (children : List Node) (st : St) :
    ∃ callee tag kids st', trFragment o env (.mk .jsxFragment as1 [op, .mk .list as2 children, cl]) st
      = (nCall callee [nArg tag, nArg nNull, nArg kids], st') := by
  simp only [trFragment]
  exact ⟨_, _, _, _, rfl⟩

end VueJsx
