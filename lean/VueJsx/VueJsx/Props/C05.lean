/-
  C05 — v-model / v-models produce a working two-way binding.
  Theorems about `resolveDirective "model"`, `vmodelStep`, `nModelListener`, `decoupleVModels` of the model.
-/
import VueJsx.Visitor
import VueJsx.Sem

namespace VueJsx

/-! ### which Vue model directive a form element gets -/

theorem C05_select (as : List String) (ks attrs : List Node) (st : St) :
    resolveDirective "model" (.mk .ident ("select" :: as) ks) attrs st = st.importFromVue "vModelSelect" := by
  simp [resolveDirective]

theorem C05_textarea (as : List String) (ks attrs : List Node) (st : St) :
    resolveDirective "model" (.mk .ident ("textarea" :: as) ks) attrs st = st.importFromVue "vModelText" := by
  simp [resolveDirective]

theorem C05_input_checkbox (tag : String) (as : List String) (ks attrs : List Node) (st : St) (sas : List String) (sks : List Node)
    (h1 : tag ≠ "select") (h2 : tag ≠ "textarea") (ht : typeAttrOf attrs = some (.mk .str ("checkbox" :: sas) sks)) :
    resolveDirective "model" (.mk .ident (tag :: as) ks) attrs st = st.importFromVue "vModelCheckbox" := by
  simp [resolveDirective, h1, h2, ht]

theorem C05_input_radio (tag : String) (as : List String) (ks attrs : List Node) (st : St) (sas : List String) (sks : List Node)
    (h1 : tag ≠ "select") (h2 : tag ≠ "textarea") (ht : typeAttrOf attrs = some (.mk .str ("radio" :: sas) sks)) :
    resolveDirective "model" (.mk .ident (tag :: as) ks) attrs st = st.importFromVue "vModelRadio" := by
  simp [resolveDirective, h1, h2, ht]

theorem C05_input_other_static (tag ty : String) (as : List String) (ks attrs : List Node) (st : St) (sas : List String) (sks : List Node)
    (h1 : tag ≠ "select") (h2 : tag ≠ "textarea") (ht : typeAttrOf attrs = some (.mk .str (ty :: sas) sks))
    (h3 : ty ≠ "checkbox") (h4 : ty ≠ "radio") :
    resolveDirective "model" (.mk .ident (tag :: as) ks) attrs st = st.importFromVue "vModelText" := by
  simp [resolveDirective, h1, h2, ht, h3, h4]

theorem C05_input_no_type (tag : String) (as : List String) (ks attrs : List Node) (st : St)
    (h1 : tag ≠ "select") (h2 : tag ≠ "textarea") (ht : typeAttrOf attrs = none) :
    resolveDirective "model" (.mk .ident (tag :: as) ks) attrs st = st.importFromVue "vModelText" := by
  simp [resolveDirective, h1, h2, ht]

theorem C05_input_dynamic_type (tag : String) (as : List String) (ks attrs : List Node) (st : St) (e : Node) (cas : List String)
    (h1 : tag ≠ "select") (h2 : tag ≠ "textarea") (ht : typeAttrOf attrs = some (.mk .jsxExprContainer cas [e])) :
    resolveDirective "model" (.mk .ident (tag :: as) ks) attrs st = st.importFromVue "vModelDynamic" := by
  simp [resolveDirective, h1, h2, ht]

/-! ### the listener assigns its parameter to the bound target -/

/-- reads a listener of the shape `p => (T) = p` and returns the assignment target `T` -/
def listenerTarget : Node → Option Node
  | .mk .arrow _ [.mk .list _ [.mk .ident (p :: pb :: _) _], .mk .assign ["="] [.mk .paren _ [t], .mk .ident (q :: qb :: _) _], _, _] =>
    if p == q && pb == qb then some t else none
  | _ => none

/-- Invoking the generated listener with a value assigns that value to exactly the bound target expression. -/
theorem C05_listener_assigns_target (t : Node) : listenerTarget (nModelListener t) = some t := by
  simp [nModelListener, listenerTarget, nArrow, nBindingIdent, nQuoteIdent, nIdent, nAssignParen, nList]

/-! ### components: value prop, modifiers prop, update listener -/

/-- `v-model={x}` on a component: `modelValue: x` and `"onUpdate:modelValue": $event => (x) = $event`. -/
theorem C05_component_default (o : Opts) (v : Node) (acc : AttrAcc) :
    (vmodelStep o true none none none v acc).props =
      acc.props ++ [nKV (nStr "modelValue") v, nKV (nStr "onUpdate:modelValue") (nModelListener v)] := by
  simp [vmodelStep, vmodelStepK, vmodelArgKind]

/-- with modifiers: `modelModifiers` sits between them -/
theorem C05_component_modifiers (o : Opts) (v m : Node) (acc : AttrAcc) :
    (vmodelStep o true none none (some m) v acc).props =
      acc.props ++ [nKV (nStr "modelValue") v, nKV (nStr "modelModifiers") m,
                    nKV (nStr "onUpdate:modelValue") (nModelListener v)] := by
  simp [vmodelStep, vmodelStepK, vmodelArgKind]

/-- a static argument names the prop, its modifiers prop and its listener -/
theorem C05_component_static_arg (o : Opts) (v m : Node) (arg : String) (as : List String) (ks : List Node) (acc : AttrAcc) :
    (vmodelStep o true (some (.mk .str (arg :: as) ks)) none (some m) v acc).props =
      acc.props ++ [nKV (nStr arg) v, nKV (nStr (arg ++ "Modifiers")) m,
                    nKV (nStr ("onUpdate:" ++ arg)) (nModelListener v)] := by
  simp [vmodelStep, vmodelStepK, vmodelArgKind]

/-- on an element: the model directive binding is recorded with value, argument and modifiers,
    and the update listener is added to the props -/
theorem C05_element_binding (o : Opts) (v : Node) (targ mods : Option Node) (acc : AttrAcc) :
    let r := vmodelStep o false none targ mods v acc
    r.directives = acc.directives ++ [("model", targ, mods, v)]
      ∧ r.props = acc.props ++ [nKV (nStr "onUpdate:modelValue") (nModelListener v)] := by
  simp [vmodelStep, vmodelStepK, vmodelArgKind]

/-! ### v-models is the same-order sequence of the v-model attributes it lists -/

theorem C05_models_sequence (e : Node) (rest : List Node) :
    decoupleVModels (e :: rest) = decoupleVModels [e] ++ decoupleVModels rest := by
  simp [decoupleVModels, List.filterMap_cons]
  split <;> simp

/-- every entry becomes the `v-model` attribute with the same array as its value: `[x]` becomes `v-model={[x]}` ... -/
theorem C05_models_entry_plain (x : Node) (as1 as2 as3 : List String) :
    decoupleVModels [.mk .arg as1 [.mk .array as2 [.mk .list as3 [nArg x]]]]
      = [.mk .jsxAttr [] [nIdentName "v-model", .mk .jsxExprContainer [] [nArray [nArg x]]]] := by
  simp [decoupleVModels, nArg]

/-- ... and `[x, 'name', ...]` becomes `v-model={[x, 'name', ...]}`: the argument stays a string in the array (whatever characters
    it contains, `_` included) instead of becoming part of an attribute name that is split at `_`. -/
theorem C05_models_entry_any (inner : List Node) (as1 as2 as3 : List String) :
    decoupleVModels [.mk .arg as1 [.mk .array as2 [.mk .list as3 inner]]]
      = [.mk .jsxAttr [] [nIdentName "v-model", .mk .jsxExprContainer [] [nArray inner]]] := by
  simp [decoupleVModels]

/-- a `v-models` entry `[x, 'my_arg']` on a component names the prop `my_arg` (all of it) -/
theorem C05_models_entry_underscore (x : Node) (st : St) (hx : isAssignmentTarget x = true) :
    (parseVModel (.mk .jsxExprContainer [] [nArray [nArg x, nArg (nStr "my_arg")]]) true none [] st).1
      = .vmodel (some (nStr "my_arg")) (some (nStr "my_arg")) none x := by
  simp [parseVModel, containerExpr, nArray, nList, arrayElems, plainElem, nArg, nStr, transformModifiers, setOfList, hx]

/-- `v-model_trim={[x, 'arg']}` on a component: the argument is the second element and the modifier suffix is kept
    (fix 673c257: it was dropped when the array had an argument but no modifier list). -/
theorem C05_array_argument_keeps_suffix_modifiers (x : Node) (st : St) (hx : isAssignmentTarget x = true) :
    (parseVModel (.mk .jsxExprContainer [] [nArray [nArg x, nArg (nStr "arg")]]) true none ["trim"] st).1
      = .vmodel (some (nStr "arg")) (some (nStr "arg")) (transformModifiers ["trim"] true) x := by
  simp [parseVModel, containerExpr, nArray, nList, arrayElems, plainElem, nArg, nStr, setOfList, setInsert, hx]

/-- A `v-model` value that cannot stand on the left of `=` (`x + 1`, `f()`, `x?.y`, `this`, a literal) is REPORTED and replaced by
    the placeholder (fix 778956f: the listener `(x + 1) = $event` used to be emitted without a diagnostic). -/
theorem C05_unassignable_target_reported (cas : List String) (e : Node) (isComp : Bool) (arg : Option Node) (rest : List String) (st : St)
    (hne : ∀ a k, e ≠ .mk .jsxEmpty a k) (harr : arrayElems e = none) (hx : isAssignmentTarget e = false) :
    (parseVModel (.mk .jsxExprContainer cas [e]) isComp arg rest st).2
      = st.err "Error: The value of `v-model` must be an assignable expression (an identifier or a member expression)." := by
  have hc : containerExpr (.mk .jsxExprContainer cas [e]) = some e := by
    unfold containerExpr
    split
    · rename_i heq
      simp at heq
      obtain ⟨_, rfl⟩ := heq
      split
      · exact absurd rfl (hne _ _)
      · rfl
    · rename_i hh; exact absurd rfl (hh _ _)
  simp [parseVModel, hc, harr, hx]

/-- `eval` and `arguments` cannot be assigned to in a module (strict code): not v-model targets - reported by
    `C05_unassignable_target_reported`. -/
theorem C05_eval_arguments_not_targets (as : List String) (ks : List Node) :
    isAssignmentTarget (.mk .ident ("eval" :: as) ks) = false ∧ isAssignmentTarget (.mk .ident ("arguments" :: as) ks) = false := by
  simp [isAssignmentTarget]

/-- the specification's notion of an assignment target (`Sem.specAssignable`, written from ECMA-262) is the model's -/
theorem C05_spec_assignable_is_the_models (n : Node) : specAssignable n = isAssignmentTarget n := by
  fun_induction isAssignmentTarget n <;> simp_all [specAssignable]

end VueJsx
