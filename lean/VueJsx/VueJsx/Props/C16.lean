/-
  C16 — resolveType derives exactly the declared props and their requiredness.
-/
import VueJsx.Visitor

namespace VueJsx

/-- An inline type literal: its property, method, getter (and call) signatures are what is resolved. -/
theorem C16_literal (fuel : Nat) (st : St) (as las : List String) (members : List Node) :
    resolveElements (fuel + 1) st (.mk .tsTypeLit as [.mk .list las members]) = (refineMembers members, st) := by
  simp [resolveElements]

/-- An alias is its target (alias chains follow by repeating this step). -/
theorem C16_alias (fuel : Nat) (st : St) (n b : String) (ir : List String) (iks : List Node) (as : List String) (tp target : Node)
    (h : lookupReg st.typeAliases (n, b) = some target) :
    resolveElements (fuel + 1) st (.mk .tsTypeRef as [.mk .ident (n :: b :: ir) iks, tp]) = resolveElements fuel st target := by
  simp [resolveElements, h]

/-- Parentheses do not matter. -/
theorem C16_paren (fuel : Nat) (st : St) (as : List String) (t : Node) :
    resolveElements (fuel + 1) st (.mk .tsParen as [t]) = resolveElements fuel st t := by
  simp [resolveElements]

/-- `Partial<T>` makes every property and method of T optional, `Required<T>` makes every one required — and neither
    adds or removes a key. -/
theorem C16_partial_required_flags (v : Bool) (m : Node) :
    (setOptional v m).kind = m.kind ∧ memberKeyName (setOptional v m) = memberKeyName m := by
  unfold setOptional
  simp only
  split
  · rename_i ks; cases ks <;> simp [Node.kind, memberKeyName]
  · rename_i ks; cases ks <;> simp [Node.kind, memberKeyName]
  · exact ⟨rfl, rfl⟩

theorem C16_partial_sets_optional (ro comp opt : String) (ks : List Node) :
    setOptional true (.mk .tsPropSig [ro, comp, opt] ks) = .mk .tsPropSig [ro, comp, "true"] ks
    ∧ setOptional false (.mk .tsPropSig [ro, comp, opt] ks) = .mk .tsPropSig [ro, comp, "false"] ks := by
  simp [setOptional]

/-- `Pick<T, K>` and `Omit<T, K>` split the statically keyed members of T between them: nothing is lost, nothing
    is duplicated (both are filters of the same list by complementary conditions). -/
theorem C16_pick_omit_partition (inner : List Node) (keys : List String)
    (hkeyed : ∀ m ∈ inner, ∃ k, memberKeyName m = some (some k)) :
    ∀ m ∈ inner,
      (m ∈ inner.filter (fun m => match memberKeyName m with | some (some k) => keys.contains k | _ => false))
        ≠ (m ∈ inner.filter (fun m => match memberKeyName m with | some (some k) => !keys.contains k | _ => true)) := by
  intro m hm
  obtain ⟨k, hk⟩ := hkeyed m hm
  simp only [List.mem_filter, hm, true_and, hk]
  cases keys.contains k <;> simp

/-- A first occurrence of a key is `required` exactly when it is not declared optional. -/
theorem C16_required_iff_not_optional (irs : List PropIr) (key : Node) (types : List RT) (optional : Bool)
    (hnew : irs.any (fun ir => ir.key == key) = false) :
    irUpdate irs key (fun ir => ir) { key := key, types := types, required := !optional }
      = irs ++ [{ key := key, types := types, required := !optional }] := by
  simp [irUpdate, hnew]

/-- A reference bound in the file that is neither a local alias nor a local interface (an import) is reported. -/
theorem C16_imported_type_reported (fuel : Nat) (st : St) (n b : String) (ir : List String) (iks : List Node) (as : List String) (tp : Node)
    (h1 : lookupReg st.typeAliases (n, b) = none) (h2 : lookupReg st.interfaces (n, b) = none) (hb : b ≠ "u") :
    resolveElements (fuel + 1) st (.mk .tsTypeRef as [.mk .ident (n :: b :: ir) iks, tp])
      = ([], st.err "Error: Types from other modules can't be resolved.") := by
  simp [resolveElements, h1, h2, hb]

/-- An undeclared global name that is not one of the supported utility types is reported. -/
theorem C16_unknown_global_reported (fuel : Nat) (st : St) (n : String) (ir : List String) (iks : List Node) (as : List String) (tp : Node)
    (h1 : lookupReg st.typeAliases (n, "u") = none) (h2 : lookupReg st.interfaces (n, "u") = none)
    (hn : n ≠ "Partial" ∧ n ≠ "Required" ∧ n ≠ "Pick" ∧ n ≠ "Omit") :
    resolveElements (fuel + 1) st (.mk .tsTypeRef as [.mk .ident (n :: "u" :: ir) iks, tp])
      = ([], st.err "Error: Unresolvable type reference or unsupported built-in utility type.") := by
  simp [resolveElements, h1, h2, hn.1, hn.2.1, hn.2.2.1, hn.2.2.2]

/-- An unsupported type construct (keyword types, keyof, typeof, mapped types, …) is reported. -/
theorem C16_unsupported_construct_reported (fuel : Nat) (st : St) (as : List String) (ks : List Node) :
    resolveElements (fuel + 1) st (.mk .tsKeyword as ks) = ([], st.err "Error: Unresolvable type.") := by
  simp [resolveElements]

/-! ### declaration order does not matter: the registry is computed from the whole module up front -/

theorem aliasHook_registers (as : List String) (id tp ty : Node) (st : St) :
    lookupReg (aliasHook (.mk .tsAlias as [id, tp, ty]) st).typeAliases (identName id, identBind id) = some ty := by
  unfold aliasHook
  simp only
  split
  · rename_i h
    -- replaced in place
    have : ∀ (l : List ((String × String) × Node)), (lookupReg l (identName id, identBind id)).isSome = true →
        lookupReg (l.map fun p => if p.1 == (identName id, identBind id) then (p.1, ty) else p) (identName id, identBind id) = some ty := by
      intro l
      induction l with
      | nil => simp [lookupReg]
      | cons p rest ih =>
        intro hl
        simp only [lookupReg, List.map_cons, List.find?_cons] at hl ⊢
        by_cases hp : p.1 == (identName id, identBind id)
        · simp [hp]
        · simp only [hp] at hl ⊢
          simp only [Bool.false_eq_true, if_false]
          have := ih (by simpa [lookupReg] using hl)
          simpa [lookupReg, hp] using this
    exact this _ h
  · rename_i h
    simp only [lookupReg, List.find?_append]
    have hn : List.find? (fun p => p.1 == (identName id, identBind id)) st.typeAliases = none := by
      simp only [lookupReg, Option.isSome_map] at h
      cases hf : List.find? (fun p => p.1 == (identName id, identBind id)) st.typeAliases <;> simp_all
    simp [hn]

/-- The registry the resolution uses is a function of the MODULE alone — it is filled before the traversal starts,
    so whether a declaration stands before or after the call cannot matter. -/
theorem C16_registry_from_whole_module (o : Opts) (env : Env) (as las : List String) (items rest : List Node) (h : o.resolveType = true) :
    ∃ st0, st0 = collectTypes (.mk .module as (.mk .list las items :: rest)) (scanPragmas env {})
      ∧ (transformModule o env (.mk .module as (.mk .list las items :: rest))).1
          = .mk .module as (.mk .list las
              (finishModule (visitKids o env .list .normal 0 items st0).1
                (visitKids o env .module .normal 1 rest (visitKids o env .list .normal 0 items st0).2).2).1
              :: (visitKids o env .module .normal 1 rest (visitKids o env .list .normal 0 items st0).2).1) := by
  refine ⟨_, rfl, ?_⟩
  simp [transformModule, h]

end VueJsx
