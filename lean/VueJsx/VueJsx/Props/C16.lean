/-
  C16 — resolveType derives exactly the declared props and their requiredness.
-/
import VueJsx.Visitor
import VueJsx.TypeSpec

namespace VueJsx

/-- An inline type literal: its property, method, getter (and call) signatures are what is resolved. -/
theorem C16_literal (fuel : Nat) (st : St) (as las : List String) (members : List Node) (hg : st.typeGaveUp = false) :
    resolveElements (fuel + 1) st (.mk .tsTypeLit as [.mk .list las members]) = (refineMembers members, st) := by
  simp [resolveElements, enterRes_ok _ _ hg]

/-- An alias is its target (alias chains follow by repeating this step). -/
theorem C16_alias (fuel : Nat) (st : St) (n b : String) (ir : List String) (iks : List Node) (as : List String) (tp target : Node)
    (h : lookupReg st.typeAliases (n, b) = some target) (hg : st.typeGaveUp = false) :
    resolveElements (fuel + 1) st (.mk .tsTypeRef as [.mk .ident (n :: b :: ir) iks, tp]) = resolveElements fuel st target := by
  simp [resolveElements, h, enterRes_ok _ _ hg]

/-- Parentheses do not matter. -/
theorem C16_paren (fuel : Nat) (st : St) (as : List String) (t : Node) (hg : st.typeGaveUp = false) :
    resolveElements (fuel + 1) st (.mk .tsParen as [t]) = resolveElements fuel st t := by
  simp [resolveElements, enterRes_ok _ _ hg]

/-- `Partial<T>` makes every property and method of T optional, `Required<T>` makes every one required — and neither
    adds, removes or renames a key.  (A getter signature has no optional flag: under `Partial` it becomes the optional property
    it declares, see `C16_partial_over_getter`.) -/
theorem C16_partial_required_flags (v : Bool) (m : Node) :
    memberKeyName (setOptional v m) = memberKeyName m
    ∧ ((setOptional v m).kind = m.kind ∨ (v = true ∧ m.kind = .tsGetterSig ∧ (setOptional v m).kind = .tsPropSig)) := by
  unfold setOptional
  simp only
  split
  · rename_i ks; cases ks <;> simp [Node.kind, memberKeyName]
  · rename_i ks; cases ks <;> simp [Node.kind, memberKeyName]
  · rename_i comp ks
    cases v
    · simp
    · cases ks <;> simp [Node.kind, memberKeyName]
  · exact ⟨rfl, Or.inl rfl⟩

/-- `Partial` over a getter signature: the optional (readonly) property with the same key, computedness and type (fix 1f8b37e:
    the getter used to stay `required`). -/
theorem C16_partial_over_getter (comp : String) (ks : List Node) :
    setOptional true (.mk .tsGetterSig [comp] ks) = .mk .tsPropSig ["true", comp, "true"] ks
    ∧ setOptional false (.mk .tsGetterSig [comp] ks) = .mk .tsGetterSig [comp] ks := by
  simp [setOptional]

theorem C16_partial_sets_optional (ro comp opt : String) (ks : List Node) :
    setOptional true (.mk .tsPropSig [ro, comp, opt] ks) = .mk .tsPropSig [ro, comp, "true"] ks
    ∧ setOptional false (.mk .tsPropSig [ro, comp, opt] ks) = .mk .tsPropSig [ro, comp, "false"] ks := by
  simp [setOptional]

/-- `Pick<T, K>` and `Omit<T, K>` split the statically keyed members of T between them: nothing is lost, nothing
    is duplicated (both are filters of the same list by complementary conditions). -/
theorem C16_pick_omit_partition (inner : List Node) (keys : List String)
    (hkeyed : ∀ m ∈ inner, ∃ k, memberKeyName m = some (some k)) :
    ∀ m ∈ inner,
      (m ∈ inner.filter (fun m => match memberKeyName m with | some (some k) => keys.contains k | _ => false))
        ≠ (m ∈ inner.filter (fun m => match memberKeyName m with | some (some k) => !keys.contains k | _ => true)) := by
  intro m hm
  obtain ⟨k, hk⟩ := hkeyed m hm
  simp only [List.mem_filter, hm, true_and, hk]
  cases keys.contains k <;> simp

/-- A first occurrence of a key is `required` exactly when it is not declared optional. -/
theorem C16_required_iff_not_optional (irs : List PropIr) (key : Node) (types : List RT) (optional : Bool)
    (hnew : irs.any (fun ir => ir.key == key) = false) :
    irUpdate irs key (fun ir => ir) { key := key, types := types, required := !optional }
      = irs ++ [{ key := key, types := types, required := !optional }] := by
  simp [irUpdate, hnew]

/-- A reference bound in the file that is neither a local alias nor a local interface (an import) is reported. -/
theorem C16_imported_type_reported (fuel : Nat) (st : St) (n b : String) (ir : List String) (iks : List Node) (as : List String) (tp : Node)
    (h1 : lookupReg st.typeAliases (n, b) = none) (h2 : lookupReg st.interfaces (n, b) = none) (hb : b ≠ "u") (hg : st.typeGaveUp = false) :
    resolveElements (fuel + 1) st (.mk .tsTypeRef as [.mk .ident (n :: b :: ir) iks, tp])
      = ([], st.err "Error: Types from other modules can't be resolved.") := by
  simp [resolveElements, h1, h2, hb, enterRes_ok _ _ hg]

/-- An undeclared global name that is not one of the supported utility types is reported. -/
theorem C16_unknown_global_reported (fuel : Nat) (st : St) (n : String) (ir : List String) (iks : List Node) (as : List String) (tp : Node)
    (h1 : lookupReg st.typeAliases (n, "u") = none) (h2 : lookupReg st.interfaces (n, "u") = none)
    (hn : n ≠ "Partial" ∧ n ≠ "Required" ∧ n ≠ "Pick" ∧ n ≠ "Omit") (hg : st.typeGaveUp = false) :
    resolveElements (fuel + 1) st (.mk .tsTypeRef as [.mk .ident (n :: "u" :: ir) iks, tp])
      = ([], st.err "Error: Unresolvable type reference or unsupported built-in utility type.") := by
  simp [resolveElements, h1, h2, hn.1, hn.2.1, hn.2.2.1, hn.2.2.2, enterRes_ok _ _ hg]

/-- An unsupported type construct (keyword types, keyof, typeof, mapped types, …) is reported. -/
theorem C16_unsupported_construct_reported (fuel : Nat) (st : St) (as : List String) (ks : List Node) (hg : st.typeGaveUp = false) :
    resolveElements (fuel + 1) st (.mk .tsKeyword as ks) = ([], st.err "Error: Unresolvable type.") := by
  simp [resolveElements, enterRes_ok _ _ hg]

/-! ### declaration order does not matter: the registry is computed from the whole module up front -/

theorem aliasHook_registers (as : List String) (id tp ty : Node) (st : St) :
    lookupReg (aliasHook (.mk .tsAlias as [id, tp, ty]) st).typeAliases (identName id, identBind id) = some ty := by
  unfold aliasHook
  simp only
  split
  · rename_i h
    -- replaced in place
    have : ∀ (l : List ((String × String) × Node)), (lookupReg l (identName id, identBind id)).isSome = true →
        lookupReg (l.map fun p => if p.1 == (identName id, identBind id) then (p.1, ty) else p) (identName id, identBind id) = some ty := by
      intro l
      induction l with
      | nil => simp [lookupReg]
      | cons p rest ih =>
        intro hl
        simp only [lookupReg, List.map_cons, List.find?_cons] at hl ⊢
        by_cases hp : p.1 == (identName id, identBind id)
        · simp [hp]
        · simp only [hp] at hl ⊢
          simp only [Bool.false_eq_true, if_false]
          have := ih (by simpa [lookupReg] using hl)
          simpa [lookupReg, hp] using this
    exact this _ h
  · rename_i h
    simp only [lookupReg, List.find?_append]
    have hn : List.find? (fun p => p.1 == (identName id, identBind id)) st.typeAliases = none := by
      simp only [lookupReg, Option.isSome_map] at h
      cases hf : List.find? (fun p => p.1 == (identName id, identBind id)) st.typeAliases <;> simp_all
    simp [hn]

/-- The registry the resolution uses is a function of the MODULE alone — it is filled before the traversal starts,
    so whether a declaration stands before or after the call cannot matter. -/
theorem C16_registry_from_whole_module (o : Opts) (env : Env) (as las : List String) (items rest : List Node) (h : o.resolveType = true) :
    ∃ st0, st0 = collectTypes (.mk .module as (.mk .list las items :: rest)) (scanPragmas env {})
      ∧ (transformModule o env (.mk .module as (.mk .list las items :: rest))).1
          = .mk .module as (.mk .list las
              (finishModule (visitKids o env .list .normal 0 items st0).1
                (visitKids o env .module .normal 1 rest (visitKids o env .list .normal 0 items st0).2).2).1
              :: (visitKids o env .module .normal 1 rest (visitKids o env .list .normal 0 items st0).2).1) := by
  refine ⟨_, rfl, ?_⟩
  simp [transformModule, h]

/-! ### the whole grammar: literals, parentheses, intersections/unions, Partial, Required — nested to any depth -/

/-- a declared property: name (identifier or quoted), optional flag, annotated type (any type at all) -/
structure Mem where
  name : String
  quoted : Bool
  optional : Bool
  ty : Node

def Mem.keyNode (m : Mem) : Node := if m.quoted then .mk .str [m.name] [] else .mk .ident [m.name, "n"] []
def Mem.toNode (m : Mem) : Node :=
  .mk .tsPropSig ["false", "false", if m.optional then "true" else "false"] [m.keyNode, .mk .tsTypeAnn [] [m.ty]]
/-- the key as it is emitted -/
def Mem.pname (m : Mem) : Node := if m.quoted then .mk .str [m.name] [] else nIdentName m.name

inductive PTy where
  | lit (ms : List Mem)
  | paren (t : PTy)
  | inter (ts : List PTy)
  | union (ts : List PTy)
  | partial_ (t : PTy)
  | required_ (t : PTy)

mutual
def PTy.toNode : PTy → Node
  | .lit ms => .mk .tsTypeLit [] [nList (ms.map Mem.toNode)]
  | .paren t => .mk .tsParen [] [t.toNode]
  | .inter ts => .mk .tsIntersection [] [nList (PTy.toNodes ts)]
  | .union ts => .mk .tsUnion [] [nList (PTy.toNodes ts)]
  | .partial_ t => .mk .tsTypeRef [] [nIdent "Partial" "u", .mk .tsTypeParamInst [] [nList [t.toNode]]]
  | .required_ t => .mk .tsTypeRef [] [nIdent "Required" "u", .mk .tsTypeParamInst [] [nList [t.toNode]]]
def PTy.toNodes : List PTy → List Node
  | [] => []
  | t :: ts => t.toNode :: PTy.toNodes ts
end

mutual
/-- the SET-THEORETIC meaning: the declared members, left to right -/
def PTy.members : PTy → List Mem
  | .lit ms => ms
  | .paren t => t.members
  | .inter ts => PTy.membersL ts
  | .union ts => PTy.membersL ts
  | .partial_ t => t.members.map fun m => { m with optional := true }
  | .required_ t => t.members.map fun m => { m with optional := false }
def PTy.membersL : List PTy → List Mem
  | [] => []
  | t :: ts => t.members ++ PTy.membersL ts
end

mutual
def PTy.depth : PTy → Nat
  | .lit _ => 1
  | .paren t => 1 + t.depth
  | .inter ts => 1 + PTy.depthL ts
  | .union ts => 1 + PTy.depthL ts
  | .partial_ t => 1 + t.depth
  | .required_ t => 1 + t.depth
def PTy.depthL : List PTy → Nat
  | [] => 0
  | t :: ts => max t.depth (PTy.depthL ts)
end

/-- no user declaration named like anything the grammar references -/
def NoReg16 (st : St) : Prop :=
  (∀ key, lookupReg st.typeAliases key = none ∧ lookupReg st.interfaces key = none) ∧ st.typeGaveUp = false

theorem refineMembers_mems (ms : List Mem) : refineMembers (ms.map Mem.toNode) = ms.map Mem.toNode := by
  unfold refineMembers
  rw [List.filter_eq_self]
  intro m hm
  simp only [List.mem_map] at hm
  obtain ⟨t, _, rfl⟩ := hm
  simp [Mem.toNode]

theorem setOptional_mem (v : Bool) (m : Mem) : setOptional v m.toNode = ({ m with optional := v } : Mem).toNode := by
  cases v <;> simp [setOptional, Mem.toNode, Mem.keyNode]

theorem map_setOptional (v : Bool) (ms : List Mem) :
    (ms.map Mem.toNode).map (setOptional v) = (ms.map fun m => ({ m with optional := v } : Mem)).map Mem.toNode := by
  simp [List.map_map, Function.comp_def, setOptional_mem]

mutual
theorem resolveElements_eq_members : ∀ (t : PTy) (fuel : Nat) (st : St), NoReg16 st → t.depth ≤ fuel →
    resolveElements fuel st t.toNode = (t.members.map Mem.toNode, st)
  | .lit ms, fuel, st, hr, hd => by
    cases fuel with
    | zero => simp [PTy.depth] at hd
    | succ f => simp [PTy.toNode, nList, resolveElements, PTy.members, refineMembers_mems, enterRes_ok _ _ hr.2]
  | .paren t, fuel, st, hr, hd => by
    cases fuel with
    | zero => simp [PTy.depth] at hd
    | succ f =>
      have ih := resolveElements_eq_members t f st hr (by simp [PTy.depth] at hd; omega)
      simp only [PTy.toNode, resolveElements, PTy.members, ih, enterRes_ok _ _ hr.2]
  | .inter ts, fuel, st, hr, hd => by
    cases fuel with
    | zero => simp [PTy.depth] at hd
    | succ f =>
      have ih := resolveElementsL_eq_members ts f st [] hr (by simp [PTy.depth] at hd; omega)
      simp only [PTy.toNode, nList, PTy.members]
      rw [resolveElements]
      simpa [enterRes_ok _ _ hr.2] using ih
  | .union ts, fuel, st, hr, hd => by
    cases fuel with
    | zero => simp [PTy.depth] at hd
    | succ f =>
      have ih := resolveElementsL_eq_members ts f st [] hr (by simp [PTy.depth] at hd; omega)
      simp only [PTy.toNode, nList, PTy.members]
      rw [resolveElements]
      simpa [enterRes_ok _ _ hr.2] using ih
  | .partial_ t, fuel, st, hr, hd => by
    cases fuel with
    | zero => simp [PTy.depth] at hd
    | succ f =>
      have ih := resolveElements_eq_members t f st hr (by simp [PTy.depth] at hd; omega)
      simp only [PTy.toNode, nIdent, nList, PTy.members]
      rw [resolveElements]
      simp only [enterRes_ok _ _ hr.2, (hr.1 ("Partial", "u")).1, (hr.1 ("Partial", "u")).2, typeParamsList, List.head?, ih, map_setOptional]
      simp
  | .required_ t, fuel, st, hr, hd => by
    cases fuel with
    | zero => simp [PTy.depth] at hd
    | succ f =>
      have ih := resolveElements_eq_members t f st hr (by simp [PTy.depth] at hd; omega)
      simp only [PTy.toNode, nIdent, nList, PTy.members]
      rw [resolveElements]
      simp only [enterRes_ok _ _ hr.2, (hr.1 ("Required", "u")).1, (hr.1 ("Required", "u")).2, typeParamsList, List.head?, ih, map_setOptional]
      simp
theorem resolveElementsL_eq_members : ∀ (ts : List PTy) (fuel : Nat) (st : St) (acc : List Node), NoReg16 st →
    PTy.depthL ts ≤ fuel →
    (PTy.toNodes ts).foldl (fun (acc : List Node × St) t =>
        let (more, st) := resolveElements fuel acc.2 t; (acc.1 ++ more, st)) (acc, st)
      = (acc ++ (PTy.membersL ts).map Mem.toNode, st)
  | [], _, _, _, _, _ => by simp [PTy.toNodes, PTy.membersL]
  | t :: ts, fuel, st, acc, hr, hd => by
    have hd' : t.depth ≤ fuel ∧ PTy.depthL ts ≤ fuel := by simp [PTy.depthL] at hd; omega
    have h1 := resolveElements_eq_members t fuel st hr hd'.1
    have h2 := resolveElementsL_eq_members ts fuel st (acc ++ t.members.map Mem.toNode) hr hd'.2
    simp only [PTy.toNodes, List.foldl, h1, PTy.membersL]
    rw [h2]; simp
end


/-! ### from members to the emitted keys and `required` flags -/

def keyReq (irs : List PropIr) : List (Node × Bool) := irs.map fun ir => (ir.key, ir.required)

theorem extractPropName_mem (m : Mem) (st : St) : extractPropName m.keyNode false st = (m.pname, st) := by
  unfold Mem.keyNode Mem.pname
  cases m.quoted <;> simp [extractPropName]

/-- one declared property is appended as one prop, `required` exactly when it is not optional -/
theorem propStep_mem (irs : List PropIr) (st : St) (m : Mem)
    (hnew : irs.any (fun ir => ir.key == m.pname) = false) :
    ∃ types st', propStep (irs, st) m.toNode = (irs ++ [{ key := m.pname, types := types, required := !m.optional }], st') := by
  have hft : ("false" == "true") = false := by decide
  simp only [propStep, Mem.toNode, typeAnnInner, hft, extractPropName_mem]
  refine ⟨(inferRuntime FUEL st m.ty).1, (inferRuntime FUEL st m.ty).2, ?_⟩
  simp only [irUpdate, hnew, Bool.false_eq_true, if_false]
  cases m.optional <;> simp <;> decide

/-- keys pairwise different (as emitted nodes) -/
def DistinctKeys (ms : List Mem) : Prop := ms.Pairwise fun a b => (a.pname == b.pname) = false

theorem propFold_mems : ∀ (ms : List Mem) (irs : List PropIr) (st : St),
    (∀ ir ∈ irs, ∀ m ∈ ms, (ir.key == m.pname) = false) → DistinctKeys ms →
    ∃ irs' st', (ms.map Mem.toNode).foldl propStep (irs, st) = (irs', st')
      ∧ keyReq irs' = keyReq irs ++ ms.map fun m => (m.pname, !m.optional)
  | [], irs, st, _, _ => ⟨irs, st, rfl, by simp⟩
  | m :: ms, irs, st, hsep, hd => by
    have hnew : irs.any (fun ir => ir.key == m.pname) = false := by
      simp only [List.any_eq_false]
      intro ir hir
      simp [hsep ir hir m (by simp)]
    obtain ⟨types, st1, h1⟩ := propStep_mem irs st m hnew
    have hd' := List.pairwise_cons.mp hd
    have hsep' : ∀ ir ∈ irs ++ [{ key := m.pname, types := types, required := !m.optional }], ∀ m' ∈ ms, (ir.key == m'.pname) = false := by
      intro ir hir m' hm'
      simp only [List.mem_append, List.mem_singleton] at hir
      rcases hir with hir | rfl
      · exact hsep ir hir m' (by simp [hm'])
      · exact hd'.1 m' hm'
    obtain ⟨irs', st', h2, h3⟩ := propFold_mems ms _ st1 hsep' hd'.2
    refine ⟨irs', st', ?_, ?_⟩
    · simp only [List.map, List.foldl, h1, h2]
    · rw [h3]; simp [keyReq]

/-- each emitted entry is `key: { type: …, required: <flag>, … }` -/
theorem emitProp_shape (ir : PropIr) :
    ∃ tyExpr, emitProp none ir = nKV ir.key (nObject [nKV (nIdentName "type") tyExpr, nKV (nIdentName "required") (nBool ir.required)]) := by
  exact ⟨_, rfl⟩

/-- **C16 for the whole grammar** (type literals, parentheses, intersections, unions, `Partial`, `Required`, nested to any
    depth the code's limit admits; property types arbitrary): the emitted props object has exactly the declared keys, in
    declaration order, each `required` exactly when the (possibly rewritten) declaration is not optional. -/
theorem C16_grammar (t : PTy) (st : St) (hr : NoReg16 st) (hd : t.depth ≤ FUEL) (hk : DistinctKeys t.members) :
    ∃ irs st', buildPropsType st t.toNode none = (nObject (irs.map (emitProp none)), st')
      ∧ keyReq irs = t.members.map fun m => (m.pname, !m.optional) := by
  obtain ⟨irs, st', h1, h2⟩ := propFold_mems t.members [] st (by simp) hk
  refine ⟨irs, st', ?_, by simpa [keyReq] using h2⟩
  simp only [buildPropsType, resolveElements_eq_members t FUEL st hr hd, h1]

/-- non-vacuity: a nested type that meets the hypotheses, and its meaning -/
example :
    let t := PTy.inter [.lit [⟨"id", false, false, .mk .tsKeyword ["string"] []⟩],
                        .partial_ (.paren (.lit [⟨"size", false, false, .mk .tsKeyword ["number"] []⟩, ⟨"aria-label", true, false, .mk .tsKeyword ["string"] []⟩]))]
    t.depth ≤ FUEL ∧ (t.members.map fun m => (m.name, !m.optional)) = [("id", true), ("size", false), ("aria-label", false)] := by
  constructor <;> decide

/-! ### declaration merging and `extends` (fixes adae804, 349c0c5) -/

/-- The specification's registry (TypeScript's declaration merging, written independently in `TypeSpec`) is the registry the
    model's up-front collection computes. -/
theorem C16_spec_registry_is_the_models (m : Node) : specRegistry m = collectTypes m {} := rfl

/-- Declaration merging: a further declaration of an interface contributes its members AND its `extends` clause. -/
theorem C16_merged_interface_keeps_extends (as as0 eas eas0 bas bas0 las las0 : List String) (id id0 tp tp0 : Node)
    (ext ext0 members members0 : List Node) (st : St)
    (h : lookupReg st.interfaces (identName id, identBind id)
          = some (.mk .tsIface as0 [id0, tp0, .mk .list eas0 ext0, .mk .tsIfaceBody bas0 [.mk .list las0 members0]])) :
    lookupReg (ifaceHook (.mk .tsIface as [id, tp, .mk .list eas ext, .mk .tsIfaceBody bas [.mk .list las members]]) st).interfaces
        (identName id, identBind id)
      = some (.mk .tsIface as0 [id0, tp0, .mk .list eas0 (ext0 ++ ext), .mk .tsIfaceBody bas0 [.mk .list las0 (members0 ++ members)]]) := by
  simp only [ifaceHook, h]
  revert h
  generalize st.interfaces = l
  intro h
  induction l with
  | nil => simp [lookupReg] at h
  | cons p rest ih =>
    simp only [lookupReg, List.map_cons, List.find?_cons] at h ⊢
    by_cases hp : p.1 == (identName id, identBind id)
    · simp [hp]
    · simp only [hp] at h ⊢
      simp only [Bool.false_eq_true, if_false]
      have := ih (by simpa [lookupReg] using h)
      simpa [lookupReg, hp] using this

/-- one step of the `extends` fold -/
def extendsStep (fuel : Nat) (acc : List Node × St) (parent : Node) : List Node × St :=
  match parent with
  | .mk .tsExprWithTypeArgs _ [.mk .ident ias _, targs] =>
    let (more, st) := resolveElements fuel acc.2 (.mk .tsTypeRef [] [.mk .ident ias [], targs])
    (acc.1 ++ more, st)
  | _ => (acc.1, acc.2.err "Error: Unresolvable type.")

/-- An interface is its own members followed by what each parent of its `extends` clause resolves to, in order. -/
theorem C16_interface_extends (fuel : Nat) (st : St) (n b : String) (ir as ias eas bas las : List String) (iks : List Node) (tp id tps : Node)
    (ext members : List Node)
    (h1 : lookupReg st.typeAliases (n, b) = none)
    (h2 : lookupReg st.interfaces (n, b) = some (.mk .tsIface ias [id, tps, .mk .list eas ext, .mk .tsIfaceBody bas [.mk .list las members]]))
    (hg : st.typeGaveUp = false) :
    resolveElements (fuel + 1) st (.mk .tsTypeRef as [.mk .ident (n :: b :: ir) iks, tp])
      = ext.foldl (extendsStep fuel) (refineMembers members, st) := by
  simp only [resolveElements, h1, h2, enterRes_ok _ _ hg]
  congr 1

/-- `extends Partial<B>`, `extends Pick<B, K>`: the parent is resolved as the type reference written in the clause,
    type arguments included. -/
theorem C16_extends_parent_with_arguments (fuel : Nat) (acc : List Node) (st : St) (as : List String) (ias : List String) (iks : List Node) (targs : Node) :
    extendsStep fuel (acc, st) (.mk .tsExprWithTypeArgs as [.mk .ident ias iks, targs])
      = (acc ++ (resolveElements fuel st (.mk .tsTypeRef [] [.mk .ident ias [], targs])).1,
         (resolveElements fuel st (.mk .tsTypeRef [] [.mk .ident ias [], targs])).2) := by
  simp [extendsStep]

/-- `extends NS.B` (a parent that is not a plain identifier) is reported, never silently dropped. -/
theorem C16_extends_qualified_reported (fuel : Nat) (acc : List Node) (st : St) (as mas : List String) (mks : List Node) (targs : Node) :
    extendsStep fuel (acc, st) (.mk .tsExprWithTypeArgs as [.mk .member mas mks, targs])
      = (acc, st.err "Error: Unresolvable type.") := by
  simp [extendsStep]

/-- Indexed access into an interface reaches INHERITED members: when the interface's own members do not have the key and its
    parent resolves the access to `t`, the access is `t` (fix ac8e4df; before, the access was an empty union and the props
    type silently empty). -/
theorem C16_indexed_access_inherited (fuel : Nat) (st st' : St) (n b : String) (ir as ias eas bas las pas pias : List String)
    (iks piks : List Node) (tp id tps targs index t : Node) (members : List Node)
    (h1 : lookupReg st.typeAliases (n, b) = none)
    (h2 : lookupReg st.interfaces (n, b) = some (.mk .tsIface ias [id, tps, .mk .list eas [.mk .tsExprWithTypeArgs pas [.mk .ident pias piks, targs]],
            .mk .tsIfaceBody bas [.mk .list las members]]))
    (hsel : selectMembers fuel st members index = ([], st))
    (hp : resolveIndexed fuel st (.mk .tsTypeRef [] [.mk .ident pias [], targs]) index = (some t, st'))
    (ht : t.kind ≠ .tsUnion)
    (hg : st.typeGaveUp = false) :
    resolveIndexed (fuel + 1) st (.mk .tsTypeRef as [.mk .ident (n :: b :: ir) iks, tp]) index = (some t, st') := by
  cases t with
  | mk k tas tks =>
    simp only [Node.kind] at ht
    simp only [resolveIndexed, h1, h2, enterRes_ok _ _ hg, hsel, List.foldl, hp]
    cases k <;> simp_all

/-- Indexed access into an INTERSECTION goes into the type literal made of its resolved members (fix 6c2037f; before, the
    access was unresolvable: an error as a props type, a silent `type: []` as the type of a prop). -/
theorem C16_indexed_access_into_intersection (fuel : Nat) (st : St) (as : List String) (ks : List Node) (index : Node)
    (hg : st.typeGaveUp = false) :
    resolveIndexed (fuel + 1) st (.mk .tsIntersection as ks) index
      = resolveIndexed fuel (resolveElements fuel st (.mk .tsIntersection as ks)).2
          (.mk .tsTypeLit [] [nList (resolveElements fuel st (.mk .tsIntersection as ks)).1]) index := by
  simp [resolveIndexed, enterRes_ok _ _ hg]

/-- … through parentheses … -/
theorem C16_indexed_access_paren (fuel : Nat) (st : St) (as : List String) (t index : Node) (hg : st.typeGaveUp = false) :
    resolveIndexed (fuel + 1) st (.mk .tsParen as [t]) index = resolveIndexed fuel st t index := by
  simp [resolveIndexed, enterRes_ok _ _ hg]

/-- … and into `Partial<T>` / `Required<T>` / `Pick<T, K>` / `Omit<T, K>` (global names that are not shadowed by a declaration). -/
theorem C16_indexed_access_into_utility (fuel : Nat) (st : St) (n : String) (ir as : List String) (iks : List Node) (tp index : Node)
    (hn : n = "Partial" ∨ n = "Required" ∨ n = "Pick" ∨ n = "Omit")
    (h1 : lookupReg st.typeAliases (n, "u") = none) (h2 : lookupReg st.interfaces (n, "u") = none)
    (hg : st.typeGaveUp = false) :
    resolveIndexed (fuel + 1) st (.mk .tsTypeRef as [.mk .ident (n :: "u" :: ir) iks, tp]) index
      = resolveIndexed fuel (resolveElements fuel st (.mk .tsTypeRef as [.mk .ident (n :: "u" :: ir) iks, tp])).2
          (.mk .tsTypeLit [] [nList (resolveElements fuel st (.mk .tsTypeRef as [.mk .ident (n :: "u" :: ir) iks, tp])).1]) index := by
  rcases hn with rfl | rfl | rfl | rfl <;> simp [resolveIndexed, enterRes_ok _ _ hg, h1, h2]

end VueJsx
