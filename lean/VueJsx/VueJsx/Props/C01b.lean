/-
  C01 (continued) — "props are exactly the written attributes", for WHOLE lists of plain attributes: every written attribute
  appears exactly once, in source order, under its full name (a namespaced name keeps its colon) with the value the property
  text gives it (value-less = true, a string cleaned by the JSX rule, an expression as written).
-/
import VueJsx.Props.C13

namespace VueJsx
open Text

/-- the value the property text gives a plain attribute's written value (value-less / string / expression) -/
def specPlainValue (v : Node) : Option Node :=
  match v with
  | .mk .none _ _ => some (nBool true)
  | .mk .str (s :: _) _ => some (nStr (String.ofList (cleanText s.toList)))
  | .mk .jsxExprContainer _ [e] => some e
  | _ => none

/-- SPECIFICATION (property text): the prop entry a plain attribute denotes.  `none` for what is not a plain attribute with a
    value-less / string / expression value (directives, spreads, element-valued attributes). -/
def specPlainKV (a : Node) : Option Node :=
  match a with
  | .mk .jsxAttr _ [nameN, v] =>
    if isDirectiveAttrName (attrNameOf nameN) then none
    else
      let name : Option String :=
        match attrNameOf nameN with
        | .plain s => some s
        | .ns ns n => some (ns ++ ":" ++ n)
        | .bad => none
      match name, specPlainValue v with
      | some n, some x => some (nKV (nStr n) x)
      | _, _ => none
  | _ => none

theorem attrStep_plain_core (o : Opts) (env : Env) (c : Bool) (as : List String) (nameN v : Node) (acc : AttrAcc) (st : St)
    (hon : o.transformOn = false) (hd' : isDirectiveAttrName (attrNameOf nameN) = false)
    (n : String) (x : Node) (hx : specPlainValue v = some x)
    (hn : (match attrNameOf nameN with | .plain s => s | .ns ns n => ns ++ ":" ++ n | .bad => "") = n) :
    let r := (attrStep o c (.mk .jsxAttr as [nameN, v]) (lowerOf o env (.mk .jsxAttr as [nameN, v]) st).1 acc
                (lowerOf o env (.mk .jsxAttr as [nameN, v]) st).2).1
    r.props = acc.props ++ [nKV (nStr n) x] ∧ r.mergeArgs = acc.mergeArgs ∧ r.directives = acc.directives
      ∧ r.slots = acc.slots := by
  have hflags : ∀ (n : String) (vN : Node) (acc : AttrAcc),
      (plainAttrFlags c n vN false acc).props = acc.props ∧ (plainAttrFlags c n vN false acc).mergeArgs = acc.mergeArgs
        ∧ (plainAttrFlags c n vN false acc).directives = acc.directives ∧ (plainAttrFlags c n vN false acc).slots = acc.slots := by
    intro n vN acc
    unfold plainAttrFlags coverStep hydrationStep
    repeat' split
    all_goals exact ⟨rfl, rfl, rfl, rfl⟩
  have hl : lowerOf o env (.mk .jsxAttr as [nameN, v]) st = (none, st) := by
    unfold lowerOf
    split
    · rename_i heq; cases heq; simp [specPlainValue] at hx
    · rename_i heq; cases heq; simp [specPlainValue] at hx
    · rfl
  subst hn
  rw [hl]
  simp only [attrStep, hd', Bool.false_eq_true, if_false, hon, Bool.false_and]
  unfold specPlainValue at hx
  split at hx
  · cases hx; simp [attrValueExpr, hflags] <;> (cases attrNameOf nameN <;> rfl)
  · cases hx; simp [attrValueExpr, hflags] <;> (cases attrNameOf nameN <;> rfl)
  · cases hx; simp [attrValueExpr, hflags] <;> (cases attrNameOf nameN <;> rfl)
  · cases hx

/-- one fold step on a plain attribute (transformOn off): its entry is appended, nothing else about the props changes -/
theorem attrStep_plain_kv (o : Opts) (env : Env) (c : Bool) (a kv : Node) (acc : AttrAcc) (st : St)
    (hon : o.transformOn = false) (hs : specPlainKV a = some kv) :
    let r := (attrStep o c a (lowerOf o env a st).1 acc (lowerOf o env a st).2).1
    r.props = acc.props ++ [kv] ∧ r.mergeArgs = acc.mergeArgs ∧ r.directives = acc.directives ∧ r.slots = acc.slots := by
  have hflags : ∀ (n : String) (vN : Node) (acc : AttrAcc),
      (plainAttrFlags c n vN false acc).props = acc.props ∧ (plainAttrFlags c n vN false acc).mergeArgs = acc.mergeArgs
        ∧ (plainAttrFlags c n vN false acc).directives = acc.directives ∧ (plainAttrFlags c n vN false acc).slots = acc.slots := by
    intro n vN acc
    unfold plainAttrFlags coverStep hydrationStep
    repeat' split
    all_goals exact ⟨rfl, rfl, rfl, rfl⟩
  unfold specPlainKV at hs
  split at hs
  · rename_i as nameN v
    split at hs
    · cases hs
    · rename_i hd
      have hd' : isDirectiveAttrName (attrNameOf nameN) = false := by simpa using hd
      simp only [] at hs
      generalize hval : specPlainValue v = val at hs
      cases hN : attrNameOf nameN with
      | bad => simp [hN] at hs
      | plain s =>
        cases val with
        | none => simp [hN] at hs
        | some x =>
          simp only [hN] at hs
          cases hs
          exact attrStep_plain_core o env c as nameN v acc st hon hd' s x hval (by rw [hN])
      | ns ns n =>
        cases val with
        | none => simp [hN] at hs
        | some x =>
          simp only [hN] at hs
          cases hs
          exact attrStep_plain_core o env c as nameN v acc st hon hd' (ns ++ ":" ++ n) x hval (by rw [hN])
  · cases hs

/-- **C01, whole lists of plain attributes**: the pending props are the earlier ones followed by exactly the denoted entries,
    in source order; no merge argument, directive or slots value appears. -/
theorem C01_plain_attrs_exactly_written (o : Opts) (env : Env) (c : Bool) (hon : o.transformOn = false) :
    ∀ (attrs : List Node) (acc : AttrAcc) (st : St), (∀ a ∈ attrs, (specPlainKV a).isSome = true) →
      let r := (trAttrs o env c attrs acc st).1
      r.props = acc.props ++ attrs.filterMap specPlainKV ∧ r.mergeArgs = acc.mergeArgs ∧ r.directives = acc.directives
        ∧ r.slots = acc.slots
  | [], acc, st, _ => by unfold trAttrs; simp
  | a :: rest, acc, st, h => by
    obtain ⟨kv, hkv⟩ := Option.isSome_iff_exists.mp (h a (List.mem_cons_self))
    have hstep := attrStep_plain_kv o env c a kv acc st hon hkv
    have ih := C01_plain_attrs_exactly_written o env c hon rest
      (attrStep o c a (lowerOf o env a st).1 acc (lowerOf o env a st).2).1
      (attrStep o c a (lowerOf o env a st).1 acc (lowerOf o env a st).2).2
      (fun x hx => h x (List.mem_cons_of_mem _ hx))
    rw [trAttrs_cons]
    simp only [] at hstep ih ⊢
    obtain ⟨i1, i2, i3, i4⟩ := ih
    obtain ⟨s1, s2, s3, s4⟩ := hstep
    refine ⟨?_, ?_, ?_, ?_⟩
    · rw [i1, s1, List.filterMap_cons, hkv]; simp
    · rw [i2, s2]
    · rw [i3, s3]
    · rw [i4, s4]

theorem specPlainKV_is_kv (a kv : Node) (h : specPlainKV a = some kv) : ∃ k v, kv = nKV (nStr k) v := by
  unfold specPlainKV at h
  split at h
  · rename_i as nameN v
    split at h
    · cases h
    · simp only [] at h
      cases hN : attrNameOf nameN <;> cases hv : specPlainValue v <;> simp [hN, hv] at h
      all_goals exact ⟨_, _, h.symm⟩
  · cases h

/-- **C01, the whole element, mergeProps off**: an element whose attributes are all plain receives as its props argument the
    object literal of exactly the denoted entries, in source order - no `mergeProps` call, nothing imported. -/
theorem C01_plain_element_props_object (o : Opts) (env : Env) (c : Bool) (hon : o.transformOn = false) (hmp : o.mergeProps = false)
    (a : Node) (rest : List Node) (st : St) (h : ∀ x ∈ a :: rest, (specPlainKV x).isSome = true) :
    (transformAttrs o env (a :: rest) c st).1.attrs = nObject ((a :: rest).filterMap specPlainKV) := by
  have hw := C01_plain_attrs_exactly_written o env c hon (a :: rest) {} st h
  simp only [] at hw
  obtain ⟨h1, h2, -, -⟩ := hw
  obtain ⟨kv, hkv⟩ := Option.isSome_iff_exists.mp (h a List.mem_cons_self)
  obtain ⟨k, v, rfl⟩ := specPlainKV_is_kv a kv hkv
  simp only [transformAttrs, assembleProps, h1, h2]
  simp [hkv, hmp, nKV]

-- non-vacuity (tests, labelled as tests): three plain attributes, one namespaced, one value-less
private def tP (n : String) (v : Node) : Node := .mk .jsxAttr [] [.mk .ident [n] [], v]
private def tNs (a b : String) (v : Node) : Node :=
  .mk .jsxAttr [] [.mk .jsxNsName [] [.mk .ident [a] [], .mk .ident [b] []], v]
#guard [tP "id" (nStr " a\n  b "), tNs "xlink" "href" (.mk .jsxExprContainer [] [nStr "u"]), tP "disabled" (.mk .none [] [])].all
         (fun a => (specPlainKV a).isSome)
#guard ([tP "id" (nStr " a\n  b "), tNs "xlink" "href" (.mk .jsxExprContainer [] [nStr "u"]), tP "disabled" (.mk .none [] [])].filterMap
          specPlainKV).map (fun kv => match kv with | .mk .kv _ [.mk .str (k :: _) _, _] => k | _ => "?")
         == ["id", "xlink:href", "disabled"]

end VueJsx
