/-
  C16, continued — REFINEMENT: the model's `resolveElements` computes the specification's `propsOfType` (indexed access switched
  off) on the specification's whole ok-domain: every type node, every registry, every nesting the fuel admits — literals,
  parentheses, intersections, alias chains, interfaces with `extends` (type arguments included), Partial, Required, Pick, Omit —
  and reports nothing there.
-/
import VueJsx.TypeSpec
import VueJsx.Props.C16
import VueJsx.Props.C19

namespace VueJsx

/-! ### the specification's results under `append` folds -/

theorem PRes.append_nonok_left (a b : PRes) (ha : ∀ x, a ≠ .ok x) : ∀ x, a.append b ≠ .ok x := by
  intro x
  cases a with
  | ok y => exact absurd rfl (ha y)
  | unresolved => simp [PRes.append]
  | outside => cases b <;> simp [PRes.append]

theorem foldl_append_nonok {α : Type} (F : α → PRes) : ∀ (l : List α) (acc : PRes), (∀ x, acc ≠ .ok x) →
    ∀ x, l.foldl (fun acc t => acc.append (F t)) acc ≠ .ok x
  | [], acc, h, x => by simpa using h x
  | t :: l, acc, h, x => by
    simp only [List.foldl_cons]
    exact foldl_append_nonok F l _ (PRes.append_nonok_left acc (F t) h) x

theorem membersSpec_append (a b : List Node) : membersSpec (a ++ b) = membersSpec a ++ membersSpec b := by
  simp [membersSpec, List.filterMap_append]

/-- simulation of an `append` fold of the specification by the model's accumulating fold -/
theorem fold_sim {α : Type} (F : α → PRes) (G : St → α → List Node × St) (st : St) :
    ∀ (l : List α), (∀ t ∈ l, ∀ p, F t = .ok p → ∃ ms, G st t = (ms, st) ∧ membersSpec ms = p) →
    ∀ (init : List PropSpec) (initM : List Node) (ps : List PropSpec), membersSpec initM = init →
      l.foldl (fun (acc : PRes) t => acc.append (F t)) (PRes.ok init) = PRes.ok ps →
      ∃ ms, l.foldl (fun (acc : List Node × St) t => let (more, st) := G acc.2 t; (acc.1 ++ more, st)) (initM, st) = (ms, st)
        ∧ membersSpec ms = ps
  | [], _, init, initM, ps, hi, h => by
    simp only [List.foldl_nil, PRes.ok.injEq] at h
    exact ⟨initM, rfl, by rw [hi, h]⟩
  | t :: l, hFG, init, initM, ps, hi, h => by
    simp only [List.foldl_cons] at h ⊢
    cases hF : F t with
    | ok p =>
      obtain ⟨ms, hG, hms⟩ := hFG t (by simp) p hF
      rw [hF] at h
      simp only [PRes.append] at h
      rw [hG]
      exact fold_sim F G st l (fun t' ht' => hFG t' (by simp [ht'])) (init ++ p) (initM ++ ms) ps
        (by rw [membersSpec_append, hi, hms]) h
    | unresolved =>
      rw [hF] at h
      exact absurd h (foldl_append_nonok F l _ (by simp [PRes.append]) ps)
    | outside =>
      rw [hF] at h
      exact absurd h (foldl_append_nonok F l _ (by simp [PRes.append]) ps)

/-! ### members -/

theorem membersSpec_refine (ms : List Node) : membersSpec (refineMembers ms) = membersSpec ms := by
  induction ms with
  | nil => rfl
  | cons m ms ih =>
    obtain ⟨k, as, ks⟩ := m
    simp only [refineMembers, membersSpec] at ih ⊢
    cases k <;> simp_all [List.filterMap_cons]

/-- one member, read by the specification -/
def memberSpec (m : Node) : Option PropSpec :=
  match m with
  | .mk .tsPropSig [_, comp, opt] [key, ann] => (specKeyC comp key).map fun k => { key := k, optional := opt == "true", ty := typeAnnInner ann }
  | .mk .tsMethodSig [comp, opt] (key :: _) => (specKeyC comp key).map fun k => { key := k, optional := opt == "true", ty := none, isMethod := true }
  | .mk .tsGetterSig as [key, ann] => (specKeyC (as.headD "false") key).map fun k => { key := k, optional := false, ty := typeAnnInner ann }
  | _ => none

theorem membersSpec_eq (ms : List Node) : membersSpec ms = ms.filterMap memberSpec := by
  unfold membersSpec
  congr 1

/-- `Partial` / `Required` on one member -/
theorem memberSpec_setOptional (v : Bool) (m : Node) :
    memberSpec (setOptional v m) = (memberSpec m).map fun x => { x with optional := v } := by
  obtain ⟨k, as, ks⟩ := m
  cases k <;> try (simp [setOptional, memberSpec]; done)
  case tsPropSig =>
    match as, ks with
    | [ro, comp, opt], [key, ann] => cases v <;> cases h : specKeyC comp key <;> simp [setOptional, memberSpec, h]
    | [], _ => simp [setOptional, memberSpec]
    | [_], _ => simp [setOptional, memberSpec]
    | [_, _], _ => simp [setOptional, memberSpec]
    | _ :: _ :: _ :: _ :: _, _ => simp [setOptional, memberSpec]
    | [_, _, _], [] => simp [setOptional, memberSpec]
    | [_, _, _], [_] => simp [setOptional, memberSpec]
    | [_, _, _], _ :: _ :: _ :: _ => simp [setOptional, memberSpec]
  case tsMethodSig =>
    match as, ks with
    | [comp, opt], key :: rest => cases v <;> cases h : specKeyC comp key <;> simp [setOptional, memberSpec, h]
    | [], _ => simp [setOptional, memberSpec]
    | [_], _ => simp [setOptional, memberSpec]
    | _ :: _ :: _ :: _, _ => simp [setOptional, memberSpec]
    | [_, _], [] => simp [setOptional, memberSpec]
  case tsGetterSig =>
    cases v
    · match ks with
      | [key, ann] => simp [setOptional, memberSpec]; cases specKeyC (as.head?.getD "false") key <;> simp
      | [] => simp [setOptional, memberSpec]
      | [_] => simp [setOptional, memberSpec]
      | _ :: _ :: _ :: _ => simp [setOptional, memberSpec]
    · match ks with
      | [key, ann] => simp [setOptional, memberSpec]; cases specKeyC (as.head?.getD "false") key <;> simp
      | [] => simp [setOptional, memberSpec]
      | [_] => simp [setOptional, memberSpec]
      | _ :: _ :: _ :: _ => simp [setOptional, memberSpec]

theorem membersSpec_setOptional (v : Bool) (ms : List Node) :
    membersSpec (ms.map (setOptional v)) = (membersSpec ms).map fun x => { x with optional := v } := by
  rw [membersSpec_eq, membersSpec_eq]
  induction ms with
  | nil => rfl
  | cons m ms ih =>
    simp only [List.map_cons, List.filterMap_cons, memberSpec_setOptional]
    cases memberSpec m <;> simp [ih]

/-- the key by which the model's Pick / Omit select a member is the key by which the specification does -/
theorem memberKeyName_of_spec (m : Node) (p : PropSpec) (h : memberSpec m = some p) :
    memberKeyName m = some (pickName p.key) := by
  obtain ⟨k, as, ks⟩ := m
  cases k <;> try (simp [memberSpec] at h; done)
  case tsPropSig =>
    match as, ks with
    | [ro, comp, opt], [key, ann] =>
      simp only [memberSpec, Option.map_eq_some_iff] at h
      obtain ⟨kk, hk, rfl⟩ := h
      obtain ⟨kind, kas, kks⟩ := key
      cases kind <;> try (simp [specKeyC, specKey] at hk; done)
      all_goals (cases kas <;> simp [specKeyC, specKey, nIdentName, nIdent] at hk <;> (try (split at hk <;> simp at hk)) <;> (try subst hk) <;> simp_all [memberKeyName, pickName])
    | [], _ => simp [memberSpec] at h
    | [_], _ => simp [memberSpec] at h
    | [_, _], _ => simp [memberSpec] at h
    | _ :: _ :: _ :: _ :: _, _ => simp [memberSpec] at h
    | [_, _, _], [] => simp [memberSpec] at h
    | [_, _, _], [_] => simp [memberSpec] at h
    | [_, _, _], _ :: _ :: _ :: _ => simp [memberSpec] at h
  case tsMethodSig =>
    match as, ks with
    | [comp, opt], key :: rest =>
      simp only [memberSpec, Option.map_eq_some_iff] at h
      obtain ⟨kk, hk, rfl⟩ := h
      obtain ⟨kind, kas, kks⟩ := key
      cases kind <;> try (simp [specKeyC, specKey] at hk; done)
      all_goals (cases kas <;> simp [specKeyC, specKey, nIdentName, nIdent] at hk <;> (try (split at hk <;> simp at hk)) <;> (try subst hk) <;> simp_all [memberKeyName, pickName])
    | [], _ => simp [memberSpec] at h
    | [_], _ => simp [memberSpec] at h
    | _ :: _ :: _ :: _, _ => simp [memberSpec] at h
    | [_, _], [] => simp [memberSpec] at h
  case tsGetterSig =>
    match ks with
    | [key, ann] =>
      simp only [memberSpec, Option.map_eq_some_iff] at h
      obtain ⟨kk, hk, rfl⟩ := h
      obtain ⟨kind, kas, kks⟩ := key
      cases kind <;> try (simp [specKeyC, specKey] at hk; done)
      all_goals (cases kas <;> simp [specKeyC, specKey, nIdentName, nIdent] at hk <;> (try (split at hk <;> simp at hk)) <;> (try subst hk) <;> simp_all [memberKeyName, pickName])
    | [] => simp [memberSpec] at h
    | [_] => simp [memberSpec] at h
    | _ :: _ :: _ :: _ => simp [memberSpec] at h

theorem membersSpec_filter (ms : List Node) (fm : Node → Bool) (fs : PropSpec → Bool)
    (h : ∀ m p, memberSpec m = some p → fm m = fs p) :
    membersSpec (ms.filter fm) = (membersSpec ms).filter fs := by
  rw [membersSpec_eq, membersSpec_eq]
  induction ms with
  | nil => rfl
  | cons m ms ih =>
    cases hm : memberSpec m with
    | none =>
      by_cases hf : fm m = true
      · simp [hf, hm, ih]
      · simp [hf, hm, ih]
    | some p =>
      have := h m p hm
      by_cases hf : fm m = true
      · have hs : fs p = true := by rw [← this]; exact hf
        simp [hf, hm, hs, ih]
      · have hs : fs p = false := by rw [← this]; simpa using hf
        simp [hf, hm, hs, ih]

theorem membersSpec_pick (keys : List String) (ms : List Node) :
    membersSpec (ms.filter fun m => match memberKeyName m with | some (some k) => keys.contains k | _ => false)
      = (membersSpec ms).filter (pickedBy keys) := by
  apply membersSpec_filter
  intro m p h
  rw [memberKeyName_of_spec m p h]
  unfold pickedBy
  cases pickName p.key <;> rfl

theorem membersSpec_omit (keys : List String) (ms : List Node) :
    membersSpec (ms.filter fun m => match memberKeyName m with | some (some k) => !keys.contains k | _ => true)
      = (membersSpec ms).filter (fun p => !pickedBy keys p) := by
  apply membersSpec_filter
  intro m p h
  rw [memberKeyName_of_spec m p h]
  unfold pickedBy
  cases pickName p.key <;> rfl

/-! ### key sets: the specification's `literalStrings` is what the model's `resolveStrings` computes -/

def litStep (fuel : Nat) (reg : St) (acc : Option (List String)) (t : Node) : Option (List String) :=
  match acc, literalStrings fuel reg t with
  | some a, some b => some (a ++ b)
  | _, _ => none

theorem foldl_litStep_none (fuel : Nat) (reg : St) : ∀ l : List Node, l.foldl (litStep fuel reg) none = none
  | [] => rfl
  | t :: l => by simp only [List.foldl_cons, litStep]; exact foldl_litStep_none fuel reg l

theorem unionStep_lit (fuel : Nat) (st : St) (acc : List String) (t : Node) (b : List String)
    (hspec : literalStrings fuel st t = some b)
    (ih : ∀ b, literalStrings fuel st t = some b → resolveStrings fuel st t = (b, st)) :
    unionStep fuel (acc, st) t = (acc ++ b, st) := by
  have h1 := ih b hspec
  unfold unionStep
  split
  · -- a string literal member is taken directly
    rename_i as v r ks
    cases fuel with
    | zero => simp [literalStrings] at hspec
    | succ f =>
      simp [literalStrings] at hspec
      subst hspec
      rfl
  · simp [h1]

theorem foldl_union_sim (fuel : Nat) (st : St) : ∀ (l : List Node) (accS : List String) (keys : List String),
    (∀ t ∈ l, ∀ b, literalStrings fuel st t = some b → resolveStrings fuel st t = (b, st)) →
    l.foldl (litStep fuel st) (some accS) = some keys →
    l.foldl (unionStep fuel) (accS, st) = (keys, st)
  | [], accS, keys, _, h => by simp at h; simp [h]
  | t :: l, accS, keys, hih, h => by
    simp only [List.foldl_cons] at h ⊢
    cases hb : literalStrings fuel st t with
    | none =>
      simp only [litStep, hb] at h
      rw [foldl_litStep_none] at h
      exact absurd h (by simp)
    | some b =>
      simp only [litStep, hb] at h
      rw [unionStep_lit fuel st accS t b hb (hih t (by simp))]
      exact foldl_union_sim fuel st l (accS ++ b) keys (fun t' ht' => hih t' (by simp [ht'])) h

theorem literalStrings_refines : ∀ (fuel : Nat) (st : St) (ty : Node) (keys : List String), st.typeGaveUp = false →
    literalStrings fuel st ty = some keys → resolveStrings fuel st ty = (keys, st)
  | 0, _, _, _, _, h => by simp [literalStrings] at h
  | fuel + 1, st, ty, keys, hg, h => by
    have ih := fun t b hb => literalStrings_refines fuel st t b hg hb
    unfold literalStrings at h
    split at h
    · -- string literal
      simp only [Option.some.injEq] at h
      subst h
      simp [resolveStrings, enterRes_ok _ _ hg]
    · -- never
      simp only [Option.some.injEq] at h
      subst h
      simp [resolveStrings, enterRes_ok _ _ hg]
    · -- parentheses
      rename_i as t
      rw [resolveStrings]
      simp only [enterRes_ok _ _ hg]
      exact ih t keys h
    · -- union
      rename_i as las ts
      rw [resolveStrings]
      simp only [enterRes_ok _ _ hg]
      exact foldl_union_sim fuel st ts [] keys (fun t _ b hb => ih t b hb) h
    · -- alias
      rename_i as n b r iks rest
      split at h
      · rename_i t hl
        rw [resolveStrings]
        simp only [enterRes_ok _ _ hg, hl]
        exact ih t keys h
      · simp at h
    · simp at h

/-! ### the refinement -/

/-- the parents of an interface, read by the specification / resolved by the model -/
def parentSpec (fuel : Nat) (st : St) (p : Node) : PRes :=
  match p with
  | .mk .tsExprWithTypeArgs _ [.mk .ident ias _, targs] => propsOfTypeG false fuel st (.mk .tsTypeRef [] [.mk .ident ias [], targs])
  | _ => .unresolved

def parentModel (fuel : Nat) (st : St) (p : Node) : List Node × St :=
  match p with
  | .mk .tsExprWithTypeArgs _ [.mk .ident ias _, targs] => resolveElements fuel st (.mk .tsTypeRef [] [.mk .ident ias [], targs])
  | _ => ([], st.err "Error: Unresolvable type.")

theorem C16_refines_spec : ∀ (fuel : Nat) (st : St) (ty : Node) (props : List PropSpec), st.typeGaveUp = false →
    propsOfTypeG false fuel st ty = .ok props →
    ∃ ms, resolveElements fuel st ty = (ms, st) ∧ membersSpec ms = props
  | 0, _, _, _, _, h => by simp [propsOfTypeG] at h
  | fuel + 1, st, ty, props, hg, h => by
    have ih := fun t p hp => C16_refines_spec fuel st t p hg hp
    unfold propsOfTypeG at h
    split at h
    · -- a type literal
      rename_i as las members
      simp only [PRes.ok.injEq] at h
      subst h
      exact ⟨refineMembers members, by simp [resolveElements, enterRes_ok _ _ hg], membersSpec_refine _⟩
    · -- parentheses
      rename_i as t
      rw [resolveElements]
      simp only [enterRes_ok _ _ hg]
      exact ih t props h
    · -- an intersection
      rename_i as las ts
      obtain ⟨ms, hm, hs⟩ := fold_sim (fun t => propsOfTypeG false fuel st t) (fun st t => resolveElements fuel st t) st ts
        (fun t _ p hp => ih t p hp) [] [] props rfl h
      refine ⟨ms, ?_, hs⟩
      rw [resolveElements]
      simp only [enterRes_ok _ _ hg]
      exact hm
    · simp at h
    · -- a type reference
      rename_i as n b r iks tparams
      split at h
      · -- an alias
        rename_i t hl
        rw [resolveElements]
        simp only [enterRes_ok _ _ hg, hl]
        exact ih t props h
      · rename_i hl
        split at h
        · -- an interface: its members, then its parents
          rename_i ias id tps eas ext bas las members hi
          have hspec : ext.foldl (fun (acc : PRes) p => acc.append (parentSpec fuel st p)) (PRes.ok (membersSpec members)) = PRes.ok props := by
            rw [← h]
            congr 1
          obtain ⟨ms, hm, hs⟩ := fold_sim (parentSpec fuel st) (parentModel fuel) st ext
            (fun p _ q hq => by
              unfold parentSpec at hq
              unfold parentModel
              split at hq
              · exact ih _ q hq
              · simp at hq)
            (membersSpec members) (refineMembers members) props (membersSpec_refine _) hspec
          refine ⟨ms, ?_, hs⟩
          rw [resolveElements]
          simp only [enterRes_ok _ _ hg, hl, hi]
          rw [← hm]
          congr 1
          funext acc p
          unfold parentModel
          split <;> simp
        · simp at h
        · -- no declaration: the utility types
          rename_i hi
          split at h
          · simp at h
          · rename_i hb
            have hb' : (b == "u") = true := by simpa using hb
            simp only at h
            split at h
            · -- Partial
              rename_i hn
              split at h
              · rename_i p hp
                cases hq : propsOfTypeG false fuel st p with
                | ok xs =>
                  rw [hq] at h
                  simp only [PRes.bind, PRes.ok.injEq] at h
                  obtain ⟨ms, hm, hs⟩ := ih p xs hq
                  refine ⟨ms.map (setOptional true), ?_, ?_⟩
                  · rw [resolveElements]
                    simp only [enterRes_ok _ _ hg, hl, hi, hb', hn, if_true, hp, hm]
                  · rw [membersSpec_setOptional, hs, h]
                | unresolved => rw [hq] at h; simp [PRes.bind] at h
                | outside => rw [hq] at h; simp [PRes.bind] at h
              · simp at h
            · rename_i hn
              split at h
              · -- Required
                rename_i hn2
                split at h
                · rename_i p hp
                  cases hq : propsOfTypeG false fuel st p with
                  | ok xs =>
                    rw [hq] at h
                    simp only [PRes.bind, PRes.ok.injEq] at h
                    obtain ⟨ms, hm, hs⟩ := ih p xs hq
                    refine ⟨ms.map (setOptional false), ?_, ?_⟩
                    · rw [resolveElements]
                      simp only [enterRes_ok _ _ hg, hl, hi, hb', hn, hn2, if_true, hp, hm]
                      simp
                    · rw [membersSpec_setOptional, hs, h]
                  | unresolved => rw [hq] at h; simp [PRes.bind] at h
                  | outside => rw [hq] at h; simp [PRes.bind] at h
                · simp at h
              · rename_i hn2
                split at h
                · -- Pick
                  rename_i hn3
                  split at h
                  · rename_i objT keysT rest hps
                    cases hq : propsOfTypeG false fuel st objT with
                    | ok xs =>
                      rw [hq] at h
                      simp only [PRes.bind] at h
                      cases hk : literalStrings fuel st keysT with
                      | some keys =>
                        rw [hk] at h
                        simp only [PRes.ok.injEq] at h
                        obtain ⟨ms, hm, hs⟩ := ih objT xs hq
                        have hkeys := literalStrings_refines fuel st keysT keys hg hk
                        refine ⟨ms.filter (fun m => match memberKeyName m with | some (some k) => keys.contains k | _ => false), ?_, ?_⟩
                        · rw [resolveElements]
                          simp only [enterRes_ok _ _ hg, hl, hi, hb', hn, hn2, hn3, if_true, hps, hkeys, hm]
                          simp
                          congr 1
                        · rw [membersSpec_pick, hs, h]
                      | none => rw [hk] at h; simp at h
                    | unresolved => rw [hq] at h; simp [PRes.bind] at h
                    | outside => rw [hq] at h; simp [PRes.bind] at h
                  · simp at h
                · rename_i hn3
                  split at h
                  · -- Omit
                    rename_i hn4
                    split at h
                    · rename_i objT keysT rest hps
                      cases hq : propsOfTypeG false fuel st objT with
                      | ok xs =>
                        rw [hq] at h
                        simp only [PRes.bind] at h
                        cases hk : literalStrings fuel st keysT with
                        | some keys =>
                          rw [hk] at h
                          simp only [PRes.ok.injEq] at h
                          obtain ⟨ms, hm, hs⟩ := ih objT xs hq
                          have hkeys := literalStrings_refines fuel st keysT keys hg hk
                          refine ⟨ms.filter (fun m => match memberKeyName m with | some (some k) => !keys.contains k | _ => true), ?_, ?_⟩
                          · rw [resolveElements]
                            simp only [enterRes_ok _ _ hg, hl, hi, hb', hn, hn2, hn3, hn4, if_true, hps, hkeys, hm]
                            simp
                            congr 1
                          · rw [membersSpec_omit, hs, h]
                        | none => rw [hk] at h; simp at h
                      | unresolved => rw [hq] at h; simp [PRes.bind] at h
                      | outside => rw [hq] at h; simp [PRes.bind] at h
                    · simp at h
                  · simp at h
    · -- indexed access is switched off
      simp at h
    · simp at h
    · simp at h
    · simp at h
    · simp at h

/-! ### … and the specification with indexed access switched on extends the one without -/

theorem foldl_append_mono {α : Type} (F G : α → PRes) : ∀ (l : List α), (∀ t ∈ l, ∀ p, F t = .ok p → G t = .ok p) →
    ∀ (init ps : List PropSpec), l.foldl (fun (acc : PRes) t => acc.append (F t)) (PRes.ok init) = PRes.ok ps →
      l.foldl (fun (acc : PRes) t => acc.append (G t)) (PRes.ok init) = PRes.ok ps
  | [], _, init, ps, h => by simpa using h
  | t :: l, hFG, init, ps, h => by
    simp only [List.foldl_cons] at h ⊢
    cases hF : F t with
    | ok p =>
      rw [hF] at h
      rw [hFG t (by simp) p hF]
      simp only [PRes.append] at h ⊢
      exact foldl_append_mono F G l (fun t' ht' => hFG t' (by simp [ht'])) _ ps h
    | unresolved => rw [hF] at h; exact absurd h (foldl_append_nonok F l _ (by simp [PRes.append]) ps)
    | outside => rw [hF] at h; exact absurd h (foldl_append_nonok F l _ (by simp [PRes.append]) ps)

theorem PRes.bind_ok {r : PRes} {f : List PropSpec → PRes} {ps : List PropSpec} (h : r.bind f = .ok ps) :
    ∃ xs, r = .ok xs ∧ f xs = .ok ps := by
  cases r with
  | ok xs => exact ⟨xs, rfl, by simpa [PRes.bind] using h⟩
  | unresolved => simp [PRes.bind] at h
  | outside => simp [PRes.bind] at h

theorem propsOfTypeG_mono : ∀ (fuel : Nat) (st : St) (ty : Node) (props : List PropSpec),
    propsOfTypeG false fuel st ty = .ok props → propsOfTypeG true fuel st ty = .ok props
  | 0, _, _, _, h => by simp [propsOfTypeG] at h
  | fuel + 1, st, ty, props, h => by
    have ih := fun t p hp => propsOfTypeG_mono fuel st t p hp
    unfold propsOfTypeG at h ⊢
    split at h
    · exact h
    · exact ih _ _ h
    · rename_i as las ts
      exact foldl_append_mono _ _ ts (fun t _ p hp => ih t p hp) [] props h
    · simp at h
    · rename_i as n b r iks tparams
      split at h
      · rename_i t hl
        exact ih _ _ h
      · rename_i hl
        split at h
        · rename_i ias id tps eas ext bas las members hi
          try simp only [hi]
          refine foldl_append_mono _ _ ext (fun p _ q hq => ?_) _ props h
          split at hq
          · exact ih _ _ hq
          · simp at hq
        · simp at h
        · rename_i hi
          try simp only [hi]
          split at h
          · simp at h
          · rename_i hb
            try simp only [hb, if_false] at h ⊢
            split at h
            · rename_i hn
              try simp only [hn, if_true]
              split at h
              · obtain ⟨xs, hx, hf⟩ := PRes.bind_ok h
                rw [ih _ _ hx]; simpa [PRes.bind] using hf
              · simp at h
            · rename_i hn
              try simp only [hn, if_false]
              split at h
              · rename_i hn2
                try simp only [hn2, if_true]
                split at h
                · obtain ⟨xs, hx, hf⟩ := PRes.bind_ok h
                  rw [ih _ _ hx]; simpa [PRes.bind] using hf
                · simp at h
              · rename_i hn2
                try simp only [hn2, if_false]
                split at h
                · rename_i hn3
                  try simp only [hn3, if_true]
                  split at h
                  · obtain ⟨xs, hx, hf⟩ := PRes.bind_ok h
                    rw [ih _ _ hx]; simpa [PRes.bind] using hf
                  · simp at h
                · rename_i hn3
                  try simp only [hn3, if_false]
                  split at h
                  · rename_i hn4
                    try simp only [hn4, if_true]
                    split at h
                    · obtain ⟨xs, hx, hf⟩ := PRes.bind_ok h
                      rw [ih _ _ hx]; simpa [PRes.bind] using hf
                    · simp at h
                  · simp at h
    · simp at h
    · simp at h
    · simp at h
    · simp at h
    · simp at h

/-- **C16, refinement (all type nodes, all registries, all nesting the fuel admits; indexed access excepted).**  Whenever the
    specification (the oracle's `propsOfType`, by `propsOfTypeG_mono`) reads a props type - built from literals, parentheses,
    intersections, aliases, interfaces with `extends`, Partial, Required, Pick, Omit in any combination - as declaring `props`, the
    model's resolution yields members that declare exactly `props` (same keys, same order, same optional flags, same types) and
    reports nothing. -/
theorem C16_model_implements_spec (fuel : Nat) (st : St) (ty : Node) (props : List PropSpec) (hg : st.typeGaveUp = false)
    (h : propsOfTypeG false fuel st ty = .ok props) :
    propsOfType fuel st ty = .ok props
    ∧ ∃ ms, resolveElements fuel st ty = (ms, st) ∧ membersSpec ms = props :=
  ⟨propsOfTypeG_mono fuel st ty props h, C16_refines_spec fuel st ty props hg h⟩

def exB : Node := .mk .tsIface [] [nIdent "B" "t", nNone, nList [], .mk .tsIfaceBody [] [nList [.mk .tsPropSig ["false", "false", "false"] [.mk .ident ["b", "n"] [], nNone]]]]
def exA : Node := .mk .tsIface [] [nIdent "A" "t", nNone,
  nList [.mk .tsExprWithTypeArgs [] [.mk .ident ["Partial", "u"] [], .mk .tsTypeParamInst [] [nList [.mk .tsTypeRef [] [.mk .ident ["B", "t"] [], nNone]]]]],
  .mk .tsIfaceBody [] [nList [.mk .tsPropSig ["false", "false", "false"] [.mk .ident ["a", "n"] [], nNone]]]]
def exSt : St := { interfaces := [(("A", "t"), exA), (("B", "t"), exB)] }
/-- non-vacuity: `interface B { b } interface A extends Partial<B> { a }`, `(props: A)` - the hypothesis of the refinement holds -/
example : ∃ props, propsOfTypeG false 8 exSt (.mk .tsTypeRef [] [.mk .ident ["A", "t"] [], nNone]) = .ok props
    ∧ props.map (fun p => (specKeyName p.key, p.optional)) = [("a", false), ("b", true)] ∧ exSt.typeGaveUp = false := by
  refine ⟨_, rfl, ?_, rfl⟩
  decide

end VueJsx
