/-
  C19, continued — REFINEMENT: whenever the specification (`TypeSpec.emitsOfType`, the oracle's reading of an emits type: type
  literals, function types, parentheses, unions, intersections, alias chains, interfaces with `extends`, to any nesting) says that
  `E` declares the event names `names`, the model resolves `E` without reporting anything and the names it collects from the
  resolved members are exactly `names`, in order.
-/
import VueJsx.Props.C16c

namespace VueJsx

/-! ### key sets at a larger depth budget -/

theorem foldl_litStep_mono (f : Nat) (st : St) (ih : ∀ t ks, literalStrings f st t = some ks → literalStrings (f + 1) st t = some ks) :
    ∀ (l : List Node) (acc : Option (List String)) (ks : List String),
      l.foldl (litStep f st) acc = some ks → l.foldl (litStep (f + 1) st) acc = some ks
  | [], acc, ks, h => by simpa using h
  | t :: l, acc, ks, h => by
    simp only [List.foldl_cons] at h ⊢
    cases acc with
    | none => simp only [litStep] at h; rw [foldl_litStep_none] at h; exact absurd h (by simp)
    | some a =>
      cases hb : literalStrings f st t with
      | none => simp only [litStep, hb] at h; rw [foldl_litStep_none] at h; exact absurd h (by simp)
      | some b =>
        have h2 : litStep (f + 1) st (some a) t = litStep f st (some a) t := by simp only [litStep, hb, ih t b hb]
        rw [h2]
        exact foldl_litStep_mono f st ih l _ ks h

theorem literalStrings_succ : ∀ (f : Nat) (st : St) (t : Node) (ks : List String),
    literalStrings f st t = some ks → literalStrings (f + 1) st t = some ks
  | 0, _, _, _, h => by simp [literalStrings] at h
  | f + 1, st, t, ks, h => by
    have ih := literalStrings_succ f st
    unfold literalStrings at h ⊢
    split at h
    · exact h
    · exact h
    · exact ih _ _ h
    · rename_i as las ts
      exact foldl_litStep_mono f st ih ts (some []) ks h
    · rename_i as n b r iks rest
      split at h
      · exact ih _ _ h
      · simp at h
    · simp at h

theorem literalStrings_le (f g : Nat) (st : St) (t : Node) (ks : List String) (hle : f ≤ g)
    (h : literalStrings f st t = some ks) : literalStrings g st t = some ks := by
  induction hle with
  | refl => exact h
  | step _ ih => exact literalStrings_succ _ st t ks ih

/-! ### members -/

theorem emitStep_callSig_eq (acc : List String) (st : St) (as las : List String) (params rest : List Node) :
    emitStep (acc, st) (.mk .tsCallSig as (.mk .list las params :: rest))
      = (match firstParamType params with
         | some t => (acc ++ (resolveStrings FUEL st t).1, (resolveStrings FUEL st t).2)
         | none => (acc, st)) := by
  unfold emitStep firstParamType
  rfl

/-- the member kinds `refineMembers` keeps -/
def isRefined (m : Node) : Bool :=
  match m with
  | .mk .tsPropSig _ _ => true
  | .mk .tsMethodSig _ _ => true
  | .mk .tsGetterSig _ _ => true
  | .mk .tsCallSig _ _ => true
  | _ => false

theorem refineMembers_eq (ms : List Node) : refineMembers ms = ms.filter isRefined := by
  unfold refineMembers
  congr 1

set_option maxHeartbeats 1000000 in
/-- one member: what the specification adds is what `emitStep` adds (refined members only) -/
theorem emitStep_member (fuel : Nat) (st : St) (hle : fuel ≤ FUEL) (hg : st.typeGaveUp = false) (acc a : List String) (m : Node)
    (h : emitMemberSpec fuel st (some acc) m = some a) :
    (if isRefined m then emitStep (acc, st) m else (acc, st)) = (a, st) := by
  obtain ⟨k, as, ks⟩ := m
  cases k <;> try (simp [emitMemberSpec] at h; simp [isRefined, h]; done)
  case tsCallSig =>
    simp only [isRefined, if_true]
    match ks with
    | .mk .list las params :: rest =>
      simp only [emitMemberSpec] at h
      rw [emitStep_callSig_eq]
      cases hp : firstParamType params with
      | none => rw [hp] at h; simp at h; simp [h]
      | some t =>
        rw [hp] at h
        simp only [Option.map_eq_some_iff] at h
        obtain ⟨ns, hns, rfl⟩ := h
        have := literalStrings_refines FUEL st t ns hg (literalStrings_le fuel FUEL st t ns hle hns)
        simp [this]
    | [] => simp [emitMemberSpec] at h; simp [isRefined, emitStep, memberKeyName, h]
    | .mk kk kas kks :: rest =>
      cases kk <;> try (simp [emitMemberSpec] at h; simp [isRefined, emitStep, memberKeyName, h]; done)
      case list =>
        simp only [emitMemberSpec] at h
        rw [emitStep_callSig_eq]
        cases hp : firstParamType kks with
        | none => rw [hp] at h; simp at h; simp [h]
        | some t =>
          rw [hp] at h
          simp only [Option.map_eq_some_iff] at h
          obtain ⟨ns, hns, rfl⟩ := h
          have := literalStrings_refines FUEL st t ns hg (literalStrings_le fuel FUEL st t ns hle hns)
          simp [this]
  case tsGetterSig =>
    simp [emitMemberSpec] at h
    simp [isRefined, emitStep, h]
  case tsPropSig =>
    match ks with
    | [] => simp [emitMemberSpec] at h; simp [isRefined, emitStep, memberKeyName, h]
    | key :: rest =>
      simp only [emitMemberSpec, Option.some.injEq] at h
      subst h
      obtain ⟨kind, kas, kks⟩ := key
      cases kind <;> try (simp [isRefined, emitStep, memberKeyName, pickName, specKeyC, specKey]; done)
      all_goals (cases kas <;> simp [isRefined, emitStep, memberKeyName, pickName, specKeyC, specKey, nIdentName, nIdent] <;> (try split) <;> simp_all [pickName])
  case tsMethodSig =>
    match ks with
    | [] => simp [emitMemberSpec] at h; simp [isRefined, emitStep, memberKeyName, h]
    | key :: rest =>
      simp only [emitMemberSpec, Option.some.injEq] at h
      subst h
      obtain ⟨kind, kas, kks⟩ := key
      cases kind <;> try (simp [isRefined, emitStep, memberKeyName, pickName, specKeyC, specKey]; done)
      all_goals (cases kas <;> simp [isRefined, emitStep, memberKeyName, pickName, specKeyC, specKey, nIdentName, nIdent] <;> (try split) <;> simp_all [pickName])

theorem foldl_emitMemberSpec_none (fuel : Nat) (st : St) : ∀ l : List Node, l.foldl (emitMemberSpec fuel st) none = none
  | [] => rfl
  | m :: l => by simp only [List.foldl_cons, emitMemberSpec]; exact foldl_emitMemberSpec_none fuel st l

/-- a member list: the names the specification reads are the names `emitStep` collects from the refined members -/
theorem emitMembers_sim (fuel : Nat) (st : St) (hle : fuel ≤ FUEL) (hg : st.typeGaveUp = false) :
    ∀ (members : List Node) (init names : List String), emitsOfMembers fuel st members init = some names →
      (refineMembers members).foldl emitStep (init, st) = (names, st)
  | [], init, names, h => by simp [emitsOfMembers] at h; simp [refineMembers, h]
  | m :: ms, init, names, h => by
    unfold emitsOfMembers at h
    simp only [List.foldl_cons] at h
    cases hm : emitMemberSpec fuel st (some init) m with
    | none => rw [hm, foldl_emitMemberSpec_none] at h; exact absurd h (by simp)
    | some a =>
      rw [hm] at h
      have step := emitStep_member fuel st hle hg init a m hm
      have ih := emitMembers_sim fuel st hle hg ms a names h
      rw [refineMembers_eq] at ih ⊢
      by_cases hk : isRefined m = true
      · simp only [hk, if_true] at step
        simp only [List.filter_cons, hk, if_true, List.foldl_cons, step]
        exact ih
      · have hk' : isRefined m = false := by simpa using hk
        simp only [hk', Bool.false_eq_true, if_false, Prod.mk.injEq, and_true] at step
        subst step
        simp only [List.filter_cons, hk', Bool.false_eq_true, if_false]
        exact ih

theorem foldl_emitStep_append (a b : List Node) (acc : List String × St) :
    (a ++ b).foldl emitStep acc = b.foldl emitStep (a.foldl emitStep acc) := by
  simp [List.foldl_append]

/-! ### folds over union / intersection members and over parents -/

def optStep (F : Node → Option (List String)) (acc : Option (List String)) (t : Node) : Option (List String) :=
  match acc, F t with
  | some a, some b => some (a ++ b)
  | _, _ => none

theorem foldl_optStep_none (F : Node → Option (List String)) : ∀ l : List Node, l.foldl (optStep F) none = none
  | [] => rfl
  | t :: l => by simp only [List.foldl_cons, optStep]; exact foldl_optStep_none F l

/-- what it means for resolved members `ms` to carry the names `b` -/
def Carries (st : St) (ms : List Node) (b : List String) : Prop := ∀ acc, ms.foldl emitStep (acc, st) = (acc ++ b, st)

theorem optFold_sim (F : Node → Option (List String)) (G : St → Node → List Node × St) (st : St) :
    ∀ (l : List Node), (∀ t ∈ l, ∀ b, F t = some b → ∃ ms, G st t = (ms, st) ∧ Carries st ms b) →
    ∀ (init : List String) (initM : List Node) (names : List String), Carries st initM init →
      l.foldl (optStep F) (some init) = some names →
      ∃ ms, l.foldl (fun (acc : List Node × St) t => let (more, st) := G acc.2 t; (acc.1 ++ more, st)) (initM, st) = (ms, st)
        ∧ Carries st ms names
  | [], _, init, initM, names, hi, h => by
    simp only [List.foldl_nil, Option.some.injEq] at h
    subst h
    exact ⟨initM, rfl, hi⟩
  | t :: l, hFG, init, initM, names, hi, h => by
    simp only [List.foldl_cons] at h ⊢
    cases hF : F t with
    | none => simp only [optStep, hF] at h; rw [foldl_optStep_none] at h; exact absurd h (by simp)
    | some b =>
      simp only [optStep, hF] at h
      obtain ⟨ms, hG, hms⟩ := hFG t (by simp) b hF
      rw [hG]
      refine optFold_sim F G st l (fun t' ht' => hFG t' (by simp [ht'])) (init ++ b) (initM ++ ms) names ?_ h
      intro acc
      rw [foldl_emitStep_append, hi acc, hms (acc ++ init)]
      simp

/-! ### the refinement -/

def parentEmits (fuel : Nat) (st : St) (p : Node) : Option (List String) :=
  match p with
  | .mk .tsExprWithTypeArgs _ [.mk .ident ias _, targs] => emitsOfType fuel st (.mk .tsTypeRef [] [.mk .ident ias [], targs])
  | _ => none

/-- `emitStep` only appends to the names collected so far -/
theorem emitStep_prefix (acc : List String) (st : St) (m : Node) :
    emitStep (acc, st) m = (acc ++ (emitStep ([], st) m).1, (emitStep ([], st) m).2) := by
  obtain ⟨k, as, ks⟩ := m
  cases k <;> try (simp only [emitStep]; split <;> simp; done)
  case tsGetterSig => simp [emitStep]
  case tsCallSig =>
    match ks with
    | .mk .list las params :: rest =>
      rw [emitStep_callSig_eq, emitStep_callSig_eq]
      cases firstParamType params <;> simp
    | [] => simp only [emitStep]; split <;> simp
    | .mk kk kas kks :: rest =>
      cases kk <;> simp only [emitStep] <;> split <;> simp

theorem foldl_emitStep_prefix : ∀ (ms : List Node) (acc : List String) (st : St),
    ms.foldl emitStep (acc, st) = (acc ++ (ms.foldl emitStep ([], st)).1, (ms.foldl emitStep ([], st)).2)
  | [], acc, st => by simp
  | m :: ms, acc, st => by
    simp only [List.foldl_cons]
    rw [emitStep_prefix acc st m, foldl_emitStep_prefix ms _ _, foldl_emitStep_prefix ms (emitStep ([], st) m).1 _]
    simp [List.append_assoc]

theorem Carries_of_nil (st : St) (ms : List Node) (names : List String) (h : ms.foldl emitStep ([], st) = (names, st)) :
    Carries st ms names := by
  intro acc
  rw [foldl_emitStep_prefix, h]

theorem Carries_members (fuel : Nat) (st : St) (hle : fuel ≤ FUEL) (hg : st.typeGaveUp = false) (members : List Node)
    (names : List String) (h : emitsOfMembers fuel st members [] = some names) : Carries st (refineMembers members) names :=
  Carries_of_nil st _ names (emitMembers_sim fuel st hle hg members [] names h)

theorem Carries_single_callSig (st : St) (hg : st.typeGaveUp = false) (params ann tparams : Node) (ps : List Node)
    (hps : params = .mk .list [] ps ∨ ∃ las, params = .mk .list las ps) (names : List String)
    (h : (match firstParamType ps with | some t => literalStrings FUEL st t | none => some []) = some names) :
    Carries st [.mk .tsCallSig [] [params, ann, tparams]] names := by
  intro acc
  have hp : ∃ las, params = .mk .list las ps := by
    rcases hps with h1 | h1
    · exact ⟨[], h1⟩
    · exact h1
  obtain ⟨las, rfl⟩ := hp
  simp only [List.foldl_cons, List.foldl_nil]
  rw [emitStep_callSig_eq]
  cases hf : firstParamType ps with
  | none => rw [hf] at h; simp at h; subst h; simp
  | some t =>
    rw [hf] at h
    have := literalStrings_refines FUEL st t names hg h
    simp [this]

theorem C19_refines_spec : ∀ (fuel : Nat) (st : St) (ty : Node) (names : List String), fuel ≤ FUEL → st.typeGaveUp = false →
    emitsOfType fuel st ty = some names →
    ∃ ms, resolveElements fuel st ty = (ms, st) ∧ Carries st ms names
  | 0, _, _, _, _, _, h => by simp [emitsOfType] at h
  | fuel + 1, st, ty, names, hle, hg, h => by
    have hle' : fuel ≤ FUEL := by omega
    have ih := fun t b hb => C19_refines_spec fuel st t b hle' hg hb
    unfold emitsOfType at h
    split at h
    · -- a type literal
      rename_i as las members
      exact ⟨refineMembers members, by simp [resolveElements, enterRes_ok _ _ hg], Carries_members fuel st hle' hg members names h⟩
    · -- a function type
      rename_i as las params tparams ann
      refine ⟨[.mk .tsCallSig [] [.mk .list las params, ann, tparams]], by simp [resolveElements, enterRes_ok _ _ hg], ?_⟩
      apply Carries_single_callSig st hg _ _ _ params (Or.inr ⟨las, rfl⟩)
      cases hf : firstParamType params with
      | none => rw [hf] at h; exact h
      | some t => rw [hf] at h; simp only; exact literalStrings_le fuel FUEL st t names hle' h
    · -- parentheses
      rename_i as t
      rw [resolveElements]
      simp only [enterRes_ok _ _ hg]
      exact ih t names h
    · -- a union
      rename_i as las ts
      obtain ⟨ms, hm, hs⟩ := optFold_sim (fun t => emitsOfType fuel st t) (fun st t => resolveElements fuel st t) st ts
        (fun t _ b hb => ih t b hb) [] [] names (by intro acc; simp) h
      refine ⟨ms, ?_, hs⟩
      rw [resolveElements]
      simp only [enterRes_ok _ _ hg]
      exact hm
    · -- an intersection
      rename_i as las ts
      obtain ⟨ms, hm, hs⟩ := optFold_sim (fun t => emitsOfType fuel st t) (fun st t => resolveElements fuel st t) st ts
        (fun t _ b hb => ih t b hb) [] [] names (by intro acc; simp) h
      refine ⟨ms, ?_, hs⟩
      rw [resolveElements]
      simp only [enterRes_ok _ _ hg]
      exact hm
    · -- a type reference
      rename_i as n b r iks tparams
      split at h
      · -- an alias
        rename_i t hl
        rw [resolveElements]
        simp only [enterRes_ok _ _ hg, hl]
        exact ih t names h
      · rename_i hl
        split at h
        · -- an interface: its members, then its parents
          rename_i ias id tps eas ext bas las members hi
          have hspec : ext.foldl (optStep (parentEmits fuel st)) (emitsOfMembers fuel st members []) = some names := by
            rw [← h]
            congr 1
            funext acc p
            unfold optStep parentEmits
            cases acc with
            | none => simp
            | some a =>
              obtain ⟨pk, pas, pks⟩ := p
              cases pk <;> try (simp; done)
              case tsExprWithTypeArgs =>
                match pks with
                | [.mk .ident ias iks', targs] =>
                  simp only
                  cases emitsOfType fuel st (.mk .tsTypeRef [] [.mk .ident ias [], targs]) <;> simp
                | [] => simp
                | [_] => simp
                | _ :: _ :: _ :: _ => simp
                | [.mk kk kas2 kks2, t2] =>
                  cases kk <;> first | (simp; done) | (simp only; cases emitsOfType fuel st (.mk .tsTypeRef [] [.mk .ident kas2 [], t2]) <;> simp)
          cases hmem : emitsOfMembers fuel st members [] with
          | none => rw [hmem, foldl_optStep_none] at hspec; exact absurd hspec (by simp)
          | some own =>
            rw [hmem] at hspec
            obtain ⟨ms, hm, hs⟩ := optFold_sim (parentEmits fuel st) (parentModel fuel) st ext
              (fun p _ q hq => by
                unfold parentEmits at hq
                unfold parentModel
                split at hq
                · exact ih _ q hq
                · simp at hq)
              own (refineMembers members) names (Carries_members fuel st hle' hg members own hmem) hspec
            refine ⟨ms, ?_, hs⟩
            rw [resolveElements]
            simp only [enterRes_ok _ _ hg, hl, hi]
            rw [← hm]
            congr 1
            funext acc p
            unfold parentModel
            split <;> simp
        · simp at h
    · simp at h

/-- **C19, refinement, end to end**: for `(props, ctx: SetupContext<E>) => …`, whenever the specification reads `E` - in ANY of the
    forms it covers, through any registry of aliases and interfaces - as declaring the event names `names`, the `emits` array the
    model injects lists exactly `names`, in order, and nothing is reported. -/
theorem C19_emits_option_is_spec (first e : Node) (st : St) (names : List String) (hg : st.typeGaveUp = false)
    (h : emitsOfType FUEL st e = some names) :
    extractEmitsType (setupWithEmits first e) st = (some (nArray (names.map fun n => nArg (nStr n))), st) := by
  obtain ⟨ms, hres, hc⟩ := C19_refines_spec FUEL st e names (Nat.le_refl _) hg h
  have hfold := hc []
  simp only [List.nil_append] at hfold
  simp only [extractEmitsType, setupWithEmits, setupParams, Option.bind, List.getElem?_cons_succ, List.getElem?_cons_zero,
    typeAnnInner, nIdent, nList, List.head?]
  simp only [bne_self_eq_false, Bool.false_eq_true, if_false, hres, hfold]

end VueJsx
