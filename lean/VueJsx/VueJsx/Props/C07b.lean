/-
  C07 (continued) - member tags at full strength: printable, or reported.
-/
import VueJsx.Props.C07
import VueJsx.Lemmas.HintElement
namespace VueJsx

/-- a member tag as the parser produces it: `Identifier . name` or `(member tag) . name`, every identifier with its name -/
def MemberShape : Node → Bool
  | .mk .jsxMember _ [obj, .mk .ident (_ :: _) _] =>
    (match obj with
     | .mk .ident (_ :: _) _ => true
     | .mk .ident [] _ => false
     | m => MemberShape m)
  | _ => false

def propPrintable : Node → Bool
  | .mk .ident (pn :: _) _ => isValidPropIdent pn
  | .mk .computed _ [.mk .str _ _] => true
  | _ => false

/-- a member chain that PRINTS as the member access it is: the object is `this`, an identifier that can be a binding, or such
    a chain; the property an identifier name or a computed string -/
def PrintableMember : Node → Bool
  | .mk .member _ [o, p] =>
    (match o with
     | .mk (.other "ThisExpression") _ _ => true
     | .mk .ident (n :: _) _ => isValidSymbol n
     | .mk .ident [] _ => false
     | m => PrintableMember m)
    && propPrintable p
  | _ => false

theorem MemberShape_other (k : K) (as : List String) (ks : List Node) (h : k ≠ .jsxMember) : MemberShape (.mk k as ks) = false := by
  unfold MemberShape
  split
  · rename_i heq; injection heq with h1; exact absurd h1 h
  · rfl

theorem memberProp_printable (pn : String) (pas : List String) (pks : List Node) :
    propPrintable (memberProp (.mk .ident (pn :: pas) pks)) = true := by
  by_cases hv : isValidPropIdent pn = true <;> simp [memberProp, hv, propPrintable, nComputed, nStr]

def ReportedTag (m : Node) : Prop :=
  ∀ st : St, memberRootCheck m st = st.err "Error: The object of a member tag must be an identifier."

theorem member_printable_aux (n : Nat) : ∀ m, sizeOf m ≤ n → MemberShape m = true →
    ReportedTag m ∨ PrintableMember (jsxMemberToExpr m) = true := by
  induction n with
  | zero => intro m hs; cases m; simp at hs
  | succ n ih =>
    intro m hs h
    obtain ⟨k, as, ks⟩ := m
    by_cases hk : k = .jsxMember
    case neg => rw [MemberShape_other _ _ _ hk] at h; cases h
    subst hk
    rcases ks with _ | ⟨obj, _ | ⟨prop, _ | ⟨x, r⟩⟩⟩
    · simp [MemberShape] at h
    · simp [MemberShape] at h
    · obtain ⟨pk, pas, pks⟩ := prop
      by_cases hpk : pk = .ident
      case neg =>
        exfalso; unfold MemberShape at h; split at h
        · rename_i heq; injection heq with _ _ h3; injection h3 with _ h4; injection h4 with h5; injection h5 with h6; exact hpk h6
        · cases h
      subst hpk
      rcases pas with _ | ⟨pn, pr⟩
      · simp [MemberShape] at h
      · rw [jsxMemberToExpr_pair]
        have hp := memberProp_printable pn pr pks
        obtain ⟨ok, oas, oks⟩ := obj
        by_cases hok : ok = .ident
        · subst hok
          rcases oas with _ | ⟨nm, nr⟩
          · simp [MemberShape] at h
          · by_cases hthis : nm = "this"
            · right; subst hthis; simp [PrintableMember, memberObj, hp]
            · by_cases hv : isValidSymbol nm = true
              · right; simp [PrintableMember, memberObj, hthis, hv, hp]
              · left; intro st; simp [memberRootCheck, memberRoot, hthis, hv]
        · by_cases hom : ok = .jsxMember
          · subst hom
            have hsub : MemberShape (.mk .jsxMember oas oks) = true := by
              simpa [MemberShape] using h
            have hsz : sizeOf (Node.mk .jsxMember oas oks) ≤ n := by simp at hs ⊢; omega
            rcases ih _ hsz hsub with r | r
            · left; intro st
              have := r st
              simpa [memberRootCheck, memberRoot] using this
            · right
              -- the lowered object is itself a member node
              rcases oks with _ | ⟨o2, _ | ⟨p2, _ | ⟨x2, r2⟩⟩⟩
              · simp [MemberShape] at hsub
              · simp [MemberShape] at hsub
              · have hobj : memberObj (.mk .jsxMember oas [o2, p2]) = jsxMemberToExpr (.mk .jsxMember oas [o2, p2]) := by
                  simp [memberObj]
                rw [hobj]
                rw [jsxMemberToExpr_pair] at r ⊢
                simp only [PrintableMember, hp, Bool.and_true]
                exact r
              · simp [MemberShape] at hsub
          · exfalso
            have : MemberShape (.mk ok oas oks) = false := MemberShape_other _ _ _ hom
            unfold MemberShape at h
            split at h
            all_goals first
              | exact absurd ‹ok = K.ident› hok
              | (rename_i heq; injection heq with h5; exact hok h5)
              | (rw [this] at h; cases h)
              | cases h
    · simp [MemberShape] at h

/-- **C07 for member tags, at full strength**: for EVERY parser-shaped member tag of any depth, either its first identifier
    cannot be a binding - then `transform_tag` REPORTS it (`memberRootCheck` adds the diagnostic in every state) - or the
    lowered tag is a member chain that prints as the member access the tag denotes (no `a-b.c` that reads as a subtraction,
    no `el-switch.Item`, no `a.b-c`). -/
theorem C07_member_tag_printable_or_reported (m : Node) (h : MemberShape m = true) :
    ReportedTag m ∨ PrintableMember (jsxMemberToExpr m) = true :=
  member_printable_aux (sizeOf m) m (Nat.le_refl _) h

/-! instances (tests, labelled as tests) -/
example : MemberShape (.mk .jsxMember [] [.mk .ident ["NS", "b1"] [], .mk .ident ["zz-top"] []]) = true := by simp [MemberShape]
example : PrintableMember (jsxMemberToExpr (.mk .jsxMember [] [.mk .ident ["NS", "b1"] [], .mk .ident ["zz-top"] []])) = true := by
  simp [jsxMemberToExpr, PrintableMember, propPrintable, isValidPropIdent, nComputed, nStr]; decide
example : ReportedTag (.mk .jsxMember [] [.mk .ident ["el-switch", "u"] [], .mk .ident ["Item"] []]) := by
  have h : isValidSymbol "el-switch" = false := by decide
  intro st; simp [memberRootCheck, memberRoot, h]

end VueJsx
