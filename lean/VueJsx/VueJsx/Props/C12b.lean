/-
  C12 — The optimize option changes hints only, never what is rendered: THE WHOLE-MODULE THEOREM.

  `HintRel a b` (Lemmas/HintRel.lean) says: `b` is `a` with, at some synthetic calls with at least three arguments,
  everything after the third argument removed — and what is removed has the shape of a patch flag and/or a
  dynamic-prop list — and with the trailing reserved `_: <number>` entry of the slots object in that third argument
  removed.  Kinds, atoms, number and order of all other children are identical.  Nothing else is allowed to differ.

  The theorems below are proved by a simulation through the whole model of the visitor: the directive parser, the
  attribute fold, `dedupe_props`, the element / fragment / child-list lowering (mutual recursion, any nesting depth),
  the bottom-up traversal with its hooks (statement lists, arrows, `v-models`, imports) and the module assembly.
  Helper lemmas: Lemmas/HintRel, HintDecisions, HintSim, HintAttrs, HintElement, HintLowering, HintVisit (~3000 lines).
  Scope: every module, every environment (tag tables, pattern answers, comments), every setting of the other options
  with `resolveType` off (the type-directed injection of `props`/`emits` does not look at `optimize`, but its model is
  not covered by this simulation).
-/
import VueJsx.Lemmas.HintVisit

namespace VueJsx

/-- **For every module** the output under `optimize = true` and the output under `optimize = false` are identical except
    for optimisation hints: extra patch-flag / dynamic-prop arguments of vnode calls and the reserved `_` entry of slot
    objects. -/
theorem C12_module_hints_only (o : Opts) (env : Env) (hrt : o.resolveType = false) (m : Node) :
    HintRel (transformModule { o with optimize := true } env m).1 (transformModule { o with optimize := false } env m).1 :=
  (transformModule_rel o env hrt m).1

/-- ... and the two runs report the same diagnostics and have the same outcome (no crash in one but not the other). -/
theorem C12_module_same_diagnostics (o : Opts) (env : Env) (hrt : o.resolveType = false) (m : Node) :
    (transformModule { o with optimize := true } env m).2.diags = (transformModule { o with optimize := false } env m).2.diags ∧
    (transformModule { o with optimize := true } env m).2.panicked = (transformModule { o with optimize := false } env m).2.panicked := by
  have h := (transformModule_rel o env hrt m).2.fields
  exact ⟨h.2.2.2.2.2.2.2.2.1, h.2.2.2.2.2.2.2.2.2.1⟩

/-- The same for ONE JSX element nested to any depth, started from any two related trees in any two states that differ at
    most in the slot-flag stack (this is the induction that carries the module theorem). -/
theorem C12_element_hints_only (o : Opts) (env : Env) {a b : Node} (h : HintRel a b) {s1 s2 : St} (hs : StSim s1 s2) :
    HintRel (trElement { o with optimize := true } env a s1).1 (trElement { o with optimize := false } env b s2).1 :=
  (trElement_rel o env h hs).1

/-- The relation is not vacuous: related trees have the same kind and atoms at the root ... -/
theorem C12_rel_same_root {a b : Node} (h : HintRel a b) : a.kind = b.kind ∧ a.atoms = b.atoms := ⟨h.kind, h.atoms⟩

/-- ... two different leaves are NOT related (so the theorem does say something) ... -/
example : ¬ HintRel (nStr "a") (nStr "b") := by
  intro h
  have := h.atoms
  simp [nStr, Node.atoms] at this

/-- ... and the hints `optimize` adds ARE covered: `f(tag, props, kids, 8, ["id"])` vs. `f(tag, props, kids)`. -/
example (f tag props kids : Node) :
    HintRel (nCall f [nArg tag, nArg props, nArg kids, nArg (nNum 8), nArg (nArray [nArg (nStr "id")])])
            (nCall f [nArg tag, nArg props, nArg kids]) :=
  HintRel.vnode [] [] [] f nNone (HintRel.refl _) (HintRel.refl _) (KidsRel.same (HintRel.refl _)) rfl

end VueJsx
