/-
  C13 (continued) — the whole-element cover theorem for the props that directives create:
  `v-html` → `innerHTML`, `v-text` → `textContent`, `v-model` → its listener key (or the full-props bit for a computed
  argument).  Whatever attributes come before or after, the final analysis result of the element covers them.
-/
import VueJsx.Props.C13
import VueJsx.Lemmas.HintSim

namespace VueJsx
open Text

/-- one fold step on a directive attribute, spelled out -/
theorem attrStep_directive (o : Opts) (c : Bool) (as : List String) (nameN valueN : Node) (l : Option Node) (acc : AttrAcc) (st : St)
    (hd : isDirectiveAttrName (attrNameOf nameN) = true) :
    (attrStep o c (.mk .jsxAttr as [nameN, valueN]) l acc st).1 =
      (match (parseDirective (attrNameOf nameN) valueN c st).1 with
       | .normal n arg mods v => { acc with directives := acc.directives ++ [(n, arg, mods, v)] }
       | .html e => { acc with props := acc.props ++ [nKV (nStr "innerHTML") e], dynamicProps := insertUnique "innerHTML" acc.dynamicProps }
       | .text e => { acc with props := acc.props ++ [nKV (nStr "textContent") e], dynamicProps := insertUnique "textContent" acc.dynamicProps }
       | .vmodel arg targ mods v => vmodelStep o c arg targ mods v acc
       | .slots e => { acc with slots := e }) := by
  simp only [attrStep, hd, if_true]
  rcases parseDirective (attrNameOf nameN) valueN c st with ⟨d, st'⟩
  cases d <;> rfl

theorem cover_after (o : Opts) (env : Env) (c : Bool) (pre post : List Node) (a : Node) (st : St) :
    Mono (attrStep o c a (lowerOf o env a (trAttrs o env c pre {} st).2).1 (trAttrs o env c pre {} st).1
            (lowerOf o env a (trAttrs o env c pre {} st).2).2).1
         (trAttrs o env c (pre ++ a :: post) {} st).1 := by
  rw [trAttrs_append, trAttrs_cons]
  exact trAttrs_mono o env c post _ _

/-- `v-html` anywhere among the attributes: `innerHTML` is in the element's dynamic-prop list. -/
theorem C13_cover_vhtml (o : Opts) (env : Env) (c : Bool) (pre post : List Node) (as : List String) (nameN valueN : Node) (st : St)
    (hd : isDirectiveAttrName (attrNameOf nameN) = true) (hn : (dirNameParts (attrNameOf nameN)).1 = "html") :
    "innerHTML" ∈ (trAttrs o env c (pre ++ .mk .jsxAttr as [nameN, valueN] :: post) {} st).1.dynamicProps := by
  apply (cover_after o env c pre post _ st).2.2.2
  rw [attrStep_directive _ _ _ _ _ _ _ _ hd, parseDirective_eq]
  simp only [hn, beq_self_eq_true, if_true]
  exact self_mem_insertUnique _ _

/-- `v-text` anywhere among the attributes: `textContent` is in the element's dynamic-prop list. -/
theorem C13_cover_vtext (o : Opts) (env : Env) (c : Bool) (pre post : List Node) (as : List String) (nameN valueN : Node) (st : St)
    (hd : isDirectiveAttrName (attrNameOf nameN) = true) (hn : (dirNameParts (attrNameOf nameN)).1 = "text") :
    "textContent" ∈ (trAttrs o env c (pre ++ .mk .jsxAttr as [nameN, valueN] :: post) {} st).1.dynamicProps := by
  apply (cover_after o env c pre post _ st).2.2.2
  rw [attrStep_directive _ _ _ _ _ _ _ _ hd, parseDirective_eq]
  simp only [hn, beq_self_eq_true, if_true]
  exact self_mem_insertUnique _ _

/-- what a `v-model` step leaves in the analysis facts: the full-props fact (computed argument) or a listener key -/
theorem vmodelStep_listener (o : Opts) (c : Bool) (a t m : Option Node) (v : Node) (acc : AttrAcc) :
    (vmodelStep o c a t m v acc).hasDynamicKeys = true ∨
      ∃ s, ("onUpdate:" ++ s) ∈ (vmodelStep o c a t m v acc).dynamicProps := by
  unfold vmodelStep vmodelStepK
  rcases hk : vmodelArgKind a with ⟨tag, s, e⟩
  rcases tag with _ | _ | tag
  · right; refine ⟨"modelValue", ?_⟩
    cases c <;> cases m <;> simp [self_mem_insertUnique]
  · right; refine ⟨s, ?_⟩
    cases c <;> cases m <;> simp [self_mem_insertUnique]
  · left
    cases c <;> cases m <;> simp

/-- `v-model` (and every `v-models` entry, which the opening-element hook turns into `v-model` attributes) anywhere among
    the attributes: the element ends with FULL_PROPS facts (computed argument) or with the listener key in its
    dynamic-prop list. -/
theorem C13_cover_vmodel (o : Opts) (env : Env) (c : Bool) (pre post : List Node) (as : List String) (nameN valueN : Node) (st : St)
    (hd : isDirectiveAttrName (attrNameOf nameN) = true) (hn : (dirNameParts (attrNameOf nameN)).1 = "model") :
    (trAttrs o env c (pre ++ .mk .jsxAttr as [nameN, valueN] :: post) {} st).1.hasDynamicKeys = true ∨
      ∃ s, ("onUpdate:" ++ s) ∈ (trAttrs o env c (pre ++ .mk .jsxAttr as [nameN, valueN] :: post) {} st).1.dynamicProps := by
  have hm := cover_after o env c pre post (.mk .jsxAttr as [nameN, valueN]) st
  have hstep : ∀ (l : Option Node) (acc : AttrAcc) (st' : St),
      (attrStep o c (.mk .jsxAttr as [nameN, valueN]) l acc st').1.hasDynamicKeys = true ∨
        ∃ s, ("onUpdate:" ++ s) ∈ (attrStep o c (.mk .jsxAttr as [nameN, valueN]) l acc st').1.dynamicProps := by
    intro l acc st'
    rw [attrStep_directive _ _ _ _ _ _ _ _ hd, parseDirective_eq]
    simp only [hn, beq_self_eq_true, if_true]
    rw [parseVModel_eq]
    unfold vmodelFinish
    rcases (match containerExpr valueN with
        | some e => vmodelTuple c e (Option.map nStr (dirNameParts (attrNameOf nameN)).2.1) (dirNameParts (attrNameOf nameN)).2.2 st'
        | none => vmodelTuple c nEmptyIdent (Option.map nStr (dirNameParts (attrNameOf nameN)).2.1) (dirNameParts (attrNameOf nameN)).2.2
            (st'.err "Error: You have to use JSX Expression inside your `v-model`.")) with ⟨s1, v1, a1, m1⟩
    exact vmodelStep_listener o c _ _ _ _ _
  rcases hstep _ _ _ with h | ⟨s, h⟩
  · exact .inl (hm.1 h)
  · exact .inr ⟨s, hm.2.2.2 _ h⟩

end VueJsx
