/-
  C01 — Every JSX element renders the vnode type and props its source denotes.
  Theorems about the model (`transformTag`, `attrValueExpr`, `attrStep`, `assembleProps`) and about the props
  normal form of VueJsx.Sem (`normOps`), which is what the oracle compares on the implementation's output.
-/
import VueJsx.Element
import VueJsx.Sem

namespace VueJsx
open Text

/-! ### the vnode type: five-way classification of the tag -/

/-- HTML/SVG tag names are passed as the tag string. -/
theorem C01_tag_known (env : Env) (name bind : String) (rest : List String) (ks : List Node) (st : St)
    (h : isKnownTag env name = true) :
    transformTag env (.mk .ident (name :: bind :: rest) ks) st = (nStr name, st) := by
  simp [transformTag, h]

/-- `Fragment` is Vue's Fragment (imported from 'vue'). -/
theorem C01_tag_fragment (env : Env) (bind : String) (rest : List String) (ks : List Node) (st : St)
    (h : isKnownTag env "Fragment" = false) :
    transformTag env (.mk .ident ("Fragment" :: bind :: rest) ks) st = st.importFromVue "Fragment" := by
  simp [transformTag, h, FRAGMENT]

/-- A tag matched by a custom-element pattern is passed as the tag string. -/
theorem C01_tag_pattern (env : Env) (name bind : String) (rest : List String) (ks : List Node) (st : St)
    (h1 : isKnownTag env name = false) (h2 : name ≠ "Fragment") (h3 : env.isPat name = true) :
    transformTag env (.mk .ident (name :: bind :: rest) ks) st = (nStr name, st) := by
  simp [transformTag, h1, h2, h3, FRAGMENT]

/-- An unbound component name is resolved at runtime by that name. -/
theorem C01_tag_unresolved (env : Env) (name : String) (rest : List String) (ks : List Node) (st : St)
    (h1 : isKnownTag env name = false) (h2 : name ≠ "Fragment") (h3 : env.isPat name = false) :
    transformTag env (.mk .ident (name :: "u" :: rest) ks) st =
      (nCall (st.importFromVue "resolveComponent").1 [nArg (nStr name)], (st.importFromVue "resolveComponent").2) := by
  simp [transformTag, h1, h2, h3, FRAGMENT]

/-- A bound identifier is the vnode type itself. -/
theorem C01_tag_bound (env : Env) (name bind : String) (rest : List String) (ks : List Node) (st : St)
    (h1 : isKnownTag env name = false) (h2 : name ≠ "Fragment") (h3 : env.isPat name = false) (h4 : bind ≠ "u") :
    transformTag env (.mk .ident (name :: bind :: rest) ks) st = (nIdent name bind, st) := by
  simp [transformTag, h1, h2, h3, h4, FRAGMENT]

/-- A member tag (`<a.b.C>`) is passed as the member expression `a.b.C` (a plain expression, no JSX node); the state changes
    at most by the diagnostic about an object that is not an identifier (`<a-b.C>`). -/
theorem C01_tag_member (env : Env) (as : List String) (ks : List Node) (st : St) :
    transformTag env (.mk .jsxMember as ks) st
      = (jsxMemberToExpr (.mk .jsxMember as ks), memberRootCheck (.mk .jsxMember as ks) st) := by
  simp [transformTag]

/-- `<a.b.C>` whose first identifier CAN be bound (or is `this`) is lowered without a diagnostic ... -/
theorem C01_tag_member_quiet (as oas : List String) (n : String) (oks : List Node) (prop : Node) (st : St)
    (h : n = "this" ∨ isValidSymbol n = true) :
    memberRootCheck (.mk .jsxMember as [.mk .ident (n :: oas) oks, prop]) st = st := by
  rcases h with h | h <;> simp [memberRootCheck, memberRoot, h]

/-- ... and `<a-b.C>` (nothing can be bound to `a-b`; `a-b.C` would print as a subtraction) is REPORTED. -/
theorem C01_tag_member_object_reported (as oas : List String) (n : String) (oks : List Node) (prop : Node) (st : St)
    (h1 : n ≠ "this") (h2 : isValidSymbol n = false) :
    memberRootCheck (.mk .jsxMember as [.mk .ident (n :: oas) oks, prop]) st
      = st.err "Error: The object of a member tag must be an identifier." := by
  simp [memberRootCheck, memberRoot, h1, h2]

theorem C01_tag_member_shape (as oas pas : List String) (n b pn : String) (oks pks : List Node) (hn : n ≠ "this")
    (hp : isValidPropIdent pn = true) :
    jsxMemberToExpr (.mk .jsxMember as [.mk .ident (n :: b :: oas) oks, .mk .ident (pn :: pas) pks])
      = .mk .member [] [.mk .ident (n :: b :: oas) [], .mk .ident (pn :: pas) pks] := by
  simp [jsxMemberToExpr, hn, hp]

/-- a property that is not an identifier name (`<a.b-c>`) is accessed as `a["b-c"]` — the same member, printable -/
theorem C01_tag_member_hyphen (as oas pas : List String) (n b pn : String) (oks pks : List Node) (hn : n ≠ "this")
    (hp : isValidPropIdent pn = false) :
    jsxMemberToExpr (.mk .jsxMember as [.mk .ident (n :: b :: oas) oks, .mk .ident (pn :: pas) pks])
      = .mk .member [] [.mk .ident (n :: b :: oas) [], nComputed (nStr pn)] := by
  simp [jsxMemberToExpr, hn, hp]

/-! ### attribute values -/

/-- A value-less attribute is `true`. -/
theorem C01_valueless_true (st : St) : attrValueExpr nNone none st = (nBool true, st) := by
  simp [attrValueExpr, nNone]

/-- A string value is whitespace-normalised by the JSX text rule (the same `cleanText` as C02). -/
theorem C01_string_value_cleaned (s : String) (as : List String) (ks : List Node) (st : St) :
    attrValueExpr (.mk .str (s :: as) ks) none st = (nStr (String.ofList (cleanText s.toList)), st) := by
  simp [attrValueExpr]

/-- An expression value is passed unchanged. -/
theorem C01_expr_value (e : Node) (as : List String) (st : St) :
    attrValueExpr (.mk .jsxExprContainer as [e]) none st = (e, st) := by
  simp [attrValueExpr]

/-! ### spreads and mergeProps -/

/-- With mergeProps off, a spread of a non-literal expression stays a spread inside the ONE props object
    (plain last-wins object semantics). -/
theorem C01_spread_plain (o : Opts) (isComp : Bool) (e : Node) (as : List String) (acc : AttrAcc) (st : St)
    (hm : o.mergeProps = false) (he : ∀ a k, e ≠ .mk .object a k) :
    (attrStep o isComp (.mk .spreadElement as [e]) none acc st).1.props = acc.props ++ [nSpreadElement e]
    ∧ (attrStep o isComp (.mk .spreadElement as [e]) none acc st).1.mergeArgs = acc.mergeArgs := by
  unfold attrStep
  simp [hm]
  split
  · exact absurd rfl (he _ _)
  · simp

/-- With mergeProps on, a spread closes the pending run (deduplicated) and becomes its own mergeProps layer. -/
theorem C01_spread_merge (o : Opts) (isComp : Bool) (e : Node) (as : List String) (acc : AttrAcc) (st : St)
    (hm : o.mergeProps = true) (he : ∀ a k, e ≠ .mk .object a k) (hp : acc.props ≠ []) :
    (attrStep o isComp (.mk .spreadElement as [e]) none acc st).1.props = []
    ∧ (attrStep o isComp (.mk .spreadElement as [e]) none acc st).1.mergeArgs
        = acc.mergeArgs ++ [nObject (dedupeProps acc.props), e] := by
  unfold attrStep
  have hp' : acc.props.isEmpty = false := by cases h : acc.props <;> simp_all
  simp [hm, hp']
  split
  · exact absurd rfl (he _ _)
  · simp

/-- No attributes at all: props are `null`. -/
theorem C01_no_attrs (o : Opts) (env : Env) (isComp : Bool) (st : St) :
    (transformAttrs o env [] isComp st).1.attrs = nNull := by
  simp [transformAttrs]

/-- Two or more mergeProps layers are combined by ONE call of Vue's `mergeProps`, in source order. -/
theorem C01_assemble_merge (o : Opts) (a b : Node) (rest : List Node) (st : St) :
    assembleProps o [] (a :: b :: rest) st =
      (nCall (st.importFromVue "mergeProps").1 ((a :: b :: rest).map nArg), (st.importFromVue "mergeProps").2) := by
  simp [assembleProps]

/-! ### the props normal form (what "the props its source denotes" means) -/

-- test: Vue merge of a repeated `class`: both parts are kept, in order
#guard normOps [.merge "class" (nStr "a"), .merge "id" (nStr "i"), .merge "class" (nIdent "b" "u")]
    == S "props" [] [S "seg" ["init"] [S "p" ["class"] [S "cat" [] [nStr "a", nIdent "b" "u"]], S "p" ["id"] [nStr "i"]]]

-- test: plain (last-wins) semantics of a repeated `class`
#guard normOps [.set "class" (nStr "a"), .set "class" (nIdent "b" "u")]
    == S "props" [] [S "seg" ["init"] [S "p" ["class"] [S "cat" [] [nIdent "b" "u"]]]]

end VueJsx
