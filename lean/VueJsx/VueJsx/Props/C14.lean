/-
  C14 — Options have their documented defaults and only their documented effect.
-/
import VueJsx.Props.C09
import VueJsx.Options
import VueJsx.Element

namespace VueJsx

/-! ### defaults -/

/-- `{}` equals no configuration equals the documented defaults. -/
theorem C14_defaults (valid : String → Bool) :
    parseOptions valid (.obj []) = some OptionsV.default
    ∧ pluginOptions valid none = some OptionsV.default
    ∧ OptionsV.default = { transformOn := false, optimize := false, customElementPatterns := [], mergeProps := true,
                           enableObjectSlots := true, pragma := none, resolveType := false } := by
  refine ⟨rfl, rfl, rfl⟩

/-- Setting a field never changes another field (each option is read from its own key only). -/
theorem C14_setField_frame (valid : String → Bool) (o o' : OptionsV) (k : String) (v : Json) (h : setField valid o k v = some o') :
    (k ≠ "transformOn" → o'.transformOn = o.transformOn) ∧ (k ≠ "optimize" → o'.optimize = o.optimize)
    ∧ (k ≠ "customElementPatterns" → o'.customElementPatterns = o.customElementPatterns)
    ∧ (k ≠ "mergeProps" → o'.mergeProps = o.mergeProps) ∧ (k ≠ "enableObjectSlots" → o'.enableObjectSlots = o.enableObjectSlots)
    ∧ (k ≠ "pragma" → o'.pragma = o.pragma) ∧ (k ≠ "resolveType" → o'.resolveType = o.resolveType) := by
  unfold setField at h
  simp only [beq_iff_eq] at h
  split at h
  · rename_i hk; subst hk; simp only [Option.map_eq_some_iff] at h; obtain ⟨b, _, rfl⟩ := h; simp
  · split at h
    · rename_i hk; subst hk; simp only [Option.map_eq_some_iff] at h; obtain ⟨b, _, rfl⟩ := h; simp
    · split at h
      · rename_i hk; subst hk; simp only [Option.map_eq_some_iff] at h; obtain ⟨b, _, rfl⟩ := h; simp
      · split at h
        · rename_i hk; subst hk; simp only [Option.map_eq_some_iff] at h; obtain ⟨b, _, rfl⟩ := h; simp
        · split at h
          · rename_i hk; subst hk; simp only [Option.map_eq_some_iff] at h; obtain ⟨b, _, rfl⟩ := h; simp
          · split at h
            · rename_i hk; subst hk; simp only [Option.map_eq_some_iff] at h; obtain ⟨b, _, rfl⟩ := h; simp
            · split at h
              · rename_i hk; subst hk; simp only [Option.map_eq_some_iff] at h; obtain ⟨b, _, rfl⟩ := h; simp
              · simp at h; subst h; simp

/-- An unknown key is ignored, whatever its value. -/
theorem C14_unknown_key_ignored (valid : String → Bool) (o : OptionsV) (k : String) (v : Json)
    (h : knownKeys.contains k = false) : setField valid o k v = some o := by
  simp [knownKeys] at h
  obtain ⟨h1, h2, h3, h4, h5, h6, h7⟩ := h
  simp [setField, h1, h2, h3, h4, h5, h6, h7]

/-- An absent option keeps its default: a configuration object that never mentions key `k` leaves the field of `k`
    as it was. -/
theorem C14_absent_keeps (valid : String → Bool) (kvs : List (String × Json)) (o o' : OptionsV) (seen : List String)
    (h : parseEntries valid kvs o seen = some o') :
    ((∀ kv ∈ kvs, kv.1 ≠ "transformOn") → o'.transformOn = o.transformOn)
    ∧ ((∀ kv ∈ kvs, kv.1 ≠ "optimize") → o'.optimize = o.optimize)
    ∧ ((∀ kv ∈ kvs, kv.1 ≠ "customElementPatterns") → o'.customElementPatterns = o.customElementPatterns)
    ∧ ((∀ kv ∈ kvs, kv.1 ≠ "mergeProps") → o'.mergeProps = o.mergeProps)
    ∧ ((∀ kv ∈ kvs, kv.1 ≠ "enableObjectSlots") → o'.enableObjectSlots = o.enableObjectSlots)
    ∧ ((∀ kv ∈ kvs, kv.1 ≠ "pragma") → o'.pragma = o.pragma)
    ∧ ((∀ kv ∈ kvs, kv.1 ≠ "resolveType") → o'.resolveType = o.resolveType) := by
  induction kvs generalizing o seen with
  | nil => simp [parseEntries] at h; subst h; simp
  | cons kv rest ih =>
    obtain ⟨k, v⟩ := kv
    simp only [parseEntries] at h
    split at h
    · simp at h
    · split at h
      · rename_i o1 hs
        have f := C14_setField_frame valid o o1 k v hs
        have r := ih o1 (k :: seen) h
        obtain ⟨f1, f2, f3, f4, f5, f6, f7⟩ := f
        obtain ⟨r1, r2, r3, r4, r5, r6, r7⟩ := r
        refine ⟨?_, ?_, ?_, ?_, ?_, ?_, ?_⟩ <;> intro hall
        · rw [r1 (fun kv hkv => hall kv (by simp [hkv])), f1 (hall (k, v) (by simp))]
        · rw [r2 (fun kv hkv => hall kv (by simp [hkv])), f2 (hall (k, v) (by simp))]
        · rw [r3 (fun kv hkv => hall kv (by simp [hkv])), f3 (hall (k, v) (by simp))]
        · rw [r4 (fun kv hkv => hall kv (by simp [hkv])), f4 (hall (k, v) (by simp))]
        · rw [r5 (fun kv hkv => hall kv (by simp [hkv])), f5 (hall (k, v) (by simp))]
        · rw [r6 (fun kv hkv => hall kv (by simp [hkv])), f6 (hall (k, v) (by simp))]
        · rw [r7 (fun kv hkv => hall kv (by simp [hkv])), f7 (hall (k, v) (by simp))]
      · simp at h

/-- An invalid pattern is rejected when the configuration is read. -/
theorem C14_invalid_pattern_rejected (valid : String → Bool) (before after : List Json) (p : String) (o : OptionsV)
    (hp : valid p = false) :
    setField valid o "customElementPatterns" (.arr (before ++ .str p :: after)) = none := by
  have : asPatterns valid (.arr (before ++ .str p :: after)) = none := by
    unfold asPatterns
    induction before with
    | nil =>
      simp only [List.nil_append, List.foldr_cons]
      cases h : (List.foldr (fun x acc => match x, acc with
        | .str s, some rest => if valid s = true then some (s :: rest) else none
        | _, _ => none) (some []) after) <;> simp [hp]
    | cons b bs ih =>
      simp only [List.cons_append, List.foldr_cons, ih]
  simp [setField, this]

/-! ### non-interference, at the level of one element's attribute list and children -/

/-- `transformOn` only matters for an `on`/`nativeOn` attribute: every other attribute is handled identically. -/
theorem C14_transformOn_only_on (o : Opts) (b : Bool) (isComp : Bool) (nameN valueN : Node) (as : List String)
    (lw : Option Node) (acc : AttrAcc) (st : St) (s : String)
    (hname : attrNameOf nameN = .plain s) (h1 : s ≠ "on") (h2 : s ≠ "nativeOn") :
    attrStep { o with transformOn := b } isComp (.mk .jsxAttr as [nameN, valueN]) lw acc st
      = attrStep o isComp (.mk .jsxAttr as [nameN, valueN]) lw acc st := by
  have hb : ∀ t : Bool, (t && (s == "on" || s == "nativeOn")) = false := by
    intro t; simp [h1, h2]
  unfold attrStep
  simp only [hname]
  split
  · rfl
  · simp only [hb]

/-- `transformOn` never matters for a spread. -/
theorem C14_transformOn_spread (o : Opts) (b : Bool) (isComp : Bool) (e : Node) (as : List String) (acc : AttrAcc) (st : St) :
    attrStep { o with transformOn := b } isComp (.mk .spreadElement as [e]) none acc st
      = attrStep o isComp (.mk .spreadElement as [e]) none acc st := rfl

/-- `enableObjectSlots` only matters when the sole child is an identifier or a call. -/
theorem C14_objectSlots_only_sole_ident_or_call (o : Opts) (b : Bool) (elems : List Node) (isComp : Bool)
    (slots : Option Node) (flag : Nat) (st : St)
    (h : ∀ aas e, elems = [.mk .arg aas [e]] → (∀ a k, e ≠ .mk .ident a k) ∧ (∀ a k, e ≠ .mk .call a k)) :
    finishChildren { o with enableObjectSlots := b } elems isComp slots flag st = finishChildren o elems isComp slots flag st := by
  unfold finishChildren
  split
  · rfl
  · rename_i aas e
    obtain ⟨hi, hc⟩ := h _ _ rfl
    split
    · rename_i a k; exact absurd rfl (hi a k)
    · rename_i a k; exact absurd rfl (hc _ k)
    all_goals rfl
  · rfl

/-- `customElementPatterns` only matter for tags a pattern matches. -/
theorem C14_patterns_only_matched_tags (env : Env) (extra : List String) (name bind : String) (rest : List String)
    (ks : List Node) (st : St) (h : extra.contains name = false) :
    transformTag { env with patMatch := env.patMatch ++ extra } (.mk .ident (name :: bind :: rest) ks) st
      = transformTag env (.mk .ident (name :: bind :: rest) ks) st := by
  have : ({ env with patMatch := env.patMatch ++ extra } : Env).isPat name = env.isPat name := by
    simp only [Env.isPat, List.contains_eq_mem, List.mem_append] at *
    simp_all
  simp only [transformTag, this]
  rfl


/-- ... and the tag of a namespaced element is its QUALIFIED name: whether `<ns:name>` takes slots is untouched by patterns that
    do not match `ns:name` (a pattern matching only the local part has no effect), and the tag itself never depends on them. -/
theorem C14_patterns_only_matched_namespaced_tags (env : Env) (extra : List String) (as : List String) (nsN nmN : Node) (st : St)
    (h : extra.contains (identName nsN ++ ":" ++ identName nmN) = false) :
    isComponent { env with patMatch := env.patMatch ++ extra } (.mk .jsxNsName as [nsN, nmN])
        = isComponent env (.mk .jsxNsName as [nsN, nmN])
    ∧ transformTag { env with patMatch := env.patMatch ++ extra } (.mk .jsxNsName as [nsN, nmN]) st
        = transformTag env (.mk .jsxNsName as [nsN, nmN]) st := by
  have : ({ env with patMatch := env.patMatch ++ extra } : Env).isPat (identName nsN ++ ":" ++ identName nmN)
      = env.isPat (identName nsN ++ ":" ++ identName nmN) := by
    simp only [Env.isPat, List.contains_eq_mem, List.mem_append] at *
    simp_all
  constructor
  · simp only [isComponent, this]
    rfl
  · simp [transformTag]

/-- **No option interferes with code that does not use it — module level, for code without JSX**: a module without JSX
    that does not import Vue's `defineComponent` is transformed identically (left unchanged) under ANY two option
    sets (corollary of the identity theorem of C09, proved by induction over the whole traversal). -/
theorem C14_no_option_matters_without_jsx (o1 o2 : Opts) (env : Env) (as las : List String)
    (items rest : List Node) (hj : JsxFreeL items = true) (hjr : JsxFreeL rest = true)
    (hi : NoDcImportL items = true) (hir : NoDcImportL rest = true) :
    (transformModule o1 env (.mk .module as (.mk .list las items :: rest))).1
      = (transformModule o2 env (.mk .module as (.mk .list las items :: rest))).1 := by
  rw [C09_module_identity_all_options o1 env as las items rest hj hjr hi hir,
      C09_module_identity_all_options o2 env as las items rest hj hjr hi hir]

/-- `resolveType` only matters for calls of Vue's own `defineComponent`: with no binding recorded, the two hooks it
    switches on leave every call and every declarator alone, whatever the option says. -/
theorem C14_resolveType_only_defineComponent (o1 o2 : Opts) (env : Env) (k : K) (as : List String) (ks : List Node) (st : St)
    (hk : isJsxKind k = false) (hi : importsDc (.mk k as ks) = false) (hd : st.defineComponent = none) :
    kindHook o1 env (.mk k as ks) st = kindHook o2 env (.mk k as ks) st := by
  rw [kindHook_identity_rt o1 env k as ks st hk hi hd, kindHook_identity_rt o2 env k as ks st hk hi hd]

end VueJsx
