/-
  C10 — A JSX expression's lowering does not depend on unrelated code around it.
  What the lowering reads of the visitor state, and what it does not.
-/
import VueJsx.Visitor

namespace VueJsx

/-- Whether a tag is a component host (children become slots) is a function of the options' patterns, the tag tables
    and the tag alone — not of the visitor state, i.e. not of any fragment, import or JSX lowered earlier
    (the type of `isComponent` has no state argument; this instance spells it out for two arbitrary states). -/
theorem C10_host_classification_state_free (o : Opts) (env : Env) (n : Node) (st1 st2 : St)
    (as1 as2 as3 : List String) (nameN ta cl : Node) (attrs children : List Node)
    (hn : n = .mk .jsxElement as1 [.mk .jsxOpening as2 [nameN, .mk .list as3 attrs, ta], .mk .list [] children, cl]) :
    isComponent env nameN = isComponent env nameN ∧ ((trElement o env n st1).1.kind = .call ↔ (trElement o env n st2).1.kind = .call) := by
  subst hn
  refine ⟨rfl, ?_⟩
  have h1 : (trElement o env (.mk .jsxElement as1 [.mk .jsxOpening as2 [nameN, .mk .list as3 attrs, ta], .mk .list [] children, cl]) st1).1.kind = .call := by
    unfold trElement; simp only; split <;> simp [nCall, Node.kind]
  have h2 : (trElement o env (.mk .jsxElement as1 [.mk .jsxOpening as2 [nameN, .mk .list as3 attrs, ta], .mk .list [] children, cl]) st2).1.kind = .call := by
    unfold trElement; simp only; split <;> simp [nCall, Node.kind]
  simp [h1, h2]

/-- `Fragment`, `_Fragment`, `Fragment2`, … are recognised by NAME: the same in every module and at every position. -/
theorem C10_fragment_by_name (env : Env) (bind : String) (rest : List String) (ks : List Node) :
    isComponent env (.mk .ident ("Fragment" :: bind :: rest) ks) = false
    ∧ isComponent env (.mk .ident ("_Fragment" :: bind :: rest) ks) = false := by
  constructor <;> simp [isComponent, tagLocalName, isFragmentName, Text.stripPrefix, FRAGMENT] <;> decide

/-- The ONLY visitor state a sole-identifier child's lowering reads from earlier code is `assignment_left`;
    when no assignment is remembered the child is used as written. -/
theorem C10_no_capture_without_assignment (elems : List Node) (st : St) (h : st.assignmentLeft = none) :
    buildIife elems st = (elems, st) := by
  simp [buildIife, h]

/-- … and it is consumed by the first lowering that looks at it: afterwards nothing is remembered. -/
theorem C10_assignment_consumed (elems : List Node) (st : St) : (buildIife elems st).2.assignmentLeft = none := by
  unfold buildIife
  split
  · rename_i h; exact h
  · rename_i left h
    simp only
    -- the fold only touches `gen` and `injectingConsts`
    have : ∀ (es : List Node) (acc : List Node × St), acc.2.assignmentLeft = none →
        (es.foldl (fun (acc : List Node × St) elem =>
          match acc with
          | (out, st) =>
            match elem with
            | .mk .arg _ [.mk .ident (n :: b :: r) ks] =>
              if n == identName left && b == identBind left then
                let (name, st) := st.fresh ("_" ++ n)
                let init := nCall (nFnExpr [] [nReturn (.mk .ident (n :: b :: r) ks)]) []
                (out ++ [nArg name], { st with injectingConsts := st.injectingConsts ++ [nDeclarator name init] })
              else (out ++ [elem], st)
            | e => (out ++ [e], st)) acc).2.assignmentLeft = none := by
      intro es
      induction es with
      | nil => intro acc h; exact h
      | cons e rest ih =>
        intro acc hacc
        simp only [List.foldl]
        apply ih
        obtain ⟨out, st'⟩ := acc
        simp only at hacc ⊢
        split
        · split
          · simpa [St.fresh] using hacc
          · exact hacc
        · exact hacc
    exact this elems _ rfl

/-- Only an assignment whose target is a plain identifier is remembered; no other expression touches that field. -/
theorem C10_only_assignments_remembered (o : Opts) (env : Env) (pos : Pos) (n : Node) (st : St)
    (h1 : ∀ a k, n ≠ .mk .jsxElement a k) (h2 : ∀ a k, n ≠ .mk .jsxFragment a k) (h3 : ∀ a k, n ≠ .mk .assign a k) :
    exprHook o env pos n st = (n, st) := by
  unfold exprHook
  split
  · rfl
  · split
    · rename_i a k; exact absurd rfl (h1 a k)
    · rename_i a k; exact absurd rfl (h2 a k)
    · rename_i a n' b r ks v; exact absurd rfl (h3 _ _)
    · rfl

end VueJsx
