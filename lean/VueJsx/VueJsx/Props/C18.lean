/-
  C18 — Parameter defaults become runtime prop defaults without changing them.
  A small semantics of "what Vue resolves for `default`" (`vueResolve`) is composed with the model's two steps
  (`staticDefault`: classification and wrapping; `finalDefault`: the adjustment `buildPropsType` applies), and shown to
  give the WRITTEN value for every statically analysable entry kind, for Function-typed and other props alike.
-/
import VueJsx.ResolveType

namespace VueJsx

/-- what a prop's default evaluates to at runtime -/
inductive Resolved where
  | valueOf (e : Node)        -- the value of expression `e` (evaluated in the scope of the call)
  | resultOf (body : Node)    -- what running the block `body` returns
  | callOf (f : Node)         -- what calling the function expression `f` with no arguments returns
  deriving BEq

/-- Vue (`resolvePropValue`: `opt.type !== Function && isFunction(default)`): a default that is a function is called as a
    factory unless the prop's `type` IS `Function`; anything else is the value itself.  `isFunctionProp` is Vue's test on
    the emitted `type` — `C18_function_flag_is_vues` shows the model's flag is that test. -/
def vueResolve (isFunctionProp : Bool) (d : Node) : Resolved :=
  match d with
  | .mk .arrow _ [_, body, _, _] =>
    if isFunctionProp then .valueOf d else (match body with | .mk .block _ _ => .resultOf body | v => .valueOf v)
  | .mk .fnExpr _ _ => if isFunctionProp then .valueOf d else .callOf d
  | .mk .call _ [.mk .arrow _ [_, .mk .block as ks, _, _], .mk .list _ [], _] => .resultOf (.mk .block as ks)
  | d => .valueOf d

/-- a literal that is not itself function-like syntax -/
theorem isLit_not_function (v : Node) (h : isLit v = true) :
    (∀ as ks, v ≠ .mk .arrow as ks) ∧ (∀ as ks, v ≠ .mk .fnExpr as ks) ∧ (∀ as ks, v ≠ .mk .call as ks) := by
  obtain ⟨k, as, ks⟩ := v
  refine ⟨?_, ?_, ?_⟩ <;> intro as' ks' heq <;> injection heq with hk <;> subst hk <;> simp [isLit] at h

/-- **Literals as-is**: `key: <literal>` is emitted as the literal, with no factory flag, and Vue resolves the literal. -/
theorem C18_literal_as_is (as : List String) (key value k : Node) (fp : Bool)
    (hk : tryUnwrapLitPropName key = some k) (hl : isLit value = true) :
    staticDefault (.mk .kv as [key, value]) = some (k, value, false)
    ∧ finalDefault fp value false = value
    ∧ vueResolve fp (finalDefault fp value false) = .valueOf value := by
  obtain ⟨h1, h2, h3⟩ := isLit_not_function value hl
  refine ⟨by simp [staticDefault, hk, hl], ?_, ?_⟩
  · unfold finalDefault; split
    · exact absurd rfl (h1 _ _)
    · rfl
  · have : finalDefault fp value false = value := by
      unfold finalDefault; split
      · exact absurd rfl (h1 _ _)
      · rfl
    rw [this]
    unfold vueResolve
    split
    · exact absurd rfl (h1 _ _)
    · exact absurd rfl (h2 _ _)
    · exact absurd rfl (h3 _ _)
    · rfl

/-- an expression that is not a block (blocks are statements, they cannot be written as a value) -/
def notBlock (v : Node) : Prop := ∀ as ks, v ≠ .mk .block as ks

/-- **Other expressions**: `key: e` becomes the factory `() => e`.  For a prop whose type does not include Function,
    Vue calls the factory and obtains the value of `e`. -/
theorem C18_expression_through_factory (as : List String) (key value k : Node)
    (hk : tryUnwrapLitPropName key = some k) (hl : isLit value = false) (hb : notBlock value) :
    staticDefault (.mk .kv as [key, value]) = some (k, nArrow [] value, true)
    ∧ vueResolve false (finalDefault false (nArrow [] value) true) = .valueOf value := by
  refine ⟨by simp [staticDefault, hk, hl], ?_⟩
  simp only [finalDefault, nArrow, Bool.and_false, Bool.false_eq_true, if_false, vueResolve]
  split
  · exact absurd rfl (hb _ _)
  · rfl

/-- value forms Vue would itself call or that `vueResolve` gives a special reading: excluded as WRITTEN values only
    where noted -/
def plainValue (v : Node) : Prop :=
  (∀ as ks, v ≠ .mk .arrow as ks) ∧ (∀ as ks, v ≠ .mk .fnExpr as ks) ∧ (∀ as ks, v ≠ .mk .call as ks)

/-- **Function-typed props receive the written value itself, never a factory around it** — for an identifier, member
    expression or any other non-function-literal expression … -/
theorem C18_function_prop_gets_value (value : Node) (hb : notBlock value) (hp : plainValue value) :
    finalDefault true (nArrow [] value) true = value
    ∧ vueResolve true (finalDefault true (nArrow [] value) true) = .valueOf value := by
  have h1 : finalDefault true (nArrow [] value) true = value := by
    simp only [finalDefault, nArrow, Bool.and_true, if_true]
    split
    · exact absurd rfl (hb _ _)
    · rfl
  refine ⟨h1, ?_⟩
  rw [h1]
  unfold vueResolve
  split
  · exact absurd rfl (hp.1 _ _)
  · exact absurd rfl (hp.2.1 _ _)
  · exact absurd rfl (hp.2.2 _ _)
  · rfl

/-- … and for a written arrow function or function expression (Vue does not call it: the prop is Function-typed). -/
theorem C18_function_prop_gets_written_function (as : List String) (ks : List Node) :
    finalDefault true (nArrow [] (.mk .arrow as ks)) true = .mk .arrow as ks
    ∧ finalDefault true (nArrow [] (.mk .fnExpr as ks)) true = .mk .fnExpr as ks
    ∧ vueResolve true (.mk .fnExpr as ks) = .valueOf (.mk .fnExpr as ks)
    ∧ (∀ a b c d, ks = [a, b, c, d] → vueResolve true (.mk .arrow as ks) = .valueOf (.mk .arrow as ks)) := by
  refine ⟨by simp [finalDefault, nArrow], by simp [finalDefault, nArrow], by simp [vueResolve], ?_⟩
  intro a b c d h; subst h; simp [vueResolve]

/-- **Shorthand** `{ name }` is the expression `name`: the same two theorems apply to it. -/
theorem C18_shorthand (n b : String) (rest : List String) (ks : List Node) :
    staticDefault (.mk .ident (n :: b :: rest) ks) = some (nIdentName n, nArrow [] (nIdent n b), true)
    ∧ vueResolve false (finalDefault false (nArrow [] (nIdent n b)) true) = .valueOf (nIdent n b)
    ∧ vueResolve true (finalDefault true (nArrow [] (nIdent n b)) true) = .valueOf (nIdent n b) := by
  refine ⟨by simp [staticDefault], by simp [finalDefault, nArrow, nIdent, vueResolve], by simp [finalDefault, nArrow, nIdent, vueResolve]⟩

/-- **Getters**: `get key() { body }` — Vue obtains what the body returns, whether or not the prop is
    Function-typed (for a Function-typed prop the factory is called in place, because Vue would not call it). -/
theorem C18_getter (as bas : List String) (key mid k : Node) (bks : List Node) (fp : Bool)
    (hk : tryUnwrapLitPropName key = some k) :
    staticDefault (.mk .getterProp as [key, mid, .mk .block bas bks]) = some (k, nArrow [] (.mk .block bas bks), true)
    ∧ vueResolve fp (finalDefault fp (nArrow [] (.mk .block bas bks)) true) = .resultOf (.mk .block bas bks) := by
  refine ⟨by simp [staticDefault, hk], ?_⟩
  cases fp <;> simp [finalDefault, nArrow, nCall, nList, vueResolve]

/-- **Methods** are emitted as the function itself (a function expression with the method's parameters and body,
    `async` and generator flags kept in the atoms), never wrapped. -/
theorem C18_method_is_the_function (as : List String) (key k : Node) (fnKids : List Node) (fp : Bool)
    (hk : tryUnwrapLitPropName key = some k) :
    staticDefault (.mk .methodProp as (key :: fnKids)) = some (k, .mk .fnExpr as (nNone :: fnKids), false)
    ∧ finalDefault fp (.mk .fnExpr as (nNone :: fnKids)) false = .mk .fnExpr as (nNone :: fnKids) := by
  refine ⟨by simp [staticDefault, hk], by simp [finalDefault]⟩

/-- **Quoted and unquoted spellings of the same key match.** -/
theorem C18_key_spellings_match (a : String) (ar br : List String) (ks1 ks2 : List Node) :
    defaultMatches (.mk .ident (a :: ar) ks1) (.mk .str (a :: br) ks2) = true
    ∧ defaultMatches (.mk .str (a :: ar) ks1) (.mk .ident (a :: br) ks2) = true := by
  refine ⟨by simp [defaultMatches], by simp [defaultMatches]⟩

/-- **Not statically analysable**: a spread, a computed key whose expression is not a string/number/bigint literal
    (so also `[ident]`) make the whole default dynamic … -/
theorem C18_dynamic_forms (as eas : List String) (e value : Node) (eks ks : List Node) (rest : List Node)
    (he : e.kind ≠ .str ∧ e.kind ≠ .num ∧ e.kind ≠ .bigint) :
    staticDefault (.mk .spreadElement as ks) = none
    ∧ staticDefault (.mk .kv as [.mk .computed eas [e], value]) = none
    ∧ allStatic (.mk .spreadElement as ks :: rest) = none := by
  have h2 : tryUnwrapLitPropName (.mk .computed eas [e]) = none := by
    obtain ⟨k, a, c⟩ := e
    simp only [Node.kind] at he
    unfold tryUnwrapLitPropName
    simp only
    split <;> simp_all
  let _ := eks
  refine ⟨by simp [staticDefault], by simp [staticDefault, h2], by simp [allStatic, staticDefault]⟩

/-- one non-static entry anywhere makes `allStatic` fail (so the whole object goes to mergeDefaults) -/
theorem C18_one_dynamic_entry_suffices (pre post : List Node) (p : Node) (h : staticDefault p = none) :
    allStatic (pre ++ p :: post) = none := by
  induction pre with
  | nil => simp [allStatic, h]
  | cons x xs ih =>
    simp only [List.cons_append, allStatic, ih]
    split <;> simp_all

/-- … and then the declared props (built WITHOUT defaults) are combined with the default expression, unchanged, by
    `mergeDefaults`. -/
theorem C18_dynamic_goes_through_mergeDefaults (env : Env) (as pas : List String) (params rest : List Node)
    (left d : Node) (ty : Node) (st : St)
    (hty : patTypeAnn 64 (.mk .assignPat pas [left, d]) = some ty)
    (hd' : ∀ oas las props, d = .mk .object oas [.mk .list las props] → allStatic props = none) :
    ∃ md obj st', (extractPropsType env (.mk .arg as [.mk .arrow [] (.mk .list [] (.mk .assignPat pas [left, d] :: params) :: rest)]) st)
      = (some (.mk .call [if env.hasComments then "usr" else "syn"] [md, nList [nArg obj, nArg d], nNone]), st')
      ∧ obj = (buildPropsType (st.importFromVue "mergeDefaults").2 ty none).1 := by
  simp only [extractPropsType, setupParams, Option.bind, List.head?, hty]
  split
  · rename_i ds heq1 heq2
    exfalso
    simp only [Option.map] at heq2
    split at heq2
    · have := hd' _ _ _ rfl
      simp_all
    · simp at heq2
  · rename_i d' _ heq _
    simp only [Option.some.injEq] at heq
    subst heq
    exact ⟨_, _, _, rfl, rfl⟩
  · rename_i heq; simp at heq

/-- **Props without a default get none**: with no matching entry the `default` key is not added (restated on the
    lookup `buildPropsType` performs). -/
theorem C18_no_default_no_entry (ds : List (Node × Node × Bool)) (key : Node)
    (h : ∀ d ∈ ds, defaultMatches d.1 key = false) : ds.find? (fun d => defaultMatches d.1 key) = none := by
  simp only [List.find?_eq_none]
  intro d hd; simp [h d hd]

/-- Vue's test `opt.type === Function` on an emitted `type:` expression -/
def vueTypeIsFunction (e : Node) : Bool :=
  match e with
  | .mk .ident ("Function" :: _) _ => true
  | _ => false

/-- The flag by which the model (and the code) decides whether to hand a default over unwrapped is exactly Vue's own test
    on the `type` that is emitted next to it: a union such as `[String, Function]` is NOT a Function prop (fix 57ff9cd). -/
theorem C18_function_flag_is_vues (types : List RT) : vueTypeIsFunction (typeExprOf types) = isExactlyFunction types := by
  unfold typeExprOf isExactlyFunction
  match types with
  | [] => simp [vueTypeIsFunction, nArray]
  | [t] =>
    cases t with
    | none => simp [rtExpr, nNull, vueTypeIsFunction]
    | some n => 
      simp only [rtExpr, nQuoteIdent, nIdent, vueTypeIsFunction]
      by_cases h : n = "Function"
      · subst h; simp
      · have : (n == "Function") = false := by simpa using h
        split
        · rename_i heq; injection heq with _ h2 _; injection h2 with h3 _; exact absurd h3.symm (by intro hh; exact h hh.symm)
        · simp_all
  | a :: b :: rest => simp [vueTypeIsFunction, nArray]

theorem C18_union_with_function_is_not_function_prop :
    isExactlyFunction [some "String", some "Function"] = false ∧ isExactlyFunction [some "Function", none] = false
    ∧ isExactlyFunction [some "Function"] = true := by decide

end VueJsx
