/-
  C17 — Inferred runtime prop types accept every value of the declared TS type.
  (1) the atom table, (2) union = union of parts with first-occurrence order, (3) SOUNDNESS: for a grammar of types
  built from the atoms by union, parentheses, optionality and NonNullable, nested to any depth, every value that
  inhabits the type is accepted by Vue's check of the emitted `type`.
-/
import VueJsx.ResolveType

namespace VueJsx

/-! ### (1) the atom table -/

theorem C17_keyword_table (fuel : Nat) (st : St) (as : List String) (ks : List Node) (hg : st.typeGaveUp = false) :
    inferRuntime (fuel + 1) st (.mk .tsKeyword ["string"] ks) = ([some "String"], st)
    ∧ inferRuntime (fuel + 1) st (.mk .tsKeyword ["number"] ks) = ([some "Number"], st)
    ∧ inferRuntime (fuel + 1) st (.mk .tsKeyword ["boolean"] ks) = ([some "Boolean"], st)
    ∧ inferRuntime (fuel + 1) st (.mk .tsKeyword ["object"] ks) = ([some "Object"], st)
    ∧ inferRuntime (fuel + 1) st (.mk .tsKeyword ["bigint"] ks) = ([some "BigInt"], st)
    ∧ inferRuntime (fuel + 1) st (.mk .tsKeyword ["symbol"] ks) = ([some "Symbol"], st)
    ∧ inferRuntime (fuel + 1) st (.mk .tsKeyword ["null"] ks) = ([none], st)
    ∧ inferRuntime (fuel + 1) st (.mk .tsKeyword ["any"] ks) = ([some ANY_TYPE], st)
    ∧ inferRuntime (fuel + 1) st (.mk .tsKeyword ["unknown"] ks) = ([some ANY_TYPE], st) := by
  let _ := as
  refine ⟨?_, ?_, ?_, ?_, ?_, ?_, ?_, ?_, ?_⟩ <;> simp [inferRuntime, enterRes_ok _ _ hg]

theorem C17_structural_table (fuel : Nat) (st : St) (as : List String) (ks : List Node) (hg : st.typeGaveUp = false) :
    inferRuntime (fuel + 1) st (.mk .tsFnType as ks) = ([some "Function"], st)
    ∧ inferRuntime (fuel + 1) st (.mk .tsCtorType as ks) = ([some "Function"], st)
    ∧ inferRuntime (fuel + 1) st (.mk .tsArray as ks) = ([some "Array"], st)
    ∧ inferRuntime (fuel + 1) st (.mk .tsTuple as ks) = ([some "Array"], st) := by
  refine ⟨?_, ?_, ?_, ?_⟩ <;> simp [inferRuntime, enterRes_ok _ _ hg]

theorem C17_literal_table (fuel : Nat) (st : St) (as las : List String) (lks : List Node) (hg : st.typeGaveUp = false) :
    inferRuntime (fuel + 1) st (.mk .tsLitType as [.mk .str las lks]) = ([some "String"], st)
    ∧ inferRuntime (fuel + 1) st (.mk .tsLitType as [.mk .bool las lks]) = ([some "Boolean"], st)
    ∧ inferRuntime (fuel + 1) st (.mk .tsLitType as [.mk .num las lks]) = ([some "Number"], st) := by
  refine ⟨?_, ?_, ?_⟩ <;> simp [inferRuntime, enterRes_ok _ _ hg]

/-- Built-in classes map to themselves (when the name is not shadowed by a local alias or interface). -/
theorem C17_builtin_class (fuel : Nat) (st : St) (n b : String) (ir as : List String) (iks : List Node) (tp : Node)
    (h1 : lookupReg st.typeAliases (n, b) = none) (h2 : lookupReg st.interfaces (n, b) = none)
    (hn : ["Array", "Function", "Object", "Set", "Map", "WeakSet", "WeakMap", "Date", "Promise", "Error", "RegExp"].contains n = true)
    (hg : st.typeGaveUp = false) :
    inferRuntime (fuel + 1) st (.mk .tsTypeRef as [.mk .ident (n :: b :: ir) iks, tp]) = ([some n], st) := by
  simp only [inferRuntime, h1, h2, hn, enterRes_ok _ _ hg]
  simp

/-! ### (2) unions keep first-occurrence order (Boolean before String stays Boolean before String) -/

theorem rtExtend_cons (xs : List RT) (y : RT) (ys : List RT) : rtExtend xs (y :: ys) = rtExtend (rtInsert y xs) ys := rfl

theorem rtExtend_prefix (xs ys : List RT) : ∃ zs, rtExtend xs ys = xs ++ zs := by
  induction ys generalizing xs with
  | nil => exact ⟨[], by simp [rtExtend]⟩
  | cons y rest ih =>
    rw [rtExtend_cons]
    by_cases hc : xs.contains y = true
    · have : rtInsert y xs = xs := by unfold rtInsert; rw [if_pos hc]
      rw [this]; exact ih xs
    · have : rtInsert y xs = xs ++ [y] := by unfold rtInsert; rw [if_neg hc]
      rw [this]
      obtain ⟨zs, hz⟩ := ih (xs ++ [y])
      exact ⟨y :: zs, by rw [hz]; simp⟩

/-- What an earlier union member contributed stays in front of what a later member adds. -/
theorem C17_union_order (xs ys : List RT) (a b : RT) (ha : a ∈ xs) (hb : b ∉ xs) (hb' : b ∈ rtExtend xs ys) :
    ∃ pre post, rtExtend xs ys = pre ++ post ∧ a ∈ pre ∧ b ∈ post ∧ b ∉ pre := by
  obtain ⟨zs, hz⟩ := rtExtend_prefix xs ys
  refine ⟨xs, zs, hz, ha, ?_, hb⟩
  rw [hz] at hb'
  simp at hb'
  rcases hb' with h | h
  · exact absurd h hb
  · exact h

/-! ### (3) soundness over a type grammar, for every nesting depth -/

/-- kinds of JavaScript values as far as Vue's prop validation distinguishes them -/
inductive ValKind where
  | string | number | boolean | bigint | symbol | function | array | plainObject | null
  | instanceOf (cls : String)
  deriving DecidableEq, Repr

/-- a grammar of declared types: atoms, unions, parentheses, optional, NonNullable — nested to any depth -/
inductive Ty where
  | kw (k : String)                    -- string number boolean object bigint symbol null any unknown
  | strLit | numLit | boolLit
  | fn | array | tuple
  | cls (n : String)                   -- a built-in class
  | obj (ms : List Bool)               -- an object literal type; per member: is it a call signature (true) or a property (false)
  | union (ts : List Ty)
  | paren (t : Ty)
  | optional (t : Ty)
  | nonNull (t : Ty)

def builtinClassNames : List String :=
  ["Array", "Function", "Object", "Set", "Map", "WeakSet", "WeakMap", "Date", "Promise", "Error", "RegExp"]

/-- a member of an object literal type: a call signature or a property signature -/
def memNode (call : Bool) : Node :=
  if call then .mk .tsCallSig [] [nList [], nNone, nNone] else .mk .tsPropSig ["false", "false", "false"] [nIdentName "a", nNone]

/-- the runtime types of an object literal type: Function for call signatures, Object for the rest, Object when empty -/
def objRt (ms : List Bool) : List RT :=
  orObject (ms.foldl (fun acc c => rtInsert (some (if c then "Function" else "Object")) acc) [])

mutual
def Ty.toNode : Ty → Node
  | .kw k => .mk .tsKeyword [k] []
  | .obj ms => .mk .tsTypeLit [] [nList (ms.map memNode)]
  | .strLit => .mk .tsLitType [] [.mk .str ["s"] []]
  | .numLit => .mk .tsLitType [] [.mk .num ["1"] []]
  | .boolLit => .mk .tsLitType [] [.mk .bool ["true"] []]
  | .fn => .mk .tsFnType [] [nList [], nNone, nNone]
  | .array => .mk .tsArray [] [.mk .tsKeyword ["string"] []]
  | .tuple => .mk .tsTuple [] [nList []]
  | .cls n => .mk .tsTypeRef [] [nIdent n "u", nNone]
  | .union ts => .mk .tsUnion [] [nList (Ty.toNodes ts)]
  | .paren t => .mk .tsParen [] [t.toNode]
  | .optional t => .mk .tsOptional [] [t.toNode]
  | .nonNull t => .mk .tsTypeRef [] [nIdent "NonNullable" "u", .mk .tsTypeParamInst [] [nList [t.toNode]]]
def Ty.toNodes : List Ty → List Node
  | [] => []
  | t :: ts => t.toNode :: Ty.toNodes ts
end

def kwRt (k : String) : List RT :=
  if k == "string" then [some "String"] else if k == "number" then [some "Number"]
  else if k == "boolean" then [some "Boolean"] else if k == "object" then [some "Object"]
  else if k == "null" then [none] else if k == "bigint" then [some "BigInt"]
  else if k == "symbol" then [some "Symbol"]
  else if k == "any" || k == "unknown" then [some ANY_TYPE] else [none]

mutual
/-- the runtime types of a type of the grammar, as a plain function (shown equal to what `inferRuntime` computes) -/
def Ty.rt : Ty → List RT
  | .kw k => kwRt k
  | .strLit => [some "String"]
  | .numLit => [some "Number"]
  | .boolLit => [some "Boolean"]
  | .fn => [some "Function"]
  | .array => [some "Array"]
  | .tuple => [some "Array"]
  | .cls n => [some n]
  | .obj ms => objRt ms
  | .union ts => Ty.rtUnion ts []
  | .paren t => t.rt
  | .optional t => t.rt
  | .nonNull t => t.rt.filter (·.isSome)
def Ty.rtUnion : List Ty → List RT → List RT
  | [], acc => acc
  | t :: ts, acc => Ty.rtUnion ts (rtExtend acc t.rt)
end

mutual
def Ty.wf : Ty → Bool
  | .cls n => builtinClassNames.contains n
  | .union ts => Ty.wfL ts
  | .paren t => t.wf
  | .optional t => t.wf
  | .nonNull t => t.wf
  | _ => true
def Ty.wfL : List Ty → Bool
  | [] => true
  | t :: ts => t.wf && Ty.wfL ts
end

mutual
def Ty.depth : Ty → Nat
  | .union ts => 1 + Ty.depthL ts
  | .paren t => 1 + t.depth
  | .optional t => 1 + t.depth
  | .nonNull t => 1 + t.depth
  | _ => 1
def Ty.depthL : List Ty → Nat
  | [] => 0
  | t :: ts => max t.depth (Ty.depthL ts)
end

/-- which value kinds inhabit a type of the grammar (TypeScript's meaning; for `object` the inhabitants Vue's
    `Object` check is specified for: plain objects, arrays and class instances) -/
inductive Inhabits : ValKind → Ty → Prop where
  | string : Inhabits .string (.kw "string")
  | number : Inhabits .number (.kw "number")
  | boolean : Inhabits .boolean (.kw "boolean")
  | bigint : Inhabits .bigint (.kw "bigint")
  | symbol : Inhabits .symbol (.kw "symbol")
  | null : Inhabits .null (.kw "null")
  | objPlain : Inhabits .plainObject (.kw "object")
  | objArray : Inhabits .array (.kw "object")
  | objInstance (c : String) : Inhabits (.instanceOf c) (.kw "object")
  | any (v : ValKind) : Inhabits v (.kw "any")
  | unknown (v : ValKind) : Inhabits v (.kw "unknown")
  | strLit : Inhabits .string .strLit
  | numLit : Inhabits .number .numLit
  | boolLit : Inhabits .boolean .boolLit
  | fn : Inhabits .function .fn
  | array : Inhabits .array .array
  | tuple : Inhabits .array .tuple
  | cls (n : String) : Inhabits (.instanceOf n) (.cls n)
  | litPlain (ms : List Bool) : ms.all (!·) = true → Inhabits .plainObject (.obj ms)    -- incl. `{}`
  | litCallable (ms : List Bool) : true ∈ ms → Inhabits .function (.obj ms)
  | union (v : ValKind) (t : Ty) (ts : List Ty) : t ∈ ts → Inhabits v t → Inhabits v (.union ts)
  | paren (v : ValKind) (t : Ty) : Inhabits v t → Inhabits v (.paren t)
  | optional (v : ValKind) (t : Ty) : Inhabits v t → Inhabits v (.optional t)
  | nonNull (v : ValKind) (t : Ty) : v ≠ .null → Inhabits v t → Inhabits v (.nonNull t)

/-- Vue's `assertType` for one entry of `type` (null entry: the value null; `Object`: `isObject`) -/
def acceptsOne (t : RT) (v : ValKind) : Bool :=
  match t, v with
  | some "String", .string => true
  | some "Number", .number => true
  | some "Boolean", .boolean => true
  | some "BigInt", .bigint => true
  | some "Symbol", .symbol => true
  | some "Function", .function => true
  | some "Array", .array => true
  | some "Object", .plainObject => true
  | some "Object", .array => true
  | some c, .instanceOf d => c == d || c == "Object"
  | none, .null => true
  | _, _ => false

/-- Vue's check of the emitted `type`: `any`/`unknown` anywhere (marker) means no check at all -/
def vueAccepts (ts : List RT) (v : ValKind) : Bool :=
  ts.contains (some ANY_TYPE) || ts.any (acceptsOne · v)

theorem vueAccepts_extend_left (xs ys : List RT) (v : ValKind) (h : vueAccepts xs v = true) : vueAccepts (rtExtend xs ys) v = true := by
  obtain ⟨zs, hz⟩ := rtExtend_prefix xs ys
  rw [hz]
  unfold vueAccepts at *
  simp only [Bool.or_eq_true, List.contains_eq_mem, List.mem_append, List.any_append] at *
  rcases h with h | h
  · left; simp at h ⊢; exact Or.inl h
  · right; simp [h]

theorem mem_rtInsert_self (y : RT) (xs : List RT) : y ∈ rtInsert y xs := by
  unfold rtInsert
  split
  · rename_i h; simpa using h
  · simp

theorem mem_rtExtend_right (xs ys : List RT) (y : RT) (h : y ∈ ys) : y ∈ rtExtend xs ys := by
  induction ys generalizing xs with
  | nil => simp at h
  | cons z rest ih =>
    rw [rtExtend_cons]
    simp at h
    rcases h with rfl | h
    · obtain ⟨zs, hz⟩ := rtExtend_prefix (rtInsert y xs) rest
      rw [hz]; simp [mem_rtInsert_self]
    · exact ih _ h

theorem vueAccepts_extend_right (xs ys : List RT) (v : ValKind) (h : vueAccepts ys v = true) : vueAccepts (rtExtend xs ys) v = true := by
  unfold vueAccepts at *
  simp only [Bool.or_eq_true, List.contains_eq_mem, List.any_eq_true] at *
  rcases h with h | ⟨t, ht, hv⟩
  · left; simp at h ⊢; exact mem_rtExtend_right xs ys _ h
  · right; exact ⟨t, mem_rtExtend_right xs ys t ht, hv⟩


/-- registries in which no name resolves (the grammar has no user-declared names) -/
def NoReg (st : St) : Prop :=
  (∀ key, lookupReg st.typeAliases key = none ∧ lookupReg st.interfaces key = none) ∧ st.typeGaveUp = false

theorem memberRuntime_mems (ms : List Bool) :
    memberRuntime (ms.map memNode) = ms.foldl (fun acc c => rtInsert (some (if c then "Function" else "Object")) acc) [] := by
  unfold memberRuntime
  generalize ([] : List RT) = acc
  induction ms generalizing acc with
  | nil => rfl
  | cons c cs ih => cases c <;> simpa [memNode] using ih _

theorem mem_fold_rtInsert_acc (f : Bool → RT) (ms : List Bool) (acc : List RT) (x : RT) (h : x ∈ acc) :
    x ∈ ms.foldl (fun acc c => rtInsert (f c) acc) acc := by
  induction ms generalizing acc with
  | nil => exact h
  | cons c cs ih =>
    apply ih
    show x ∈ rtInsert (f c) acc
    unfold rtInsert
    split
    · exact h
    · simp [h]

theorem mem_fold_rtInsert (f : Bool → RT) (ms : List Bool) (acc : List RT) (c : Bool) (h : c ∈ ms) :
    f c ∈ ms.foldl (fun acc c => rtInsert (f c) acc) acc := by
  induction ms generalizing acc with
  | nil => simp at h
  | cons d ds ih =>
    simp at h
    rcases h with rfl | h
    · exact mem_fold_rtInsert_acc f ds _ _ (mem_rtInsert_self _ _)
    · exact ih _ h

mutual
/-- The model's `inferRuntime`, on the syntax of ANY type of the grammar and with enough fuel, computes `Ty.rt`
    and reports nothing. -/
theorem inferRuntime_eq_rt : ∀ (t : Ty) (fuel : Nat) (st : St), t.wf = true → NoReg st → t.depth ≤ fuel →
    inferRuntime fuel st t.toNode = (t.rt, st)
  | .kw k, fuel, st, _, hr, hd => by
    cases fuel with
    | zero => simp [Ty.depth] at hd
    | succ f => simp [Ty.toNode, inferRuntime, Ty.rt, kwRt, enterRes_ok _ _ hr.2]
  | .strLit, fuel, st, _, hr, hd => by
    cases fuel with
    | zero => simp [Ty.depth] at hd
    | succ f => simp [Ty.toNode, inferRuntime, Ty.rt, enterRes_ok _ _ hr.2]
  | .numLit, fuel, st, _, hr, hd => by
    cases fuel with
    | zero => simp [Ty.depth] at hd
    | succ f => simp [Ty.toNode, inferRuntime, Ty.rt, enterRes_ok _ _ hr.2]
  | .boolLit, fuel, st, _, hr, hd => by
    cases fuel with
    | zero => simp [Ty.depth] at hd
    | succ f => simp [Ty.toNode, inferRuntime, Ty.rt, enterRes_ok _ _ hr.2]
  | .fn, fuel, st, _, hr, hd => by
    cases fuel with
    | zero => simp [Ty.depth] at hd
    | succ f => simp [Ty.toNode, inferRuntime, Ty.rt, enterRes_ok _ _ hr.2]
  | .array, fuel, st, _, hr, hd => by
    cases fuel with
    | zero => simp [Ty.depth] at hd
    | succ f => simp [Ty.toNode, inferRuntime, Ty.rt, enterRes_ok _ _ hr.2]
  | .tuple, fuel, st, _, hr, hd => by
    cases fuel with
    | zero => simp [Ty.depth] at hd
    | succ f => simp [Ty.toNode, inferRuntime, Ty.rt, enterRes_ok _ _ hr.2]
  | .cls n, fuel, st, hw, hr, hd => by
    cases fuel with
    | zero => simp [Ty.depth] at hd
    | succ f =>
      have hb : builtinClassNames.contains n = true := by simpa [Ty.wf] using hw
      simp only [Ty.toNode, nIdent, inferRuntime, (hr.1 (n, "u")).1, (hr.1 (n, "u")).2, Ty.rt, enterRes_ok _ _ hr.2]
      unfold builtinClassNames at hb
      simp only [hb]
      simp
  | .obj ms, fuel, st, _, hr, hd => by
    cases fuel with
    | zero => simp [Ty.depth] at hd
    | succ f => simp [Ty.toNode, nList, inferRuntime, Ty.rt, objRt, memberRuntime_mems, enterRes_ok _ _ hr.2]
  | .paren t, fuel, st, hw, hr, hd => by
    cases fuel with
    | zero => simp [Ty.depth] at hd
    | succ f =>
      have ih := inferRuntime_eq_rt t f st (by simpa [Ty.wf] using hw) hr (by simp [Ty.depth] at hd; omega)
      simp only [Ty.toNode, inferRuntime, Ty.rt, ih, enterRes_ok _ _ hr.2]
  | .optional t, fuel, st, hw, hr, hd => by
    cases fuel with
    | zero => simp [Ty.depth] at hd
    | succ f =>
      have ih := inferRuntime_eq_rt t f st (by simpa [Ty.wf] using hw) hr (by simp [Ty.depth] at hd; omega)
      simp only [Ty.toNode, inferRuntime, Ty.rt, ih, enterRes_ok _ _ hr.2]
  | .nonNull t, fuel, st, hw, hr, hd => by
    cases fuel with
    | zero => simp [Ty.depth] at hd
    | succ f =>
      have ih := inferRuntime_eq_rt t f st (by simpa [Ty.wf] using hw) hr (by simp [Ty.depth] at hd; omega)
      simp only [Ty.toNode, nIdent, inferRuntime, (hr.1 ("NonNullable", "u")).1, (hr.1 ("NonNullable", "u")).2, Ty.rt, enterRes_ok _ _ hr.2,
        typeParamsList, nList, List.head?, ih]
      simp
  | .union ts, fuel, st, hw, hr, hd => by
    cases fuel with
    | zero => simp [Ty.depth] at hd
    | succ f =>
      have ih := inferRuntimeL_eq_rt ts f st [] (by simpa [Ty.wf] using hw) hr (by simp [Ty.depth] at hd; omega)
      simp only [Ty.toNode, nList, inferRuntime, Ty.rt, ih, enterRes_ok _ _ hr.2]
theorem inferRuntimeL_eq_rt : ∀ (ts : List Ty) (fuel : Nat) (st : St) (acc : List RT), Ty.wfL ts = true → NoReg st →
    Ty.depthL ts ≤ fuel →
    (Ty.toNodes ts).foldl (fun (acc : List RT × St) t =>
        let (more, st) := inferRuntime fuel acc.2 t; (rtExtend acc.1 more, st)) (acc, st) = (Ty.rtUnion ts acc, st)
  | [], _, _, _, _, _, _ => by simp [Ty.toNodes, Ty.rtUnion]
  | t :: ts, fuel, st, acc, hw, hr, hd => by
    have hw' : t.wf = true ∧ Ty.wfL ts = true := by simpa [Ty.wfL] using hw
    have hd' : t.depth ≤ fuel ∧ Ty.depthL ts ≤ fuel := by simp [Ty.depthL] at hd; omega
    have h1 := inferRuntime_eq_rt t fuel st hw'.1 hr hd'.1
    have h2 := inferRuntimeL_eq_rt ts fuel st (rtExtend acc t.rt) hw'.2 hr hd'.2
    simp only [Ty.toNodes, List.foldl, h1, Ty.rtUnion]
    exact h2
end

theorem vueAccepts_rtUnion_acc : ∀ (ts : List Ty) (acc : List RT) (v : ValKind), vueAccepts acc v = true →
    vueAccepts (Ty.rtUnion ts acc) v = true
  | [], acc, v, h => by simpa [Ty.rtUnion] using h
  | t :: ts, acc, v, h => by
    simp only [Ty.rtUnion]
    exact vueAccepts_rtUnion_acc ts _ v (vueAccepts_extend_left acc t.rt v h)

theorem vueAccepts_rtUnion_mem : ∀ (ts : List Ty) (acc : List RT) (v : ValKind) (t : Ty), t ∈ ts →
    vueAccepts t.rt v = true → vueAccepts (Ty.rtUnion ts acc) v = true
  | [], _, _, _, hm, _ => by simp at hm
  | u :: ts, acc, v, t, hm, h => by
    simp only [Ty.rtUnion]
    simp at hm
    rcases hm with rfl | hm
    · exact vueAccepts_rtUnion_acc ts _ v (vueAccepts_extend_right acc t.rt v h)
    · exact vueAccepts_rtUnion_mem ts _ v t hm h

theorem vueAccepts_filter (ts : List RT) (v : ValKind) (hv : v ≠ .null) (h : vueAccepts ts v = true) :
    vueAccepts (ts.filter (·.isSome)) v = true := by
  unfold vueAccepts at *
  simp only [Bool.or_eq_true, List.contains_eq_mem, List.any_eq_true, decide_eq_true_eq] at *
  rcases h with h | ⟨t, ht, ha⟩
  · left; simp [List.mem_filter, h]
  · right
    refine ⟨t, ?_, ha⟩
    simp only [List.mem_filter]
    refine ⟨ht, ?_⟩
    cases t with
    | some c => rfl
    | none => cases v <;> simp_all [acceptsOne]

/-- the value-level half: whatever inhabits a type of the grammar passes Vue's check of `Ty.rt` -/
theorem rt_sound (v : ValKind) (t : Ty) (h : Inhabits v t) : vueAccepts t.rt v = true := by
  induction h with
  | union v t ts hm _ ih => simp only [Ty.rt]; exact vueAccepts_rtUnion_mem ts [] v t hm ih
  | paren v t _ ih => simpa [Ty.rt] using ih
  | optional v t _ ih => simpa [Ty.rt] using ih
  | nonNull v t hv _ ih => simp only [Ty.rt]; exact vueAccepts_filter _ v hv ih
  | any v => simp [Ty.rt, kwRt, vueAccepts]
  | unknown v => simp [Ty.rt, kwRt, vueAccepts]
  | litPlain ms hall =>
    simp only [Ty.rt, objRt, orObject]
    split
    · simp [vueAccepts, acceptsOne, ANY_TYPE]
    · rename_i hne
      cases ms with
      | nil => simp at hne
      | cons c cs =>
        have hc : c = false := by simpa using (List.all_eq_true.mp hall) c (by simp)
        have := mem_fold_rtInsert (fun c => some (if c then "Function" else "Object")) (c :: cs) [] c (by simp)
        unfold vueAccepts
        simp only [Bool.or_eq_true, List.any_eq_true]
        right
        exact ⟨_, this, by simp [hc, acceptsOne]⟩
  | litCallable ms hm =>
    simp only [Ty.rt, objRt, orObject]
    have := mem_fold_rtInsert (fun c => some (if c then "Function" else "Object")) ms [] true hm
    split
    · rename_i he; simp at he; rw [he] at this; simp at this
    · unfold vueAccepts
      simp only [Bool.or_eq_true, List.any_eq_true]
      right
      exact ⟨_, this, by simp [acceptsOne]⟩
  | _ => simp [Ty.rt, kwRt, vueAccepts, acceptsOne, ANY_TYPE]

/-- **C17 soundness.**  For every type of the grammar (any nesting depth that the depth limit admits), every value
    that inhabits it is accepted by Vue's check of the `type` the model emits — and nothing is reported. -/
theorem C17_soundness (t : Ty) (v : ValKind) (fuel : Nat) (st : St) (hw : t.wf = true) (hr : NoReg st)
    (hd : t.depth ≤ fuel) (h : Inhabits v t) :
    vueAccepts (inferRuntime fuel st t.toNode).1 v = true ∧ (inferRuntime fuel st t.toNode).2 = st := by
  rw [inferRuntime_eq_rt t fuel st hw hr hd]
  exact ⟨rt_sound v t h, rfl⟩

/-- Vue's check of what is finally written: a lone `null` is `type: null` (no check); otherwise some entry accepts -/
def vueAcceptsEmitted (es : List RT) (v : ValKind) : Bool := es == [none] || es.any (acceptsOne · v)

/-- The last step (`emittedTypes`, used by `buildPropsType`) never makes the check stricter. -/
theorem C17_emitted_no_stricter (ts : List RT) (v : ValKind) (h : vueAccepts ts v = true) :
    vueAcceptsEmitted (emittedTypes ts) v = true := by
  unfold emittedTypes
  split
  · simp [vueAcceptsEmitted]
  · rename_i hc
    unfold vueAccepts at h
    simp only [Bool.or_eq_true] at h
    rcases h with h | h
    · exact absurd h hc
    · simp [vueAcceptsEmitted, h]

/-- **C17, end to end for the grammar**: whatever inhabits the declared type passes Vue's check of the emitted `type`. -/
theorem C17_soundness_emitted (t : Ty) (v : ValKind) (fuel : Nat) (st : St) (hw : t.wf = true) (hr : NoReg st)
    (hd : t.depth ≤ fuel) (h : Inhabits v t) :
    vueAcceptsEmitted (emittedTypes (inferRuntime fuel st t.toNode).1) v = true :=
  C17_emitted_no_stricter _ v (C17_soundness t v fuel st hw hr hd h).1

/-- `null` is kept by unions (`string | null` accepts null) and dropped by `NonNullable` only. -/
theorem C17_null_kept : vueAccepts (Ty.union [.kw "string", .kw "null"]).rt .null = true
    ∧ (Ty.nonNull (.union [.kw "string", .kw "null"])).rt = [some "String"] := by
  constructor <;> decide

/-- `Boolean` before `String` when declared in that order, and the other way round (Vue's boolean casting depends on it). -/
theorem C17_boolean_string_order :
    (Ty.union [.kw "boolean", .kw "string"]).rt = [some "Boolean", some "String"]
    ∧ (Ty.union [.kw "string", .kw "boolean"]).rt = [some "String", some "Boolean"] := by
  constructor <;> decide

/-- `{}` and an object type made of properties are Objects, a call signature makes a Function: never the empty list
    (with `type: []` Vue rejects every value; fix 479d71d). -/
theorem C17_object_like_never_empty (ms : List Bool) : (Ty.obj ms).rt ≠ [] := by
  simp only [Ty.rt, objRt, orObject]
  split
  · simp
  · rename_i h; intro h2; rw [h2] at h; simp at h

theorem C17_empty_object_literal : (Ty.obj []).rt = [some "Object"] ∧ (Ty.obj [false, true]).rt = [some "Object", some "Function"] := by
  constructor <;> decide

/-- An interface without parents: Function for call / construct signatures, Object for the rest, Object when it has no members. -/
theorem C17_interface_own_members (fuel : Nat) (st : St) (n b : String) (ir as ias eas bas las : List String) (iks : List Node) (tp id tps : Node)
    (members : List Node)
    (h1 : lookupReg st.typeAliases (n, b) = none)
    (h2 : lookupReg st.interfaces (n, b) = some (.mk .tsIface ias [id, tps, .mk .list eas [], .mk .tsIfaceBody bas [.mk .list las members]]))
    (hg : st.typeGaveUp = false) :
    inferRuntime (fuel + 1) st (.mk .tsTypeRef as [.mk .ident (n :: b :: ir) iks, tp]) = (orObject (memberRuntime members), st) := by
  simp [inferRuntime, h1, h2, enterRes_ok _ _ hg]

/-- An interface with one parent and no members of its own (`interface F extends B {}`) has its parent's runtime types — Object if
    the parent contributes none. -/
theorem C17_interface_extends_only (fuel : Nat) (st : St) (n b : String) (ir as ias eas bas las pas pias : List String) (iks piks : List Node) (tp id tps targs : Node)
    (h1 : lookupReg st.typeAliases (n, b) = none)
    (h2 : lookupReg st.interfaces (n, b) = some (.mk .tsIface ias [id, tps, .mk .list eas [.mk .tsExprWithTypeArgs pas [.mk .ident pias piks, targs]], .mk .tsIfaceBody bas [.mk .list las []]]))
    (hg : st.typeGaveUp = false) :
    inferRuntime (fuel + 1) st (.mk .tsTypeRef as [.mk .ident (n :: b :: ir) iks, tp])
      = (orObject (rtExtend [] (inferRuntime fuel st (.mk .tsTypeRef [] [.mk .ident pias [], targs])).1),
         (inferRuntime fuel st (.mk .tsTypeRef [] [.mk .ident pias [], targs])).2) := by
  simp [inferRuntime, h1, h2, enterRes_ok _ _ hg, memberRuntime]
/-- The rest element of a tuple (reached by indexing, `[A, ...B[]][1]`) has the runtime types of its element type `B`
    (fix bfb62e1: it was `Object`, which rejects every value of `B` unless `B` is an object type). -/
theorem C17_tuple_rest_element (fuel : Nat) (st : St) (as aas : List String) (elem : Node) (hg : st.typeGaveUp = false) :
    inferRuntime (fuel + 1) st (.mk (.other "TsRestType") as [.mk .tsArray aas [elem]]) = inferRuntime fuel st elem := by
  simp [inferRuntime, enterRes_ok _ _ hg]

/-- An indexed access NEVER yields the empty type list (which would make Vue reject every value): when the access cannot be
    followed the prop gets no runtime check (fix 5ac209a). -/
theorem C17_indexed_access_never_empty (fuel : Nat) (st : St) (as : List String) (objT idxT : Node) (hg : st.typeGaveUp = false) :
    (inferRuntime (fuel + 1) st (.mk .tsIndexed as [objT, idxT])).1 ≠ [] := by
  simp only [inferRuntime, enterRes_ok _ _ hg]
  rcases h : resolveIndexed fuel st objT idxT with ⟨r, st'⟩
  cases r with
  | none => simp
  | some t =>
    simp only
    split
    · simp
    · rename_i hne
      intro h2
      rw [h2] at hne
      simp at hne

/-- non-vacuity: the hypotheses of `C17_soundness` are met by a nested type and an initial state -/
example : (Ty.optional (.union [.paren (.kw "string"), .nonNull (.union [.cls "Date", .kw "null"])])).wf = true
    ∧ (Ty.optional (.union [.paren (.kw "string"), .nonNull (.union [.cls "Date", .kw "null"])])).depth ≤ FUEL := by
  constructor <;> decide

end VueJsx
