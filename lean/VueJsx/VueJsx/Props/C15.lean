/-
  C15 — The vnode factory is createVNode unless a pragma names another.
-/
import VueJsx.Lemmas.Frame
import VueJsx.Visitor

namespace VueJsx
open Text

/-! ### which identifier creates vnodes -/

/-- Without any pragma the factory is Vue's createVNode, imported from 'vue'. -/
theorem C15_default_createVNode (o : Opts) (st : St) (h1 : st.pragma = none) (h2 : o.pragma = none) :
    getPragma o st = st.importFromVue "createVNode" := by
  simp [getPragma, effPragma, h1, h2]

/-- A comment annotation takes precedence over the option, and nothing is imported for it. -/
theorem C15_comment_over_option (o : Opts) (st : St) (p : String) (h : st.pragma = some p) (hv : isValidPragma p = true) :
    getPragma o st = (nQuoteIdent p, st) := by
  simp [getPragma, effPragma, h, hv]

/-- The `pragma` option names the factory when no comment does; createVNode is not imported for it. -/
theorem C15_option_pragma (o : Opts) (st : St) (q : String) (h1 : st.pragma = none) (h2 : o.pragma = some q)
    (hv : isValidPragma q = true) :
    getPragma o st = (nQuoteIdent q, st) := by
  simp [getPragma, effPragma, h1, h2, hv]

/-- A pragma that is not an identifier (or identifiers joined by dots) is REPORTED, and Vue's createVNode is used instead:
    the output never calls something that cannot be called (`h(`, `h x`, `1`, the empty string, a reserved word). -/
theorem C15_invalid_pragma_reported (o : Opts) (st : St) (p : String) (h : effPragma o st = some p) (hv : isValidPragma p = false) :
    getPragma o st = (st.err ("Error: `" ++ p ++ "` can't be used as JSX pragma: it is not an identifier.")).importFromVue "createVNode" := by
  simp [getPragma, h, hv]

/-- Every fragment is created by calling exactly the pragma identifier. -/
theorem C15_fragment_callee (o : Opts) (env : Env) (as1 as2 : List String) (op cl : Node) (children : List Node) (st : St) (p : String)
    (h : st.pragma = some p) (hv : isValidPragma p = true) :
    ∃ args st', trFragment o env (.mk .jsxFragment as1 [op, .mk .list as2 children, cl]) st = (nCall (nQuoteIdent p) args, st') := by
  have hp : (pushFlag o st).pragma = some p := by unfold pushFlag; split <;> simp [h]
  simp only [trFragment, getPragma, effPragma, hp, hv, if_true]
  exact ⟨_, _, rfl⟩

/-- A later annotated position overrides an earlier one (module head first, then the statements in order). -/
theorem C15_later_comment_wins (env : Env) (before : List (List String)) (last : List String) (p : String) (st : St)
    (hc : env.hasComments = true) (hcs : env.comments = before ++ [last]) (hl : pragmaOfComments last = some p) :
    (scanPragmas env st).pragma = some p := by
  simp [scanPragmas, hc, hcs, List.foldl_append, hl]

/-- Positions without an annotation leave the pragma found so far untouched. -/
theorem C15_unannotated_position_keeps (env : Env) (before : List (List String)) (last : List String) (st : St)
    (hc : env.hasComments = true) (hcs : env.comments = before ++ [last]) (hl : pragmaOfComments last = none) :
    (scanPragmas env st).pragma = (scanPragmas { env with comments := before } st).pragma := by
  simp [scanPragmas, hc, hcs, List.foldl_append, hl]

/-! ### the comment scanner, for ALL comment texts -/

theorem stripPrefix_append (p s : List Char) : stripPrefix p (p ++ s) = some s := by
  induction p with
  | nil => simp [stripPrefix]
  | cons c cs ih => simp [stripPrefix, ih]

/-- A comment whose (trimmed, optionally starred) text does not start with `@jsx` is no annotation. -/
theorem C15_scan_no_tag (c : List Char) (h : afterJsxTag c = none) : pragmaOfComment c = none := by
  simp [pragmaOfComment, h]

/-- `@jsxImportSource`, `@jsxRuntime`, `@jsxFrag`, …: `@jsx` directly followed by a non-blank character is no annotation. -/
theorem C15_scan_other_jsx_tags (c : List Char) (ch : Char) (r : List Char)
    (h : afterJsxTag c = some (ch :: r)) (hch : isUnicodeWs ch = false) : pragmaOfComment c = none := by
  simp [pragmaOfComment, h, pragmaOfRest, hch]

/-- A bare `@jsx` (nothing after it) is no annotation. -/
theorem C15_scan_bare (c : List Char) (h : afterJsxTag c = some []) : pragmaOfComment c = none := by
  simp [pragmaOfComment, h, pragmaOfRest]

/-- `@jsx`, a blank, then a name: the pragma is the maximal run of non-blank characters — trailing words are ignored. -/
theorem C15_scan_name (c : List Char) (ch : Char) (r : List Char) (n : Char) (ns : List Char)
    (h : afterJsxTag c = some (ch :: r)) (hch : isUnicodeWs ch = true) (hn : firstToken (trimStartWs r) = n :: ns) :
    pragmaOfComment c = some (n :: ns) := by
  simp [pragmaOfComment, h, pragmaOfRest, hch, hn]

/-- the extracted name contains no blank -/
theorem firstToken_no_ws (s : List Char) : ∀ c ∈ firstToken s, isUnicodeWs c = false := by
  induction s with
  | nil => simp [firstToken]
  | cons x xs ih =>
    simp only [firstToken]
    split
    · simp
    · intro c hc
      simp at hc
      rcases hc with rfl | hc
      · simp_all
      · exact ih c hc

/-- Whatever the comment, an extracted pragma is ONE non-empty word (never `h extra`, never empty). -/
theorem C15_scan_result_is_one_word (c : List Char) (name : List Char) (h : pragmaOfComment c = some name) :
    name ≠ [] ∧ ∀ x ∈ name, isUnicodeWs x = false := by
  unfold pragmaOfComment at h
  cases ha : afterJsxTag c with
  | none => simp [ha] at h
  | some rest =>
    simp only [ha, Option.bind] at h
    cases rest with
    | nil => simp [pragmaOfRest] at h
    | cons ch r =>
      simp only [pragmaOfRest] at h
      split at h
      · split at h
        · simp at h
        · rename_i hne
          simp at h
          subst h
          exact ⟨fun hh => hne hh, firstToken_no_ws _⟩
      · simp at h

-- tests (concrete comment texts)
#guard pragmaOfComment " @jsx h ".toList == some "h".toList
#guard pragmaOfComment "* @jsx custom.h extra words".toList == some "custom.h".toList
#guard pragmaOfComment "* @jsxImportSource vue ".toList == none
#guard pragmaOfComment " @jsxFrag F".toList == none
#guard pragmaOfComment " @jsx ".toList == none
#guard pragmaOfComment " x @jsx h".toList == none

/-- Every ELEMENT is created by calling exactly the pragma identifier: the vnode call (the whole lowering, or the first
    argument of the `withDirectives` wrapper) has the callee `p` — whatever attributes, directives and children the
    element has (the pragma is read after they were processed; none of them can change it: frame lemmas). -/
theorem C15_element_callee (o : Opts) (env : Env) (a0 a1 a2 a3 : List String) (nameN x y : Node) (attrs children : List Node)
    (st : St) (p : String) (h : st.pragma = some p) (hv : isValidPragma p = true) :
    let r := trElement o env (.mk .jsxElement a0 [.mk .jsxOpening a1 [nameN, .mk .list a2 attrs, x], .mk .list a3 children, y]) st
    (∃ args, r.1 = nCall (nQuoteIdent p) args) ∨ (∃ wd args rest, r.1 = nCall wd (nArg (nCall (nQuoteIdent p) args) :: rest)) := by
  simp only [trElement]
  -- the state in which the pragma is read
  generalize hst : (finishChildren o
      (trChildList o env children (transformTag env nameN (transformAttrs o env attrs (isComponent env nameN) (pushFlag o st)).2).2).1
      (isComponent env nameN) (transformAttrs o env attrs (isComponent env nameN) (pushFlag o st)).1.slots
      (popFlag o (trChildList o env children (transformTag env nameN (transformAttrs o env attrs (isComponent env nameN) (pushFlag o st)).2).2).2).1
      (popFlag o (trChildList o env children (transformTag env nameN (transformAttrs o env attrs (isComponent env nameN) (pushFlag o st)).2).2).2).2).2 = stp
  have hro : stp.ro = st.ro := by
    rw [← hst]
    simp only [finishChildren_ro, popFlag_ro, trChildList_ro, transformTag_ro, transformAttrs_ro, pushFlag_ro]
  have hp : stp.pragma = some p := by
    have : stp.ro.1 = st.ro.1 := by rw [hro]
    simpa [St.ro, h] using this
  have hg : (getPragma o stp).1 = nQuoteIdent p := by simp [getPragma, effPragma, hp, hv]
  split
  · left; exact ⟨_, by rw [hg]⟩
  · right; exact ⟨_, _, _, by rw [hg]⟩

theorem openingHook_pragma (n : Node) (st : St) : (openingHook n st).2.pragma = st.pragma := by
  unfold openingHook
  split
  · split
    · rfl
    · simp only
      split
      · rfl
      · split <;> rfl
  · rfl

theorem importHook_pragma (n : Node) (st : St) : (importHook n st).pragma = st.pragma := by
  unfold importHook
  split
  · split
    · rfl
    · split <;> rfl
  · rfl

theorem drainInto_pragma (items : List Node) (st : St) : (drainInto items st).2.pragma = st.pragma := by
  unfold drainInto
  simp only
  split <;> split <;> rfl

theorem drainArrow_pragma (n : Node) (st : St) : (drainArrow n st).2.pragma = st.pragma := by
  unfold drainArrow
  split
  · split
    · split
      · rfl
      · simp only
        split <;> split <;> rfl
    · rfl
  · rfl

theorem ro_pragma {a b : St} (h : a.ro = b.ro) : a.pragma = b.pragma := by
  simp only [St.ro, Prod.mk.injEq] at h; exact h.1

theorem exprHook_pragma (o : Opts) (env : Env) (pos : Pos) (n : Node) (st : St) : (exprHook o env pos n st).2.pragma = st.pragma := by
  unfold exprHook
  split
  · rfl
  · split
    · exact ro_pragma (trElement_ro o env _ st)
    · exact ro_pragma (trFragment_ro o env _ st)
    · rfl
    · rfl

theorem kindHook_pragma (o : Opts) (env : Env) (hrt : o.resolveType = false) (n : Node) (st : St) :
    (kindHook o env n st).2.pragma = st.pragma := by
  unfold kindHook
  split
  · exact openingHook_pragma _ _
  · exact importHook_pragma _ _
  · simp [callHook, hrt]
  · simp [declaratorHook, hrt]
  · rfl

mutual
/-- The pragma found in the comments is never changed by the traversal: every element and fragment of the module is
    lowered under the same pragma (resolveType off; with it on, type resolution only appends diagnostics and imports). -/
theorem visit_pragma (o : Opts) (env : Env) (hrt : o.resolveType = false) :
    ∀ (n : Node) (pos : Pos) (st : St), (visit o env n pos st).2.pragma = st.pragma
  | .mk k as ks, pos, st => by
    unfold visit
    split
    next =>
      simp only
      rw [drainInto_pragma, visitKids_pragma o env hrt ks .stmts pos 0]; rfl
    next params rest =>
      simp only
      rw [exprHook_pragma]
      simp only
      rw [drainArrow_pragma, visitKids_pragma o env hrt rest .arrow pos 1]
      exact visit_pragma o env hrt params (kidPos .arrow pos 0) st
    next =>
      simp only
      rw [exprHook_pragma, kindHook_pragma o env hrt, visitKids_pragma o env hrt ks k pos 0]
theorem visitKids_pragma (o : Opts) (env : Env) (hrt : o.resolveType = false) :
    ∀ (ks : List Node) (k : K) (pos : Pos) (i : Nat) (st : St), (visitKids o env k pos i ks st).2.pragma = st.pragma
  | [], _, _, _, st => by simp [visitKids]
  | c :: cs, k, pos, i, st => by
    simp only [visitKids]
    rw [visitKids_pragma o env hrt cs k pos (i + 1), visit_pragma o env hrt c (kidPos k pos i) st]
end

end VueJsx
