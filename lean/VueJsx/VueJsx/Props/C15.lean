/-
  C15 — The vnode factory is createVNode unless a pragma names another.
-/
import VueJsx.Visitor

namespace VueJsx
open Text

/-! ### which identifier creates vnodes -/

/-- Without any pragma the factory is Vue's createVNode, imported from 'vue'. -/
theorem C15_default_createVNode (o : Opts) (st : St) (h1 : st.pragma = none) (h2 : o.pragma = none) :
    getPragma o st = st.importFromVue "createVNode" := by
  simp [getPragma, h1, h2]

/-- A comment annotation takes precedence over the option, and nothing is imported for it. -/
theorem C15_comment_over_option (o : Opts) (st : St) (p : String) (h : st.pragma = some p) :
    getPragma o st = (nQuoteIdent p, st) := by
  simp [getPragma, h]

/-- The `pragma` option names the factory when no comment does; createVNode is not imported for it. -/
theorem C15_option_pragma (o : Opts) (st : St) (q : String) (h1 : st.pragma = none) (h2 : o.pragma = some q) :
    getPragma o st = (nQuoteIdent q, st) := by
  simp [getPragma, h1, h2]

/-- Every fragment is created by calling exactly the pragma identifier. -/
theorem C15_fragment_callee (o : Opts) (env : Env) (as1 as2 : List String) (op cl : Node) (children : List Node) (st : St) (p : String)
    (h : st.pragma = some p) :
    ∃ args st', trFragment o env (.mk .jsxFragment as1 [op, .mk .list as2 children, cl]) st = (nCall (nQuoteIdent p) args, st') := by
  have hp : (pushFlag o st).pragma = some p := by unfold pushFlag; split <;> simp [h]
  simp only [trFragment, getPragma, hp]
  exact ⟨_, _, rfl⟩

/-- A later annotated position overrides an earlier one (module head first, then the statements in order). -/
theorem C15_later_comment_wins (env : Env) (before : List (List String)) (last : List String) (p : String) (st : St)
    (hc : env.hasComments = true) (hcs : env.comments = before ++ [last]) (hl : pragmaOfComments last = some p) :
    (scanPragmas env st).pragma = some p := by
  simp [scanPragmas, hc, hcs, List.foldl_append, hl]

/-- Positions without an annotation leave the pragma found so far untouched. -/
theorem C15_unannotated_position_keeps (env : Env) (before : List (List String)) (last : List String) (st : St)
    (hc : env.hasComments = true) (hcs : env.comments = before ++ [last]) (hl : pragmaOfComments last = none) :
    (scanPragmas env st).pragma = (scanPragmas { env with comments := before } st).pragma := by
  simp [scanPragmas, hc, hcs, List.foldl_append, hl]

/-! ### the comment scanner, for ALL comment texts -/

theorem stripPrefix_append (p s : List Char) : stripPrefix p (p ++ s) = some s := by
  induction p with
  | nil => simp [stripPrefix]
  | cons c cs ih => simp [stripPrefix, ih]

/-- A comment whose (trimmed, optionally starred) text does not start with `@jsx` is no annotation. -/
theorem C15_scan_no_tag (c : List Char) (h : afterJsxTag c = none) : pragmaOfComment c = none := by
  simp [pragmaOfComment, h]

/-- `@jsxImportSource`, `@jsxRuntime`, `@jsxFrag`, …: `@jsx` directly followed by a non-blank character is no annotation. -/
theorem C15_scan_other_jsx_tags (c : List Char) (ch : Char) (r : List Char)
    (h : afterJsxTag c = some (ch :: r)) (hch : isUnicodeWs ch = false) : pragmaOfComment c = none := by
  simp [pragmaOfComment, h, pragmaOfRest, hch]

/-- A bare `@jsx` (nothing after it) is no annotation. -/
theorem C15_scan_bare (c : List Char) (h : afterJsxTag c = some []) : pragmaOfComment c = none := by
  simp [pragmaOfComment, h, pragmaOfRest]

/-- `@jsx`, a blank, then a name: the pragma is the maximal run of non-blank characters — trailing words are ignored. -/
theorem C15_scan_name (c : List Char) (ch : Char) (r : List Char) (n : Char) (ns : List Char)
    (h : afterJsxTag c = some (ch :: r)) (hch : isUnicodeWs ch = true) (hn : firstToken (trimStartWs r) = n :: ns) :
    pragmaOfComment c = some (n :: ns) := by
  simp [pragmaOfComment, h, pragmaOfRest, hch, hn]

/-- the extracted name contains no blank -/
theorem firstToken_no_ws (s : List Char) : ∀ c ∈ firstToken s, isUnicodeWs c = false := by
  induction s with
  | nil => simp [firstToken]
  | cons x xs ih =>
    simp only [firstToken]
    split
    · simp
    · intro c hc
      simp at hc
      rcases hc with rfl | hc
      · simp_all
      · exact ih c hc

/-- Whatever the comment, an extracted pragma is ONE non-empty word (never `h extra`, never empty). -/
theorem C15_scan_result_is_one_word (c : List Char) (name : List Char) (h : pragmaOfComment c = some name) :
    name ≠ [] ∧ ∀ x ∈ name, isUnicodeWs x = false := by
  unfold pragmaOfComment at h
  cases ha : afterJsxTag c with
  | none => simp [ha] at h
  | some rest =>
    simp only [ha, Option.bind] at h
    cases rest with
    | nil => simp [pragmaOfRest] at h
    | cons ch r =>
      simp only [pragmaOfRest] at h
      split at h
      · split at h
        · simp at h
        · rename_i hne
          simp at h
          subst h
          exact ⟨fun hh => hne hh, firstToken_no_ws _⟩
      · simp at h

-- tests (concrete comment texts)
#guard pragmaOfComment " @jsx h ".toList == some "h".toList
#guard pragmaOfComment "* @jsx custom.h extra words".toList == some "custom.h".toList
#guard pragmaOfComment "* @jsxImportSource vue ".toList == none
#guard pragmaOfComment " @jsxFrag F".toList == none
#guard pragmaOfComment " @jsx ".toList == none
#guard pragmaOfComment " x @jsx h".toList == none

end VueJsx
