/-
  C08 — The transform is total and deterministic.
  Totality of the model is Lean's own: every definition of the model is a total function accepted by the kernel
  (no `partial`, no `unsafe`); the only non-structural recursion (type resolution through the user's registry)
  is bounded by fuel = the real code's MAX_TYPE_RESOLUTION_DEPTH, and exhaustion is a diagnostic.
  The theorems below show that the sites that used to crash report diagnostics instead.
-/
import VueJsx.Visitor

namespace VueJsx

theorem err_keeps_panicked (st : St) (m : String) : (st.err m).panicked = st.panicked := rfl

/-- `v-html` / `v-text` never crash, whatever the attribute value is (missing, `{}`, element, fragment, …). -/
theorem C08_vhtml_vtext_no_panic (what : String) (value : Node) (st : St) :
    (vHtmlOrText what value st).2.panicked = st.panicked := by
  unfold vHtmlOrText
  split
  · rfl
  · split
    · split
      · split <;> rfl
      · rfl
    · rfl

/-- … and a value that is not an expression (or a string) is reported. -/
theorem C08_vhtml_bad_value_reported (what : String) (value : Node) (st : St)
    (h1 : ∀ a k, value ≠ .mk .str a k) (h2 : containerExpr value = none) :
    (vHtmlOrText what value st).2.diags = st.diags ++ ["Error: You have to use JSX Expression inside your `v-" ++ what ++ "`."] := by
  unfold vHtmlOrText
  split
  · rename_i a k; exact absurd rfl (h1 a k)
  · simp [h2, St.err]

/-- `v-model` never crashes; a missing bound expression is reported. -/
theorem C08_vmodel_no_panic (value : Node) (isComp : Bool) (arg : Option Node) (rest : List String) (st : St) :
    (parseVModel value isComp arg rest st).2.panicked = st.panicked := by
  unfold parseVModel
  cases hc : containerExpr value with
  | none => simp only []; (repeat' split) <;> simp [St.err]
  | some e => simp only []; (repeat' split) <;> simp [St.err]

/-- No directive spelling or value shape makes directive parsing crash. -/
theorem C08_parseDirective_no_panic (name : AttrName) (value : Node) (isComp : Bool) (st : St) :
    (parseDirective name value isComp st).2.panicked = st.panicked := by
  unfold parseDirective
  simp only
  split
  · exact C08_vhtml_vtext_no_panic _ _ _
  · split
    · exact C08_vhtml_vtext_no_panic _ _ _
    · split
      · exact C08_vmodel_no_panic _ _ _ _ _
      · split <;> rfl

/-- When the nesting bound of type resolution is reached the result is a diagnostic, not a crash
    (circular aliases and interfaces end here), and the resolution in progress is marked as given up ... -/
theorem C08_depth_bound_is_diagnostic (st : St) (ty obj idx : Node) (hg : st.typeGaveUp = false) :
    resolveElements 0 st ty = ([], { st.err tooDeep with typeGaveUp := true }) ∧ resolveStrings 0 st ty = ([], { st.err tooDeep with typeGaveUp := true })
    ∧ resolveIndexed 0 st obj idx = (none, { st.err tooDeep with typeGaveUp := true }) ∧ inferRuntime 0 st ty = ([], { st.err tooDeep with typeGaveUp := true }) := by
  refine ⟨?_, ?_, ?_, ?_⟩ <;> simp [resolveElements, resolveStrings, resolveIndexed, inferRuntime, giveUp, hg]

/-- ... so that every NESTED resolution step after that returns at once, without reporting again and without exploring anything:
    a self-referential union such as `type T = T | T` costs one descent to the bound, not 2^64 of them. -/
theorem C08_given_up_resolution_unwinds (fuel : Nat) (st : St) (ty obj idx : Node) (hf : fuel + 1 ≠ 64) (hg : st.typeGaveUp = true) :
    resolveElements (fuel + 1) st ty = ([], st) ∧ resolveStrings (fuel + 1) st ty = ([], st)
    ∧ resolveIndexed (fuel + 1) st obj idx = (none, st) ∧ inferRuntime (fuel + 1) st ty = ([], st) := by
  have he : enterRes fuel st = none := by
    unfold enterRes
    have : (fuel + 1 == 64) = false := by simpa using hf
    simp [this, hg]
  refine ⟨?_, ?_, ?_, ?_⟩ <;> simp [resolveElements, resolveStrings, resolveIndexed, inferRuntime, he]

/-- ... and a resolution that STARTS (nesting depth 0) forgets an earlier give-up: one circular type does not silence the next call. -/
theorem C08_new_resolution_starts_afresh (st : St) : enterRes 63 st = some { st with typeGaveUp := false } := by
  simp [enterRes]

-- tests: circular declarations end with the diagnostic (evaluated by the compiler, not a proof)
#guard (resolveElements FUEL { typeAliases := [(("T", "b2"), .mk .tsTypeRef [] [nIdent "T" "b2", nNone])] }
          (.mk .tsTypeRef [] [nIdent "T" "b2", nNone])).2.diags == [tooDeep]
#guard (resolveElements FUEL { typeAliases := [(("T", "b2"), .mk .tsTypeRef [] [nIdent "T" "b2", nNone])] }
          (.mk .tsTypeRef [] [nIdent "T" "b2", nNone])).2.panicked == none

end VueJsx
